#!/usr/bin/env python3
"""check.py <PROPERTY> [--tier quick|thorough] [--replay FILE] [--write-baseline]

Decides one property of /verif/properties.jsonl for the CURRENT working tree of /repo.
Exit 0: held on everything explored (KNOWN-FINDING lines allowed); 1: VIOLATION line printed;
2: undecided; 3: checker error.  Run with python3-vt (z3); run-time parts are delegated to /venv/bin/python.
"""
import argparse
import importlib
import json
import os
import sys

ROOT = os.path.dirname(os.path.abspath(__file__))
sys.path.insert(0, ROOT)


def main():
    ap = argparse.ArgumentParser()
    ap.add_argument("prop")
    ap.add_argument("--tier", default=os.environ.get("VERIF_TIER", "quick"), choices=["quick", "thorough"])
    ap.add_argument("--replay")
    ap.add_argument("--write-baseline", action="store_true")
    ap.add_argument("--only", default=None, help="developer aid: run only units whose name contains this")
    a = ap.parse_args()
    seed = int(os.environ.get("VERIF_SEED", "0") or 0)
    from props import table
    if a.prop not in table.PROPS:
        print(f"CHECKER-ERROR no check registered for property {a.prop}")
        return 3
    if a.replay:
        return table.generic_replay(a.replay)
    try:
        return table.run(a.prop, a.tier, seed, write_baseline=a.write_baseline, only=a.only)
    except Exception:
        import traceback
        traceback.print_exc()
        print(f"CHECKER-ERROR property={a.prop}: exception in the checker (not a violation)")
        return 3


if __name__ == "__main__":
    sys.exit(main())
