#!/usr/bin/env python3
"""False-alarm measurement: apply each behaviour-preserving refactoring under /verif/benign/<name>/patch.diff to a scratch copy of the
package and run the check of the property it touches (all checks with --all). Any VIOLATION line / non-zero exit is a false alarm of the
machinery (a proof that is merely lost shows up as UNDECIDED with exit 0 when the bounded stand-in passes).
usage: run_benign.py [--only NAME,..] [--all] [--jobs N] [--tier quick]      writes /verif/benign/RESULTS.json"""
import json
import os
import shutil
import subprocess
import sys
from concurrent.futures import ThreadPoolExecutor

ROOT = os.path.dirname(os.path.dirname(os.path.abspath(__file__)))


def sh(cmd, cwd=None, env=None, timeout=7200):
    p = subprocess.run(cmd, cwd=cwd, shell=True, capture_output=True, text=True, timeout=timeout, env=env)
    return p.returncode, p.stdout + p.stderr


def main():
    a = sys.argv[1:]
    only = a[a.index("--only") + 1].split(",") if "--only" in a else None
    jobs = int(a[a.index("--jobs") + 1]) if "--jobs" in a else 3
    tier = a[a.index("--tier") + 1] if "--tier" in a else "quick"
    allp = "--all" in a
    props_all = [c["property_id"] for c in json.load(open(os.path.join(ROOT, "MANIFEST.json")))["checks"]]
    bdir = os.path.join(ROOT, "benign")
    items = []
    for d in sorted(os.listdir(bdir)):
        sd = os.path.join(bdir, d)
        if os.path.isdir(sd) and os.path.exists(os.path.join(sd, "patch.diff")) and (not only or any(o in d for o in only)):
            meta = json.load(open(os.path.join(sd, "meta.json"))) if os.path.exists(os.path.join(sd, "meta.json")) else {}
            items.append((d, sd, props_all if allp else meta.get("checks", [d.split("_")[0]])))
    respath = os.path.join(bdir, "RESULTS.json")
    results = json.load(open(respath)) if os.path.exists(respath) else {}

    def one(it):
        d, sd, plist = it
        base = f"/tmp/benignrun/{d}"
        shutil.rmtree(base, ignore_errors=True)
        os.makedirs(base)
        shutil.copytree("/repo/skactiveml", os.path.join(base, "skactiveml"))
        rc, out = sh(f"patch -p1 -s < {sd}/patch.diff", base)
        if rc != 0:
            print(d, "PATCH DOES NOT APPLY", out[:200], flush=True)
            shutil.rmtree(base, ignore_errors=True)
            return d, {"patch": "does not apply"}
        env = dict(os.environ, VERIF_REPO=base, VERIF_EVIDENCE_DIR=os.path.join(base, "_ev"), VERIF_OUT_DIR=os.path.join(base, "_out"))
        res = {}
        for p in plist:
            rc, txt = sh(f"python3-vt check.py {p} --tier {tier}", ROOT, env=env)
            viol = [l for l in txt.splitlines() if l.startswith("VIOLATION")]
            und = [l for l in txt.splitlines() if l.startswith(("UNDECIDED", "CHECKER-ERROR"))]
            sigs = []
            for v in viol[:4]:
                try:
                    sigs.append(json.load(open(v.split("replay=")[1].split()[0]))["signature"][:160])
                except Exception:
                    pass
            res[p] = {"exit": rc, "violations": viol[:5], "signatures": sigs, "undecided": und[:5], "false_alarm": rc != 0 or bool(viol)}
            print(f"{d:14s} {p}: exit={rc} violations={len(viol)} undecided={len(und)} {'FALSE ALARM ' + ' | '.join(sigs[:2]) if (rc != 0 or viol) else 'quiet'}"
                  + (("  [" + und[0][:140] + "]") if und else ""), flush=True)
        shutil.rmtree(base, ignore_errors=True)
        return d, res
    with ThreadPoolExecutor(jobs) as ex:
        for d, r in ex.map(one, items):
            results[d] = r
    json.dump(results, open(respath, "w"), indent=1, sort_keys=True)
    bad = [(d, p) for d, r in results.items() for p, v in r.items() if isinstance(v, dict) and v.get("false_alarm")]
    print("FALSE ALARMS:", bad)


if __name__ == "__main__":
    main()
