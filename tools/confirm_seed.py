#!/usr/bin/env python3
"""Confirm a seeded change produced by a sub-agent in its scratch worktree and file it under /verif/seeded/.

usage: confirm_seed.py <worktree> <A|B> <PROPERTY>
Checks (all run by this script, in the scratch worktree, never in /repo):
  1. the worktree is clean, the diff applies with `git apply`
  2. with the change: the demonstration exits non-zero
  3. with the change: the tests of every touched sub-package (+ skactiveml/tests, utils) pass apart from the three
     tests that fail on the unchanged tree
  4. without the change: the demonstration exits 0
"""
import json
import os
import re
import shutil
import subprocess
import sys

KNOWN_FAIL = ("test_conditional_expectation", "test_init_param_parallel_dict", "test_fit_predict")


def sh(cmd, cwd, timeout=3600):
    p = subprocess.run(cmd, cwd=cwd, shell=True, capture_output=True, text=True, timeout=timeout)
    return p.returncode, p.stdout + p.stderr


def main():
    wt, which, prop = sys.argv[1], sys.argv[2], sys.argv[3]
    full = "--full" in sys.argv
    seed = os.path.join(wt, "_seed")
    diff = os.path.join(seed, f"{which}.diff")
    demo = os.path.join(seed, f"{which}_demo.py")
    notes = json.load(open(os.path.join(seed, "notes.json"))).get(which, {})
    rc, out = sh("git status --porcelain --untracked-files=no", wt)
    assert out.strip() == "", "worktree not clean: " + out
    rc, out = sh(f"git apply --check {diff}", wt)
    assert rc == 0, "diff does not apply: " + out
    files = re.findall(r"^\+\+\+ b/(.*)$", open(diff).read(), re.M)
    assert files and all(f.startswith("skactiveml/") and "/tests/" not in f for f in files), files
    sh(f"git apply {diff}", wt)
    report = {"property": prop, "files": files}
    try:
        rc, out = sh(f"/venv/bin/python {demo}", wt, 1800)
        report["demo_with_change"] = {"exit": rc, "tail": out[-600:]}
        assert rc != 0, "demo does not fail with the change"
        pkgs = sorted({os.path.dirname(f) + "/tests" for f in files} | {"skactiveml/tests", "skactiveml/utils/tests"})
        pkgs = [p for p in pkgs if os.path.isdir(os.path.join(wt, p))]
        target = "" if full else " ".join(pkgs)
        rc, out = sh(f"/venv/bin/python -m pytest -q -p no:cacheprovider --timeout=900 -x --deselect skactiveml/pool/tests/test_utils.py::TestApproximation::test_conditional_expectation "
                     f"--deselect skactiveml/regressor/tests/test_wrapper.py::TestWrapper::test_fit_predict {target}", wt, 3600)
        tail = out.strip().splitlines()[-1] if out.strip() else ""
        failed = [l for l in out.splitlines() if l.startswith(("FAILED", "ERROR")) and not any(k in l for k in KNOWN_FAIL)]
        report["tests_with_change"] = {"cmd_target": target or "<full suite>", "summary": tail, "unexpected_failures": failed}
        assert not failed, "tests fail with the change: " + "\n".join(failed[:5])
    finally:
        sh("git checkout -- .", wt)
        sh("git clean -fdq skactiveml/visualization/tests/images", wt)
    rc, out = sh(f"/venv/bin/python {demo}", wt, 1800)
    report["demo_without_change"] = {"exit": rc, "tail": out[-300:]}
    assert rc == 0, "demo does not pass on the unchanged tree: " + out[-500:]
    dst = os.path.join("/verif/seeded", f"{prop}-{which}")
    os.makedirs(dst, exist_ok=True)
    shutil.copy(diff, os.path.join(dst, "patch.diff"))
    shutil.copy(demo, os.path.join(dst, "demo.py"))
    meta = {"breaks_property": prop, "summary": notes.get("summary"), "needs_to_manifest": notes.get("what_it_needs_to_manifest"),
            "files": files, "origin": "independent sub-agent given only the property text and a scratch worktree",
            "confirmed_by": "tools/confirm_seed.py in the scratch worktree", "confirmation": report,
            "agent_tests_run": notes.get("tests_run")}
    json.dump(meta, open(os.path.join(dst, "meta.json"), "w"), indent=1)
    print("confirmed ->", dst)


if __name__ == "__main__":
    main()
