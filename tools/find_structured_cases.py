#!/usr/bin/env python3
"""for every known finding (known_findings.jsonl, status known) find ONE case of the bounded stand-ins whose failure matches it and store it in
bounded/structured_cases.json ({script: {property: [case, ...]}}); bounded/runner.py appends these cases on every run.
Run under the repository's interpreter: cd /repo && PYTHONPATH=/repo:/verif /venv/bin/python /verif/tools/find_structured_cases.py"""
import importlib, json, os, re, sys, warnings
warnings.filterwarnings("ignore")
ROOT = os.path.dirname(os.path.dirname(os.path.abspath(__file__)))
sys.path.insert(0, ROOT)
from props.table import PROPS            # noqa
known = [json.loads(l) for l in open(os.path.join(ROOT, "known_findings.jsonl")) if l.startswith("{")]
known = [k for k in known if k.get("status") == "known"]
out_path = os.path.join(ROOT, "bounded", "structured_cases.json")
out = json.load(open(out_path)) if os.path.exists(out_path) else {}
for k in known:
    prop = k["property"]
    done = False
    for script, p in PROPS[prop]["bounded"]:
        base = os.path.basename(script)
        if any(c.get("_finding") == k["id"] for c in out.get(base, {}).get(p, [])):
            done = True
            break
        mod = importlib.import_module("bounded." + base[:-3])
        for seed in range(0, 8):
            for case in mod.cases(p, "quick", seed):
                try:
                    fails = mod.run_case(p, dict(case))
                except Exception:
                    continue
                if any(re.fullmatch(k["match"], f["sig"]) for f in fails):
                    c = {kk: vv for kk, vv in case.items() if not kk.startswith("_")}
                    c["key"] = list(c.get("key", [])) + ["structured", k["id"]]
                    c["_finding"] = k["id"]
                    out.setdefault(base, {}).setdefault(p, []).append(c)
                    done = True
                    break
            if done:
                break
        if done:
            break
    print(k["id"], "ok" if done else "NO CASE FOUND")
json.dump(out, open(out_path, "w"), indent=1, sort_keys=True, default=str)
