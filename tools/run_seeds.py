#!/usr/bin/env python3
"""Run the checks against every seeded change.

Default mode (as the task prescribes): apply the patch to /repo (git apply), run the check(s), undo (git checkout -- .).
--scratch: apply the patch to a scratch copy of the package under /tmp/seedrun/<id> and point the checks at it with
VERIF_REPO (evidence/out redirected), so that several seeds can run in parallel and /repo is never touched.
usage: run_seeds.py [--tier quick] [--only C04] [--props C04,C10] [--scratch] [--jobs 4]
Writes /verif/seeded/RESULTS.json.
"""
import json
import os
import shutil
import subprocess
import sys
import time
from concurrent.futures import ThreadPoolExecutor

ROOT = os.path.dirname(os.path.dirname(os.path.abspath(__file__)))


def sh(cmd, cwd=None, timeout=7200, env=None):
    p = subprocess.run(cmd, cwd=cwd, shell=True, capture_output=True, text=True, timeout=timeout, env=env)
    return p.returncode, p.stdout + p.stderr


def run_checks(d, plist, tier, env=None):
    out = {}
    for p in plist:
        t0 = time.time()
        rc, txt = sh(f"python3-vt check.py {p} --tier {tier}", ROOT, env=env)
        viol = [l for l in txt.splitlines() if l.startswith("VIOLATION")]
        und = [l for l in txt.splitlines() if l.startswith(("UNDECIDED", "CHECKER-ERROR"))]
        sigs = []
        kinds, ob_sigs = {}, []
        for v in viol:
            try:
                rj = json.load(open(v.split("replay=")[1].split()[0]))
            except Exception:
                continue
            if len(sigs) < 4:
                sigs.append(rj["signature"][:160])
            kd = rj.get("kind", "?")
            if kd == "obligation":
                kd = "L1 frame obligation" if rj["signature"].startswith("frames.") else "L2 obligation"
                if len(ob_sigs) < 3:
                    ob_sigs.append(rj["signature"][:160] + (" [replayed input]" if rj.get("replay") else " [no-failing-input-found]"))
            kinds[kd] = kinds.get(kd, 0) + 1
        out[p] = {"exit": rc, "violations": viol[:6], "signatures": sigs, "undecided": und[:4], "wall_s": round(time.time() - t0, 1),
                  "tier": tier, "detected": rc == 1 and bool(viol), "violations_by_kind": kinds, "obligation_signatures": ob_sigs}
        print(f"{d:10s} check {p}: exit={rc} detected={rc == 1 and bool(viol)} ({len(viol)} VIOLATION, {len(und)} undecided) {time.time() - t0:.0f}s  "
              + " | ".join(sigs[:2]), flush=True)
    return out


def main():
    a = sys.argv[1:]
    tier = a[a.index("--tier") + 1] if "--tier" in a else "quick"
    only = a[a.index("--only") + 1] if "--only" in a else None
    props = a[a.index("--props") + 1].split(",") if "--props" in a else None
    jobs = int(a[a.index("--jobs") + 1]) if "--jobs" in a else 4
    scratch = "--scratch" in a
    respath = os.path.join(ROOT, "seeded", "RESULTS.json")
    results = json.load(open(respath)) if os.path.exists(respath) else {}
    seeds = []
    for d in sorted(os.listdir(os.path.join(ROOT, "seeded"))):
        sd = os.path.join(ROOT, "seeded", d)
        if os.path.isdir(sd) and os.path.exists(os.path.join(sd, "meta.json")) and (not only or any(o in d for o in only.split(","))):
            meta = json.load(open(os.path.join(sd, "meta.json")))
            seeds.append((d, sd, props or meta.get("checks", [meta["breaks_property"]])))
    if not scratch:
        rc, out = sh("git status --porcelain --untracked-files=no", "/repo")
        assert out.strip() == "", "/repo has uncommitted changes: " + out
        for d, sd, plist in seeds:
            rc, out = sh(f"git apply {sd}/patch.diff", "/repo")
            if rc != 0:
                rc, out = sh(f"git apply --3way {sd}/patch.diff", "/repo")
            if rc != 0:
                print(d, "PATCH DOES NOT APPLY", out[:200])
                continue
            try:
                results.setdefault(d, {}).update(run_checks(d, plist, tier))
            finally:
                sh("git checkout -- . && git reset -q", "/repo")
        rc, out = sh("git status --porcelain --untracked-files=no", "/repo")
        assert out.strip() == "", "/repo left modified!"
    else:
        def one(item):
            d, sd, plist = item
            base = f"/tmp/seedrun/{d}"
            shutil.rmtree(base, ignore_errors=True)
            os.makedirs(base)
            sh(f"cp -r /repo/skactiveml {base}/ && cd {base} && git init -q . && git add -A . && git -c user.email=a@b -c user.name=x commit -q -m base")
            rc, out = sh(f"git apply {sd}/patch.diff || git apply --3way {sd}/patch.diff", base)
            if rc != 0:
                print(d, "PATCH DOES NOT APPLY", out[:300])
                return d, {}
            env = dict(os.environ, VERIF_REPO=base, VERIF_EVIDENCE_DIR=f"{base}/_evidence", VERIF_OUT_DIR=f"{base}/_out", VERIF_JOBS="8")
            try:
                return d, run_checks(d, plist, tier, env)
            finally:
                shutil.rmtree(base, ignore_errors=True)
        with ThreadPoolExecutor(jobs) as ex:
            for d, r in ex.map(one, seeds):
                results.setdefault(d, {}).update(r)
    json.dump(results, open(respath, "w"), indent=1, sort_keys=True)


if __name__ == "__main__":
    main()
