#!/usr/bin/env python3
"""(Re)generate MANIFEST.json from props/table.py; run with python3-vt from /verif."""
import json
import os
import sys
sys.path.insert(0, os.path.dirname(os.path.dirname(os.path.abspath(__file__))))
from props.table import PROPS

ROOT = os.path.dirname(os.path.dirname(os.path.abspath(__file__)))
props = [json.loads(l) for l in open(os.path.join(ROOT, "properties.jsonl"))]
LEVEL = json.load(open(os.path.join(ROOT, "props", "levels.json")))

checks, na = [], []
for p in props:
    pid = p["id"]
    if pid in PROPS and pid in LEVEL and not LEVEL[pid].get("not_applicable"):
        lv = LEVEL[pid]
        checks.append({
            "property_id": pid,
            "quick_cmd": f"python3-vt check.py {pid} --tier quick",
            "thorough_cmd": f"python3-vt check.py {pid} --tier thorough",
            "evidence_file": f"evidence/{pid}.json",
            "replay_cmd_template": f"python3-vt check.py {pid} --replay {{path}}",
            "engine": "pyvc",
            "level_claimed": {"category": lv["category"], "text": lv["text"], "design_ref": lv.get("design_ref", "DESIGN.md §4 " + pid)},
            "level_note": lv["note"],
            "technique": lv["technique"],
        })
    else:
        na.append({"property_id": pid, "reason": LEVEL.get(pid, {}).get("reason", "check not built yet (work in progress)")})

m = {
    "version": 1,
    "setup_cmd": "python3-vt -c \"import z3, cvc5\" && /venv/bin/python -c \"import sklearn, numpy\" && python3-vt -c \"import sys; sys.path.insert(0,'.'); from pyvc.repo import Repo; Repo()\"",
    "hooks": {"guard": "SKACTIVEML_VERIF",
              "enable": "no hooks are needed: the checks parse /repo's working tree (ast) and import it with PYTHONPATH=/repo; nothing in /repo is instrumented",
              "baseline_off_cmd": "cd /repo && /venv/bin/python -m pytest -ra -q -p no:cacheprovider --timeout=900 --continue-on-collection-errors",
              "source_commits": [], "add_only": True},
    "engines": [{"name": "pyvc", "path": "pyvc/", "serves_properties": [c["property_id"] for c in checks],
                 "kind_free_text": "self-built contract verifier for Python: ast -> symbolic execution -> z3/cvc5 verification conditions (L2), "
                                   "flow-sensitive alias/effect analysis for frame conditions (L1), run-time contract evaluation as bounded stand-in and replay (R)"}],
    "checks": checks,
    "notes": "Sidecar contracts live in contracts/; bounded stand-ins in bounded/ (never counted as proof); known findings in known_findings.jsonl; "
             "seeded changes and which checks catch them in seeded/ and DESIGN.md.",
    "not_applicable": na,
}
json.dump(m, open(os.path.join(ROOT, "MANIFEST.json"), "w"), indent=1)
print(len(checks), "checks,", len(na), "not claimed")
