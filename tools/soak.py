#!/usr/bin/env python3
"""Run every registered quick check under several seeds on the unchanged tree and report alarms (false-alarm soak)."""
import json, os, subprocess, sys, time
ROOT = os.path.dirname(os.path.dirname(os.path.abspath(__file__)))
seeds = [int(x) for x in (sys.argv[1].split(",") if len(sys.argv) > 1 else "1,2,3".split(","))]
tier = sys.argv[2] if len(sys.argv) > 2 else "quick"
props = [c["property_id"] for c in json.load(open(os.path.join(ROOT, "MANIFEST.json")))["checks"]]
if len(sys.argv) > 3:
    props = sys.argv[3].split(",")
bad = []
for sd in seeds:
    for p in props:
        t0 = time.time()
        env = dict(os.environ, VERIF_SEED=str(sd), VERIF_EVIDENCE_DIR="/tmp/soak_evidence", VERIF_OUT_DIR="/tmp/soak_out")
        r = subprocess.run(f"python3-vt check.py {p} --tier {tier}", cwd=ROOT, shell=True, capture_output=True, text=True, env=env)
        tail = [l for l in r.stdout.splitlines() if l.startswith(("VIOLATION", "UNDECIDED", "CHECKER-ERROR", "["))]
        print(f"seed {sd} {p}: exit {r.returncode} {time.time() - t0:.0f}s  {tail[-1] if tail else ''}", flush=True)
        if r.returncode != 0:
            bad.append((sd, p))
            for l in tail[:6]:
                print("     ", l[:300])
            for l in tail:
                if l.startswith("VIOLATION"):
                    try:
                        d = json.load(open(l.split("replay=")[1].split()[0]))
                        print("        ", d["signature"], "|", str(d["detail"].get("detail", ""))[:200])
                    except Exception:
                        pass
print("ALARMS:", bad)
