#!/usr/bin/env python3
"""Developer aid: print functions of a repo file without docstrings. usage: showsrc.py file [qualname-substring...]"""
import ast, sys
src=open(sys.argv[1]).read(); tree=ast.parse(src); pats=sys.argv[2:]
def strip(n):
    for x in ast.walk(n):
        if isinstance(x,(ast.FunctionDef,ast.ClassDef,ast.Module)) and x.body and isinstance(x.body[0],ast.Expr) and isinstance(x.body[0].value,ast.Constant) and isinstance(x.body[0].value.value,str):
            x.body=x.body[1:] or [ast.Pass()]
def walk(n,prefix=''):
    for c in n.body:
        if isinstance(c,ast.ClassDef): walk(c,prefix+c.name+'.')
        elif isinstance(c,ast.FunctionDef):
            q=prefix+c.name
            if not pats or any(p in q for p in pats):
                strip(c); print(f'##### {q}  (line {c.lineno})'); print(ast.unparse(c)); print()
walk(tree)
