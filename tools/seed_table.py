#!/usr/bin/env python3
"""print (or insert into DESIGN.md between the SEED-TABLE markers) which mechanism reports which seeded change, from seeded/RESULTS.json"""
import json, os, re, sys
ROOT = os.path.dirname(os.path.dirname(os.path.abspath(__file__)))
r = json.load(open(os.path.join(ROOT, "seeded", "RESULTS.json")))
rows = {"L2 obligation, counter-model replayed on the real code (failing input in the replay file)": [],
        "L2 obligation with a counter-model (`sat`; VIOLATION ... no-failing-input-found)": [],
        "L1 frame obligation": [], "bounded stand-in only (the deductive units do not cover the changed code, or lose the proof -> UNDECIDED)": []}
keys = list(rows)
undetected = []
for k in sorted(r):
    if not os.path.exists(os.path.join(ROOT, "seeded", k, "meta.json")):
        continue
    v = list(r[k].values())[0]
    if not v.get("detected"):
        undetected.append(k)
        continue
    kinds = v.get("violations_by_kind", {})
    obs = v.get("obligation_signatures", [])
    hit = False
    if kinds.get("L2 obligation"):
        unit = sorted({o.split(":")[0].split(".", 1)[1].rsplit(".", 0)[0] for o in obs if not o.startswith("frames.")})
        short = sorted({u.split(".")[0] if not u.startswith(("_", "Sub", "Par", "Greedy", "Sliding")) else u.split(".query")[0] for u in unit})[:2]
        tag = f"{k} ({', '.join(short)})" if short else k
        rows[keys[0] if any("[replayed input]" in o for o in obs if not o.startswith("frames.")) else keys[1]].append(tag)
        hit = True
    if kinds.get("L1 frame obligation"):
        fr = sorted({o.split(":")[1].split(".")[0] for o in obs if o.startswith("frames.")})
        rows[keys[2]].append(f"{k} ({', '.join(fr)})" if fr else k)
        hit = True
    if not hit:
        rows[keys[3]].append(k)
n = sum(1 for k in r if os.path.exists(os.path.join(ROOT, "seeded", k, "meta.json")))
out = [f"{n} seeded changes, {n - len(undetected)} reported with exit 1 and a VIOLATION line" + (f"; NOT reported: {', '.join(undetected)}" if undetected else "") + ". Which mechanism reports which (a seed can be in two rows):", "",
       "| reported by | seeds |", "|---|---|"]
for kk in keys:
    out.append(f"| {kk} | {', '.join(rows[kk]) or '-'} |")
txt = "\n".join(out)
if "--insert" in sys.argv:
    p = os.path.join(ROOT, "DESIGN.md")
    s = open(p).read()
    s2 = re.sub(r"<!-- SEED-TABLE -->.*?<!-- /SEED-TABLE -->", "<!-- SEED-TABLE -->\n" + txt.replace("\\", "\\\\") + "\n<!-- /SEED-TABLE -->", s, flags=re.S)
    assert s2 != s or "<!-- SEED-TABLE -->" in s
    open(p, "w").write(s2)
print(txt)
