#!/usr/bin/env python3
"""import the refactorings a sub-agent left in <worktree>/_benign/ into /verif/benign/<ID>_<k>/ (patch.diff, equiv.py, meta.json)"""
import glob, json, os, shutil, subprocess, sys
wt = sys.argv[1]
src = os.path.join(wt, "_benign")
notes = json.load(open(os.path.join(src, "notes.json")))
for diff in sorted(glob.glob(os.path.join(src, "*.diff"))):
    name = os.path.basename(diff)[:-5]
    rc = subprocess.run(["git", "-C", "/repo", "apply", "--check", diff], capture_output=True, text=True)
    if rc.returncode != 0:
        print(name, "DOES NOT APPLY to /repo HEAD:", rc.stderr[:200])
        continue
    dst = os.path.join("/verif/benign", name)
    if os.path.exists(dst):
        # never overwrite an earlier refactoring of the same name: take the next free number
        prop_, k = name.rsplit("_", 1)
        k = int(k) if k.isdigit() else 1
        if open(os.path.join(dst, "patch.diff")).read() == open(diff).read():
            print("already imported", name)
            continue
        while os.path.exists(os.path.join("/verif/benign", f"{prop_}_{k}")):
            k += 1
        dst = os.path.join("/verif/benign", f"{prop_}_{k}")
        print(name, "->", os.path.basename(dst))
    os.makedirs(dst, exist_ok=True)
    shutil.copy(diff, os.path.join(dst, "patch.diff"))
    eq = os.path.join(src, name + "_equiv.py")
    if os.path.exists(eq):
        shutil.copy(eq, os.path.join(dst, "equiv.py"))
    n = notes.get(name, {})
    prop = name.split("_")[0]
    json.dump({"summary": n.get("summary"), "files": n.get("files"), "why_equivalent": n.get("why_equivalent"), "tests_run": n.get("tests_run"),
               "checks": [prop], "origin": "independent sub-agent given only the property texts and a scratch worktree; asked for behaviour-preserving refactorings"},
              open(os.path.join(dst, "meta.json"), "w"), indent=1)
    print("imported", os.path.basename(dst))
