"""pyvc.unit — wraps one function-level verification task (symbolic execution + SMT) as a 'unit'."""
import json
import os
import time

import z3

from .repo import Repo, unparse
from .se import Engine, State, Unsupported, EngineError, LoopSpec
from .lib import Lib
from .solve import solve_one, vacuity_check

ROOT = os.path.dirname(os.path.dirname(os.path.abspath(__file__)))
_repo = None
_baseline = None


def get_repo():
    global _repo
    if _repo is None:
        _repo = Repo()
    return _repo


def reset_repo():
    global _repo
    _repo = None


def baseline_abstraction():
    global _baseline
    if _baseline is None:
        p = os.path.join(ROOT, "baseline", "abstraction.json")
        _baseline = json.load(open(p)) if os.path.exists(p) else {}
    return _baseline


# library contracts that OVER-approximate numpy (a sum known only through bounds, a count through a few axioms, a generic ndarray method, an
# unconstrained random stream, 'may return the same object'): a counter-model that newly passes through one of these may be spurious. All other
# contracts in pyvc/lib.py state the exact elementwise / positional semantics, so a counter-model through them is a real behaviour.
WEAK_CONTRACT_MARKS = ("of a non-negative", "(unconstrained value)", "assumed NaN-free", "numpy ndarray method", "RandomState model", "check_array", "validation only", "length only")


def weak_contract(tag):
    return any(m in tag for m in WEAK_CONTRACT_MARKS)


_loops = None


def baseline_loops():
    global _loops
    if _loops is None:
        p = os.path.join(ROOT, "baseline", "loops.json")
        _loops = json.load(open(p)) if os.path.exists(p) else {}
    return _loops


TIMEOUT_MS = {"quick": 20000, "thorough": 60000}     # the long last attempt; the first attempts are 1 s and 3 s (pyvc/solve.py)


def se_unit(name, file, qualname, cls, setup, post, loop_specs=None, inline=(), lib_factory=None, kind="L2",
            max_paths=4000, allow_raise=True):
    """setup(E, st) -> ctx dict with 'args' (and optional 'kwargs'); post(E, ctx, outcomes) adds obligations."""

    def runner(tier):
        repo = get_repo()
        fn = repo.func(file, qualname)
        lib = lib_factory() if lib_factory else Lib()
        specs = loop_specs(None) if callable(loop_specs) else (loop_specs or {})
        E = Engine(repo, cls=cls, file=file, lib=lib, loop_specs=specs, inline=inline, max_paths=max_paths)
        E.expected_headers = baseline_loops().get(name)
        st = State()
        res = {"unit": name, "target": f"{file}::{qualname}", "src_hash": repo.src_hash(fn), "kind": kind,
               "inlined": sorted(inline)}
        if repo.renamed:
            res["renamed_locals"] = {k: v for k, v in repo.renamed.items()}      # functions verified up to a renaming of local variables
        try:
            ctx = setup(E, st)
            if "loop_specs" in ctx:
                E.loop_specs = ctx["loop_specs"]
            outs = E.verify(fn, st, ctx["args"], ctx.get("kwargs"), cls=cls)
            post(E, ctx, outs)
        except Unsupported as u:
            res.update(unsupported=str(u), obligations=[], abstracted=sorted(E.abstracted), dropped=sorted(E.dropped))
            return res
        res["paths"] = len(outs)
        res["abstracted"] = sorted(E.abstracted)
        res["dropped"] = sorted(E.dropped)
        res["lib"] = sorted(getattr(E, "used_lib", set()))
        base = baseline_abstraction().get(name)
        if base is not None:
            # footprint = calls abstracted to unknown values + library contracts relied upon; a counter-model found on a tree whose
            # footprint grew may rest on a contract that was never exercised (or is too weak) for this unit: undecided, not a violation
            new = sorted((set(res["abstracted"]) | {"lib:" + x for x in res["lib"] if weak_contract(x)}) - set(base))
            if new:
                res["new_abstraction"] = new
        obs = []
        seen = {}
        tmo = TIMEOUT_MS.get(tier, 10000) * (3 if os.environ.get("VERIF_LONG") else 1)
        vac = None
        n_unknown = 0
        vac_seen = set()
        for i, ob in enumerate(E.obligations):
            k = seen.get(ob["name"], 0)
            seen[ob["name"]] = k + 1
            if k:
                ob = dict(ob, name=f"{ob['name']}#{k}")
            # a unit with two undecided obligations is a lost proof anyway: the remaining ones get the short budget only (keeps a check on a
            # changed tree from spending minutes per obligation in the long fallbacks)
            short = n_unknown >= 2
            r = solve_one(ob, timeout_ms=(3000 if short else tmo), use_cvc5=not short, recheck_cvc5=(tier == "thorough" and not short))
            if r["status"] == "unknown":
                n_unknown += 1
            r["goal_text"] = str(ob["goal"])[:300]
            if r["status"] == "unsat" and vac is None:
                # vacuity guard: the hypotheses of every discharged obligation must be satisfiable (one check per distinct
                # hypothesis set; `unknown` is accepted, a contradictory set makes the whole unit a checker error)
                key = (len(ob["pc"]), ob["pc"][-1].get_id() if ob["pc"] else 0)
                if key not in vac_seen:
                    vac_seen.add(key)
                    if vacuity_check(ob["pc"], timeout_ms=1000) == "unsat":
                        vac = ob["name"]
            if r.get("cvc5_recheck") == "sat":
                res["crash"] = f"solver disagreement on {ob['name']}: z3 unsat, cvc5 sat"
            obs.append(r)
        if vac:
            res["vacuous"] = vac
        res["obligations"] = obs
        res["reached_loops"] = sorted(E.reached)
        res["loop_headers"] = dict(getattr(E, "loop_headers", {}))
        return res
    return runner


def returns(outs):
    return [o for o in outs if o.kind == "return"]


def raises(outs):
    return [o for o in outs if o.kind == "raise"]
