"""pyvc.cex — helpers that turn a counter-model of an obligation into a concrete input for the real function.

A unit may attach `concretize=<callable(ev)>` to an obligation (Engine.oblige(..., concretize=f)); `ev(expr)` evaluates a z3 expression
in the counter-model (with completion). The callable returns a JSON-able dict {"family": ..., ...} that bounded/cex.py knows how to
run against the real code under the repository's interpreter. The driver replays it before reporting: reproduced -> the VIOLATION
line carries the replay file with the concrete input; not reproduced (the counter-model lives in an abstraction, e.g. an opaque
callee) -> the violation is still reported, with `no-failing-input-found`.
"""
import z3

from .se import to_real, to_int, z3bool, Opaque, FV

MAX_N = 40


class TooBig(Exception):
    pass


def ival(ev, e):
    v = ev(to_int(e) if not isinstance(e, int) else z3.IntVal(e))
    return v.as_long()


def bval(ev, e):
    if isinstance(e, bool):
        return e
    return z3.is_true(ev(z3bool(e)))


def rval(ev, e):
    """-> python float (NaN for the NaN flag)"""
    nan, val = to_real(e)
    if z3.is_true(ev(nan)):
        return float("nan")
    v = ev(val)
    if z3.is_rational_value(v):
        return v.numerator_as_long() / v.denominator_as_long()
    if z3.is_algebraic_value(v):
        return float(v.approx(12).as_fraction())
    raise ValueError(f"no numeric value for {v}")


def dim(ev, d, k=0):
    n = ival(ev, d.shape[k])
    if n < 0 or n > MAX_N:
        raise TooBig(n)
    return n


def label(ev, e):
    """an opaque label -> a stable token (the name of its value in the model's universe)"""
    return str(ev(e.sym if isinstance(e, Opaque) else e))


def arr(ev, d):
    """contents of an ArrData as nested python lists (floats with NaN, ints, bools, label tokens)"""
    conv = {"f": rval, "i": ival, "b": bval, "o": label}[d.kind]
    if d.ndim == 1:
        return [conv(ev, d.sel(z3.IntVal(i))) for i in range(dim(ev, d))]
    if d.ndim == 2:
        return [[conv(ev, d.sel(z3.IntVal(i), z3.IntVal(j))) for j in range(dim(ev, d, 1))] for i in range(dim(ev, d, 0))]
    raise ValueError("arr: ndim")


def missing_flags(ev, d, MISSING, ml):
    """for an array of opaque labels: which entries are the sentinel (per the model of MISSING)"""
    f = lambda e: z3.is_true(ev(MISSING(e.sym, ml.sym)))
    if d.ndim == 1:
        return [f(d.sel(z3.IntVal(i))) for i in range(dim(ev, d))]
    return [[f(d.sel(z3.IntVal(i), z3.IntVal(j))) for j in range(dim(ev, d, 1))] for i in range(dim(ev, d, 0))]
