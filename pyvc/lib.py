"""pyvc.lib — assumed contracts of the external libraries (numpy, sklearn helpers, builtins).

Every handler here is part of the *trusted base*: it states what the engine assumes a library
call does. Handlers record their name in engine.used_lib so that the evidence can list exactly
which library contracts a proof rests on.
"""
import ast
import z3

from .se import (ArrData, ListData, ObjData, RngData, RngState, DictData, Ref, Opaque, FV, GlobalName, ModuleVal,
                 FuncVal, BoundMethod, Unsupported, _Raise, fresh, fresh_fn, fresh_sel, mk_fv, to_int, to_real,
                 is_scalar, is_int_like, is_z3, is_concrete, scalar_binop, scalar_compare, ite, kind_of, truth,
                 I, R, B, USort, z3bool, _isbool, unparse, BOTTOM)


def _used(E, name):
    E.used_lib = getattr(E, "used_lib", set())
    E.used_lib.add(name)


def arr_of(v, st):
    if isinstance(v, Ref) and isinstance(st.get(v), ArrData):
        return st.get(v)
    return None


def list_of(v, st):
    if isinstance(v, Ref) and isinstance(st.get(v), ListData):
        return st.get(v)
    return None


_PROBE = z3.Int("mask_probe_index")


ISNONE = z3.Function("ISNONE", USort, z3.BoolSort())     # spec predicate: this opaque label is None


def as_array(v, st):
    """view a value as ArrData (lists become 1-D arrays, scalars 0-D)"""
    a = arr_of(v, st)
    if a is not None:
        return a
    l = list_of(v, st)
    if l is not None:
        return ArrData((l.n,), l.sel, l.kind or "o")
    if is_scalar(v):
        return ArrData((), lambda v=v: v, kind_of(v))
    return None


def elem_binop(op, a, b, st):
    if isinstance(a, Opaque) or isinstance(b, Opaque):
        return Opaque("elem")
    return scalar_binop(op, a, b, st)


class Lib:
    def __init__(self):
        self.functions = {}
        self.contracts = {}
        self.methods = {}
        register_builtins(self)

    def function(self, name):
        if name in self.functions:
            return self.functions[name]
        short = name.split(".")[-1]
        if name.startswith(("np.", "numpy.")) and ("np." + short) in self.functions:
            return self.functions["np." + short]
        if "." not in name:
            return None
        return self.functions.get("*." + short)

    def contract_for(self, target):
        return self.contracts.get(target)

    def fn(self, *names):
        def deco(f):
            for n in names:
                self.functions[n] = f
            return f
        return deco

    # ------------------------------------------------------------------ arrays: elementwise
    def array_binop(self, E, op, l, r, st):
        _used(E, "numpy elementwise arithmetic (broadcast scalar / equal shapes)")
        a, b = as_array(l, st), as_array(r, st)
        if a is None or b is None:
            known = a if a is not None else b
            if known is not None and known.ndim >= 1:
                # array (op) unknown value: an array of the same shape with unknown contents
                return st.alloc(ArrData(known.shape, fresh_sel("opq", known.kind if known.kind != "b" else "f", known.ndim),
                                        known.kind if known.kind != "b" else "f"))
            return Opaque("array-binop")
        if a.kind == "o" or b.kind == "o":
            shape = a.shape if a.ndim >= b.ndim else b.shape
            return st.alloc(ArrData(shape, fresh_sel("opq", "o", len(shape)), "o"))
        shape, fa, fb = _broadcast(a, b)
        kind = "f"
        if a.kind in ("i", "b") and b.kind in ("i", "b") and not isinstance(op, ast.Div):
            kind = "i"
        return st.alloc(ArrData(shape, lambda *i: elem_binop(op, fa(*i), fb(*i), st), kind))

    def array_compare(self, E, op, l, r, st):
        _used(E, "numpy elementwise comparison (NaN compares False)")
        if isinstance(op, (ast.In, ast.NotIn)):
            # scalar in 1-D array: some entry compares equal
            b = as_array(r, st) if isinstance(r, Ref) else None
            if b is None or b.ndim != 1 or not is_scalar(l) or b.kind not in ("i", "b"):
                return Opaque("array-in")
            _used(E, "x in 1-D integer array <=> some entry equals x")
            q = z3.Int("q_in")
            res = z3.Exists([q], z3.And(0 <= q, q < to_int(b.shape[0]), to_int(b.sel(q)) == to_int(l)))
            return res if isinstance(op, ast.In) else z3.Not(res)
        a, b = as_array(l, st), as_array(r, st)
        if isinstance(op, (ast.Eq, ast.NotEq)) and ((a is not None and a.kind == "o" and r is None) or (b is not None and b.kind == "o" and l is None)):
            # array of opaque labels compared with None: elementwise 'the label is None' (assumed: a label compares equal to None iff it is None)
            _used(E, "object array == None: elementwise 'is None' (spec predicate ISNONE on opaque labels)")
            o = a if r is None else b
            neg = isinstance(op, ast.NotEq)

            def f(*i, o=o, neg=neg):
                e = o.sel(*i)
                if not isinstance(e, Opaque):
                    return z3.BoolVal(neg)
                t = ISNONE(e.sym)
                return z3.Not(t) if neg else t
            return st.alloc(ArrData(o.shape, f, "b"))
        if a is None or b is None:
            return Opaque("array-cmp")
        shape, fa, fb = _broadcast(a, b)
        return st.alloc(ArrData(shape, lambda *i: z3bool(scalar_compare(op, fa(*i), fb(*i))), "b"))

    def array_not(self, E, v, st):
        a = arr_of(v, st)
        if a is None or a.kind != "b":
            raise Unsupported("~ on non-boolean array")
        r = ArrData(a.shape, lambda *i: z3.Not(z3bool(a.sel(*i))), "b")
        r.negation_of = a
        return st.alloc(r)

    # ------------------------------------------------------------------ arrays: indexing
    def array_index(self, E, ref, d, sl, st):
        _used(E, "numpy indexing")
        if isinstance(sl, ast.Slice):
            lo = E.eval(sl.lower, st) if sl.lower else 0
            hi = E.eval(sl.upper, st) if sl.upper else d.shape[0]
            if sl.step is not None:
                raise Unsupported("slice with step")
            lo, hi = to_int(lo), to_int(hi)
            n = z3.simplify(hi - lo)
            return st.alloc(ArrData((n,) + d.shape[1:], lambda i, *r: d.sel(i + lo, *r), d.kind))
        if isinstance(sl, ast.Tuple) and d.ndim == 1 and len(sl.elts) == 2 and unparse(sl.elts[1]) in ("np.newaxis", "None", "numpy.newaxis"):
            # a[idx, np.newaxis]: the 1-D selection as a column
            first = sl.elts[0]
            sub = self.array_index(E, ref, d, first, st) if not (isinstance(first, ast.Slice) and first.lower is None and first.upper is None) else ref
            sd = st.get(sub)
            col = ArrData((sd.shape[0], 1), lambda i, j, sd=sd: sd.sel(i), sd.kind)
            if hasattr(sd, "filter_of"):
                col.filter_of = sd.filter_of
            return st.alloc(col)
        if isinstance(sl, ast.Tuple):
            idx = [None if isinstance(x, ast.Slice) and x.lower is None and x.upper is None else x for x in sl.elts]
            if all(x is not None and not isinstance(x, ast.Slice) for x in idx):
                vals = [E.eval(x, st) for x in idx]
                if all(is_scalar(v) for v in vals) and len(vals) == d.ndim:
                    return d.sel(*[to_int(v) for v in vals])
            if d.ndim == 2 and len(idx) == 2 and idx[0] is not None and idx[1] is not None:
                v0, v1 = E.eval(idx[0], st), E.eval(idx[1], st)
                m0 = as_array(v0, st) if isinstance(v0, Ref) else None
                if m0 is not None and m0.kind == "b" and m0.ndim == 1 and is_scalar(v1):
                    # a[mask, j]: the entries of column j at the True positions of mask (order preserving)
                    j1 = to_int(v1)
                    col = ArrData((d.shape[0],), lambda i, j1=j1: d.sel(i, j1), d.kind)
                    r = self.filter(E, col, m0, st)
                    st.get(r).column = j1
                    return r
            if d.ndim == 2 and len(idx) == 2:
                if idx[0] is None and idx[1] is not None:
                    j = E.eval(idx[1], st)
                    if is_scalar(j):
                        j = to_int(j)
                        return st.alloc(ArrData((d.shape[0],), lambda i: d.sel(i, j), d.kind))
                    ja = as_array(j, st) if isinstance(j, Ref) else None
                    if ja is not None and ja.kind == "i" and ja.ndim == 1:
                        # a[:, idx]: column gather
                        r = ArrData((d.shape[0], ja.shape[0]), lambda i, t: d.sel(i, to_int(ja.sel(t))), d.kind)
                        r.col_gather_of = (d, ja)
                        return st.alloc(r)
                if idx[1] is None and idx[0] is not None:
                    i0 = E.eval(idx[0], st)
                    if is_scalar(i0):
                        i0 = to_int(i0)
                        return st.alloc(ArrData((d.shape[1],), lambda j: d.sel(i0, j), d.kind))
                    ia0 = as_array(i0, st) if isinstance(i0, Ref) else None
                    if ia0 is not None and ia0.kind == "i" and ia0.ndim == 1:
                        # a[idx, :]: row gather
                        r = ArrData((ia0.shape[0], d.shape[1]), lambda t, j: d.sel(to_int(ia0.sel(t)), j), d.kind)
                        r.gather_of = (d, ia0)
                        return st.alloc(r)
            raise Unsupported("tuple index " + unparse(sl))
        v = E.eval(sl, st)
        if is_scalar(v) and not _isbool(v):
            i = v
            if isinstance(i, int) and i < 0:
                i = scalar_binop(ast.Add(), d.shape[0], i, st)
            i = to_int(i)
            if d.ndim == 1:
                return d.sel(i)
            return st.alloc(ArrData(d.shape[1:], lambda *r: d.sel(i, *r), d.kind))
        ia = as_array(v, st)
        if ia is not None and ia.kind == "i" and ia.ndim == 1:
            # gather
            g = ArrData((ia.shape[0],) + d.shape[1:], lambda t, *r: d.sel(to_int(ia.sel(t)), *r), d.kind)
            g.gather_of = (d, ia)
            return st.alloc(g)
        if ia is not None and ia.kind == "b" and ia.ndim == 1:
            return self.filter(E, d, ia, st)
        if isinstance(v, Opaque):
            return Opaque("index")
        if isinstance(v, tuple) and all(is_scalar(x) for x in v) and len(v) == d.ndim:
            return d.sel(*[to_int(x) for x in v])
        raise Unsupported("index " + unparse(sl))

    def filter(self, E, d, mask, st):
        """a[mask]: order-preserving filter. pos: result position -> source position (strictly increasing),
        exactly the True positions."""
        _used(E, "numpy boolean-mask filter a[m] (order preserving, length = count of True)")
        n = z3.simplify(to_int(d.shape[0]))
        memo = getattr(mask, "_filter_memo", None)
        if memo is None and mask.ndim == 1:
            # a mask value that is syntactically the same function of the index as an earlier one (e.g. `s > 0` evaluated twice) selects
            # the same positions
            probe = z3.simplify(z3bool(mask.sel(_PROBE)))
            for pr, mm in getattr(self, "_filter_table", []):
                if z3.eq(pr, probe) and z3.eq(mm[0], n):
                    memo = mm
                    mask._filter_memo = mm
                    break
        if memo is not None and z3.eq(memo[0], n):
            # the positions selected by a mask are a function of the mask alone: two filters by the SAME mask value (array values are
            # immutable here, so the same object) share their position function
            _, m, pos, inv, axioms = memo
        else:
            m = fresh("m_len", I)
            pos = fresh_fn("pos", I, I)
            t, u, j = z3.Ints("t u j")
            inv = fresh_fn("inv", I, I)
            A = mask_array(mask.sel)
            axioms = [m >= 0, m <= n,
                      z3.ForAll([t], z3.Implies(z3.And(0 <= t, t < m), z3.And(0 <= pos(t), pos(t) < n, z3bool(mask.sel(pos(t)))))),
                      z3.ForAll([t, u], z3.Implies(z3.And(0 <= t, t < u, u < m), pos(t) < pos(u))),
                      z3.ForAll([j], z3.Implies(z3.And(0 <= j, j < n, z3bool(mask.sel(j))),
                                                z3.And(0 <= inv(j), inv(j) < m, pos(inv(j)) == j))),
                      m == CNT(A, n)]                    # length of a[m] = number of True entries (definition of CNT)
            axioms += list(cnt_lemma_instances(A, n))
            mask._filter_memo = (n, m, pos, inv, axioms)
            if mask.ndim == 1:
                if not hasattr(self, "_filter_table"):
                    self._filter_table = []
                self._filter_table.append((z3.simplify(z3bool(mask.sel(_PROBE))), mask._filter_memo))
        if not any(h is axioms[2] for h in st.pc):
            st.assume(*axioms)
        neg = getattr(mask, "negation_of", None)
        sc = getattr(neg, "scatter", None) if neg is not None else None
        direct = getattr(mask, "scatter", None)          # the complementary mask built directly: all True, False scattered at the positions
        if sc is None and direct is not None and getattr(direct[4], "all_true", False) and direct[3] is False:
            sc = (direct[0], direct[1], direct[2], True, None)
        if sc is not None and mask.ndim == 1:
            ia, _mem, _wit, v, base = sc
            if (base is None or (getattr(base, "all_zero", False) and base.kind == "b")) and v is True:
                # counting lemma (contracts/lemmas.py: complement_count, proved by induction): a mask that is False exactly at k pairwise
                # distinct in-range positions has n - k True entries
                _used(E, "count of the complement of k distinct positions = n - k (lemmas.complement_count)")
                k_ = to_int(ia.shape[0])
                t, u = z3.Ints("cl_t cl_u")
                distinct = z3.ForAll([t, u], z3.Implies(z3.And(0 <= t, t < u, u < k_), to_int(ia.sel(t)) != to_int(ia.sel(u))))
                inrange = z3.ForAll([t], z3.Implies(z3.And(0 <= t, t < k_), z3.And(0 <= to_int(ia.sel(t)), to_int(ia.sel(t)) < n)))
                st.assume(z3.Implies(z3.And(distinct, inrange), m == n - k_))
        res = ArrData((m,) + d.shape[1:], lambda i, *r: d.sel(pos(i), *r), d.kind)
        res.filter_of = (mask, pos, m, inv)
        return st.alloc(res)

    def array_store(self, E, d, sl, v, st, node):
        _used(E, "numpy item assignment")
        v = inf_value(v)
        va = as_array(v, st) if isinstance(v, Ref) else None

        def val_at(*r):
            if va is not None:
                if va.ndim == 0:
                    return va.sel()
                return va.sel(*r[-va.ndim:]) if va.ndim <= len(r) else va.sel(*r)
            return v
        kind = d.kind
        if isinstance(sl, ast.Tuple):
            parts = sl.elts
            if d.ndim == 2 and len(parts) == 2 and isinstance(parts[0], ast.Slice) and (parts[0].lower is not None or parts[0].upper is not None) \
                    and isinstance(parts[1], ast.Slice) and parts[1].lower is None and parts[1].upper is None and parts[1].step is None:
                return self.slice_store(E, d, parts[0], v, va, st, node)          # A[lo:hi, :] = W
            if d.ndim == 2 and len(parts) == 2 and isinstance(parts[0], ast.Slice) and (parts[0].lower is not None or parts[0].upper is not None) \
                    and parts[0].step is None and not isinstance(parts[1], ast.Slice):
                # A[lo:hi, cols] = W  ==  (A[lo:hi])[:, cols] = W on the view of the rows lo..hi-1
                lo = to_int(E.eval(parts[0].lower, st)) if parts[0].lower is not None else z3.IntVal(0)
                hi = to_int(E.eval(parts[0].upper, st)) if parts[0].upper is not None else to_int(d.shape[0])
                view = ArrData((z3.simplify(hi - lo),) + tuple(d.shape[1:]), lambda i, *r: d.sel(i + lo, *r), d.kind)
                inner = ast.Tuple(elts=[ast.Slice(lower=None, upper=None, step=None), parts[1]], ctx=ast.Load())
                nv = self.array_store(E, view, inner, v, st, node)
                return ArrData(d.shape, lambda i, *r: _ite_val(z3.And(lo <= i, i < hi), nv.sel(i - lo, *r), d.sel(i, *r)), nv.kind)
            ev = [None if (isinstance(x, ast.Slice) and x.lower is None and x.upper is None) else E.eval(x, st) for x in parts]
            if len(ev) == d.ndim and all(x is not None and is_scalar(x) for x in ev):
                ii = [to_int(x) for x in ev]
                old = d.sel
                return ArrData(d.shape, lambda *i: _ite_val(z3.And(*[a == b for a, b in zip(i, ii)]), v, old(*i)), kind)
            if d.ndim == 2 and len(ev) == 2 and ev[0] is not None and is_scalar(ev[0]) and ev[1] is not None:
                ia = as_array(ev[1], st)
                if ia is not None and ia.kind == "i":
                    # a[i, idx] = v
                    i0 = to_int(ev[0])
                    mem, wit = membership(E, ia, st)
                    old = d.sel
                    if va is not None and va.ndim == 1:
                        # a[i, idx] = w: w[t] lands in column idx[t] of row i (some occurrence for repeated indices)
                        return ArrData(d.shape, lambda i, j: _ite_val(z3.And(i == i0, mem(j)), va.sel(wit(j)), old(i, j)), kind)
                    if isinstance(v, Ref):
                        raise Unsupported("store " + unparse(node))
                    return ArrData(d.shape, lambda i, j: _ite_val(z3.And(i == i0, mem(j)), v, old(i, j)), kind)
            if d.ndim == 2 and len(ev) == 2 and ev[1] is None and isinstance(ev[0], Ref):
                ma = as_array(ev[0], st)
                if ma is not None and ma.kind == "b" and ma.ndim == 1:
                    # A[mask, :] = row | scalar: every selected row becomes the given row
                    old = d.sel
                    if va is not None and va.ndim == 1:
                        return ArrData(d.shape, lambda i, j: _ite_val(z3bool(ma.sel(i)), va.sel(j), old(i, j)), kind)
                    if va is None and is_scalar(v):
                        return ArrData(d.shape, lambda i, j: _ite_val(z3bool(ma.sel(i)), v, old(i, j)), _join_kind(kind, v))
            if d.ndim == 2 and len(ev) == 2 and ev[0] is None and ev[1] is not None:
                ia = as_array(ev[1], st)
                if ia is not None and ia.kind == "i" and not isinstance(v, Ref):
                    mem, _ = membership(E, ia, st)
                    old = d.sel
                    return ArrData(d.shape, lambda i, j: _ite_val(mem(j), v, old(i, j)), kind)
                if ia is not None and ia.kind == "i" and ia.ndim == 1 and va is not None and va.ndim == 2:
                    # a[:, idx] = M: column t of M lands in column idx[t] (some occurrence for repeated indices)
                    mem, wit = membership(E, ia, st)
                    old = d.sel
                    return ArrData(d.shape, lambda i, j: _ite_val(mem(j), va.sel(i, wit(j)), old(i, j)), kind)
            raise Unsupported("store " + unparse(node))
        if isinstance(sl, ast.Slice):
            if sl.lower is None and sl.upper is None:
                return ArrData(d.shape, lambda *i: val_at(*i), kind)
            return self.slice_store(E, d, sl, v, va, st, node)
        idx = E.eval(sl, st)
        if is_scalar(idx) and not _isbool(idx):
            i0 = to_int(idx)
            old = d.sel
            if d.ndim == 1:
                if isinstance(v, Ref):
                    if va is not None and va.ndim == 1:
                        # a[i] = [x]  (length-1 array into scalar slot)
                        return ArrData(d.shape, lambda i: _ite_val(i == i0, va.sel(z3.IntVal(0)), old(i)), kind)
                    raise Unsupported("store array into 1-D slot")
                return ArrData(d.shape, lambda i: _ite_val(i == i0, v, old(i)), _join_kind(kind, v))
            # row assignment a[i] = row
            return ArrData(d.shape, lambda i, *r: _ite_val(i == i0, val_at(*r), old(i, *r)), kind)
        if isinstance(idx, tuple) and all(is_scalar(x) for x in idx) and len(idx) == d.ndim:
            ii = [to_int(x) for x in idx]
            old = d.sel
            return ArrData(d.shape, lambda *i: _ite_val(z3.And(*[a == b for a, b in zip(i, ii)]), v, old(*i)), _join_kind(kind, v))
        if isinstance(idx, IxTuple) and len(idx) == 2 and d.ndim == 2:
            # a[np.ix_(r, c)] = M: M[s, t] lands at (r[s], c[t]) (some occurrence for repeated indices)
            ra, ca = as_array(idx[0], st), as_array(idx[1], st)
            if ra is None or ca is None or ra.kind != "i" or ca.kind != "i":
                raise Unsupported("np.ix_ store")
            memr, witr = membership(E, ra, st)
            memc, witc = membership(E, ca, st)
            old = d.sel
            if va is not None and va.ndim == 2:
                return ArrData(d.shape, lambda i, j: _ite_val(z3.And(memr(i), memc(j)), va.sel(witr(i), witc(j)), old(i, j)), kind)
            if va is None and is_scalar(v):
                return ArrData(d.shape, lambda i, j: _ite_val(z3.And(memr(i), memc(j)), v, old(i, j)), _join_kind(kind, v))
            raise Unsupported("np.ix_ store of " + repr(v))
        ia = as_array(idx, st)
        if ia is not None and ia.ndim == 1 and isinstance(ia.shape[0], int) and ia.shape[0] == 0:
            return d      # empty index list: nothing stored
        if ia is not None and ia.kind == "i" and ia.ndim == 1:
            # scatter a[idx] = scalar | a[idx] = w  (last write wins; with distinct idx: w[wit])
            mem, wit = membership(E, ia, st)
            old = d.sel
            if va is not None and va.ndim >= 1:
                res = ArrData(d.shape, lambda j, *r: _ite_val(mem(j), va.sel(wit(j), *r), old(j, *r)), kind)
            else:
                res = ArrData(d.shape, lambda j, *r: _ite_val(mem(j), v, old(j, *r)), _join_kind(kind, v))
            res.scatter = (ia, mem, wit, v, d)
            return res
        if ia is not None and ia.kind == "b":
            old = d.sel
            if va is not None and va.ndim == 1 and ia.ndim == 1 and d.ndim == 1:
                # a[mask] = w: w[t] lands at the t-th True position of mask (positions = those of the filter by this mask value)
                self.filter(E, ArrData(ia.shape, lambda i: i, "i"), ia, st)      # creates / re-assumes the position functions of this mask
                _, m_, pos_, inv_, _ = ia._filter_memo
                st.assume(m_ == to_int(va.shape[0]))                               # numpy raises on a length mismatch
                return ArrData(d.shape, lambda i: _ite_val(z3bool(ia.sel(i)), va.sel(inv_(i)), old(i)), kind)
            if va is not None and va.ndim == 2 and ia.ndim == 1 and d.ndim == 2:
                # A[mask] = W (rows): row t of W lands at the t-th True position of mask
                self.filter(E, ArrData(ia.shape, lambda i: i, "i"), ia, st)
                _, m_, pos_, inv_, _ = ia._filter_memo
                st.assume(m_ == to_int(va.shape[0]))
                return ArrData(d.shape, lambda i, j: _ite_val(z3bool(ia.sel(i)), va.sel(inv_(i), j), old(i, j)), kind)
            if va is not None and va.ndim >= 1:
                raise Unsupported("mask store of array")
            return ArrData(d.shape, lambda *i: _ite_val(z3bool(ia.sel(*i[:ia.ndim])), v, old(*i)), _join_kind(kind, v))
        if isinstance(idx, Opaque):
            return ArrData(d.shape, fresh_sel("st", d.kind, d.ndim), d.kind)
        raise Unsupported("store " + unparse(node))

    def slice_store(self, E, d, sl, v, va, st, node):
        """a[lo:hi] = w (first axis, no step): entry lo + t becomes w[t]; a scalar is broadcast. numpy raises on a length mismatch."""
        if sl.step is not None:
            raise Unsupported("slice store with step")
        lo = to_int(E.eval(sl.lower, st)) if sl.lower is not None else z3.IntVal(0)
        hi = to_int(E.eval(sl.upper, st)) if sl.upper is not None else to_int(d.shape[0])
        old = d.sel
        inside = lambda i: z3.And(lo <= i, i < hi)
        if va is not None and va.ndim == d.ndim:
            st.assume(z3.Implies(z3.And(0 <= lo, lo <= hi, hi <= to_int(d.shape[0])), to_int(va.shape[0]) == hi - lo))
            return ArrData(d.shape, lambda i, *r: _ite_val(inside(i), va.sel(i - lo, *r), old(i, *r)), d.kind)
        if va is None and is_scalar(v):
            return ArrData(d.shape, lambda i, *r: _ite_val(inside(i), v, old(i, *r)), _join_kind(d.kind, v))
        raise Unsupported("slice store of " + repr(v))

    # ------------------------------------------------------------------ comprehension
    def comprehension(self, E, e, st):
        if len(e.generators) != 1 or e.generators[0].ifs:
            raise Unsupported("comprehension shape")
        g = e.generators[0]
        saved = getattr(E, "_cur_for", None)
        fake = ast.For(target=g.target, iter=g.iter, body=[], orelse=[])
        E._cur_for = fake
        it = E.iter_spec(g.iter, st)
        E._cur_for = saved
        n = it["n"]
        if isinstance(n, int) and n <= 4:
            vals = []
            for k in range(n):
                it["bind"](st, k)
                vals.append(E.eval(e.elt, st))
            kinds = {kind_of(v) for v in vals}
            return st.alloc(ListData(len(vals), lambda j, vals=tuple(vals): _select(vals, j), kinds.pop() if len(kinds) == 1 else "o"))
        # symbolic length: element function by evaluating the element expression at a symbolic index
        if not all(not isinstance(x, ast.Call) or True for x in ast.walk(e.elt)):
            raise Unsupported("comprehension")
        env0 = dict(st.env)

        def sel(j):
            st2 = st.fork()
            st2.env = dict(env0)
            it["bind"](st2, j)
            return E.eval(e.elt, st2)
        probe = sel(fresh("jc", I))
        return st.alloc(ListData(n, sel, kind_of(probe)))

    # ------------------------------------------------------------------ methods on non-object receivers
    def method(self, E, recv, name, args, kwargs, st, node):
        if isinstance(recv, Opaque):
            if name in ("get_state",):
                return Opaque("state")
            return E.unknown_call(f"{recv.tag}.{name}", [recv] + list(args), kwargs, st, node)
        if isinstance(recv, str):
            if name == "format":
                return "<str>"
            raise Unsupported("str method " + name)
        if isinstance(recv, Ref):
            d = st.get(recv)
            if isinstance(d, ListData):
                return self.list_method(E, recv, d, name, args, kwargs, st)
            if isinstance(d, ArrData):
                return self.arr_method(E, recv, d, name, args, kwargs, st, node)
            if isinstance(d, RngData):
                return self.rng_method(E, recv, d, name, args, kwargs, st)
            if isinstance(d, DictData):
                if name == "get" and isinstance(args[0], str):
                    if args[0] in d.items:
                        return d.items[args[0]]
                    if not d.open:
                        return args[1] if len(args) > 1 else None
                if name == "keys":
                    return tuple(d.items.keys())
                if name == "copy":
                    return st.alloc(DictData(d.items, d.open))
                raise Unsupported("dict method " + name)
        return E.unknown_call(f"?.{name}", [recv] + args if isinstance(recv, Ref) else args, kwargs, st, node)

    def list_method(self, E, ref, d, name, args, kwargs, st):
        _used(E, "python list (append/extend/len/index)")
        if name == "append":
            v = args[0]
            old, n = d.sel, d.n
            nn = to_int(n)
            k = d.kind or kind_of(v)
            if k == "o" or not is_scalar(v):
                if isinstance(n, int):
                    st.put(ref, ListData(n + 1, lambda j, old=old, n=n, v=v: v if _is_const_eq(j, n) else old(j), "o"))
                    return None
                raise Unsupported("append of object to symbolic list")
            st.put(ref, ListData(z3.simplify(nn + 1), lambda j, old=old, nn=nn, v=v: ite(j == nn, v, old(j)), k))
            return None
        if name == "copy":
            return st.alloc(ListData(d.n, d.sel, d.kind))
        raise Unsupported("list method " + name)

    def arr_method(self, E, ref, d, name, args, kwargs, st, node):
        _used(E, "numpy ndarray method " + name)
        if name == "copy":
            return st.alloc(ArrData(d.shape, d.sel, d.kind))
        if name == "flatten" and d.ndim == 1:
            return st.alloc(ArrData(d.shape, d.sel, d.kind))
        if name == "flatten" and d.ndim == 2 and _is_one(d.shape[1]):
            return st.alloc(ArrData((d.shape[0],), lambda i: d.sel(i, z3.IntVal(0)), d.kind))
        if name == "astype":
            return st.alloc(ArrData(d.shape, d.sel, d.kind))
        if name in ("sum", "any", "all", "max", "min"):
            f = self.function("np." + name)
            if f is not None:
                return f(E, st, [ref] + args, kwargs, node)
        if name == "reshape" and d.ndim == 1 and len(args) == 1 and (args[0] == -1 or args[0] == (-1,)):
            return st.alloc(ArrData(d.shape, d.sel, d.kind))
        if name == "reshape" and d.ndim == 1 and len(args) == 2 and args[0] == -1 and args[1] == 1:
            return st.alloc(ArrData((d.shape[0], 1), lambda i, j: d.sel(i), d.kind))
        if name in ("ravel", "flatten") and d.ndim == 1:
            return st.alloc(ArrData(d.shape, d.sel, d.kind))
        if name in ("sort", "fill", "resize", "put", "itemset", "partition", "setflags", "byteswap", "setfield"):
            return E.unknown_call("ndarray." + name, [ref] + args, kwargs, st, node)       # in-place methods: contents unknown afterwards
        r = Opaque("call:ndarray." + name)                                                 # other ndarray methods do not modify the array
        st.events.append(("call", "ndarray." + name, [ref] + list(args), kwargs, r, {ref.id: d}))
        E.abstracted.add("ndarray." + name + " (pure, result unknown)")
        return r

    def rng_method(self, E, ref, d, name, args, kwargs, st):
        _used(E, "RandomState model (uniform stream with position; get_state/set_state)")
        stream = d.stream
        if getattr(self, "quantified_stream_bounds", False) and name in ("random_sample", "random", "rand"):
            x = z3.Int("sx")
            lo_open = getattr(self, "open_unit_interval", False)
            st.assume(z3.ForAll([x], z3.And(stream(x) > 0 if lo_open else stream(x) >= 0, stream(x) < 1)))
        if name in ("random_sample", "random", "rand", "uniform") and name != "uniform":
            size = args[0] if args else kwargs.get("size")
            if size is None:
                r = stream(d.pos)
                st.assume(r >= 0, r < 1)
                st.put(ref, RngData(stream, z3.simplify(d.pos + 1), d.aux))
                st.events.append(("draw", ref.id, d.pos, 1))
                return r
            if isinstance(size, tuple):
                if len(size) == 1:
                    size = size[0]
                elif len(size) == 2:
                    n0, n1 = to_int(size[0]), to_int(size[1])
                    pos = d.pos
                    st.put(ref, RngData(stream, z3.simplify(pos + n0 * n1), d.aux))
                    st.events.append(("draw", ref.id, pos, n0 * n1))
                    lo_open = getattr(self, "open_unit_interval", False)

                    def sel2(i, j2, pos=pos):
                        r = stream(pos + i * n1 + j2)
                        E.axiom(z3.And(r > 0 if lo_open else r >= 0, r < 1))
                        return r
                    return st.alloc(ArrData((n0, n1), sel2, "f"))
                else:
                    raise Unsupported("rng draw of nd shape")
            n = to_int(size)
            pos = d.pos
            st.put(ref, RngData(stream, z3.simplify(pos + n), d.aux))
            st.events.append(("draw", ref.id, pos, n))

            lo_open = getattr(self, "open_unit_interval", False)

            def sel(i, pos=pos):
                r = stream(pos + i)
                E.axiom(z3.And(r > 0 if lo_open else r >= 0, r < 1))     # instance of: every uniform draw lies in [0,1)
                return r
            return st.alloc(ArrData((n,), sel, "f"))
        if name == "choice" and "a" in kwargs and not args:
            args = [kwargs["a"]]
            kwargs = {k_: v_ for k_, v_ in kwargs.items() if k_ != "a"}
        src_arr = as_array(args[0], st) if name == "choice" and args and isinstance(args[0], Ref) else None
        if name == "choice" and kwargs.get("replace", args[2] if len(args) > 2 else True) is False and args and \
                (is_int_like(args[0]) or (src_arr is not None and src_arr.ndim == 1 and src_arr.kind == "i")):
            # RandomState.choice(n, size=k, p=p, replace=False): k pairwise distinct positions in [0,n), each with p > 0
            # (numpy raises if fewer than k entries of p are non-zero: that path ends the call)
            n = to_int(args[0]) if src_arr is None else to_int(src_arr.shape[0])
            size = kwargs.get("size", args[1] if len(args) > 1 else None)
            pa = kwargs.get("p", args[3] if len(args) > 3 else None)
            if size is not None and is_int_like(size):
                k = to_int(size)
                f = fresh_fn("choice", I, I)
                t, u = z3.Ints("ct cu")
                st.assume(z3.ForAll([t], z3.Implies(z3.And(0 <= t, t < k), z3.And(0 <= f(t), f(t) < n))))
                st.assume(z3.ForAll([t, u], z3.Implies(z3.And(0 <= t, t < u, u < k), f(t) != f(u))))
                parr = as_array(pa, st) if isinstance(pa, Ref) else None
                if parr is not None:
                    pv = to_real(parr.sel(f(t)))
                    st.assume(z3.ForAll([t], z3.Implies(z3.And(0 <= t, t < k), z3.And(z3.Not(pv[0]), pv[1] > 0))))
                adv = fresh("adv", I)
                st.assume(adv >= 0)
                st.put(ref, RngData(stream, d.pos + adv, d.aux + 1))
                st.events.append(("draw-other", ref.id, name))
                st.assume(k <= n)                 # numpy raises 'Cannot take a larger sample than population' otherwise
                if src_arr is not None:
                    res = ArrData((k,), lambda i: src_arr.sel(f(i)), "i")      # choice(a=array): the entries at k distinct positions
                else:
                    res = ArrData((k,), lambda i: f(i), "i")
                res.choice_of = (src_arr, n, k, f)
                rr = st.alloc(res)
                st.events.append(("choice", ref.id, rr, n, k))
                return rr
        if name in ("normal", "randn", "standard_normal", "randint", "choice", "permutation", "shuffle", "multinomial", "dirichlet", "beta", "uniform"):
            adv = fresh("adv", I)
            st.assume(adv >= 1)
            st.put(ref, RngData(stream, d.pos + adv, d.aux + 1))
            st.events.append(("draw-other", ref.id, name))
            size = kwargs.get("size", args[2] if name == "normal" and len(args) > 2 else None)
            if name == "normal" and size is None:
                return fresh("normal", R)
            return Opaque("rng." + name)
        if name == "get_state":
            return RngState(stream, d.pos, d.aux)
        if name == "set_state":
            s = args[0]
            if isinstance(s, RngState):
                st.put(ref, RngData(s.stream, s.pos, s.aux))
                return None
            st.put(ref, RngData(fresh_fn("stream", I, R), fresh("pos", I), fresh("aux", I)))
            return None
        raise Unsupported("RandomState." + name)


def _nested_list(d, st):
    """[[a, b], [c, d]] -> 2-D array (concrete small shapes only)"""
    if d.kind != "o" or not isinstance(d.n, int) or d.n == 0 or d.n > 4:
        return None
    rows = []
    for i in range(d.n):
        r = d.sel(i)
        if not (isinstance(r, Ref) and isinstance(st.get(r), ListData)):
            return None
        rd = st.get(r)
        if not isinstance(rd.n, int) or rd.kind not in ("i", "f", "b"):
            return None
        rows.append(rd)
    m = rows[0].n
    if any(r.n != m for r in rows):
        return None
    kind = "f" if any(r.kind == "f" for r in rows) else rows[0].kind

    def sel(i, j, rows=tuple(rows)):
        out = rows[-1].sel(j)
        for t in range(len(rows) - 2, -1, -1):
            out = _ite_val(i == t, rows[t].sel(j), out)
        return out
    return ArrData((d.n, m), sel, kind)


def truth_const(v):
    return v is True


def _is_const_eq(j, n):
    if isinstance(j, int):
        return j == n
    j = z3.simplify(j)
    return z3.is_int_value(j) and j.as_long() == n


def _is_one(x):
    if isinstance(x, int):
        return x == 1
    x = z3.simplify(x)
    return z3.is_int_value(x) and x.as_long() == 1


def _join_kind(kind, v):
    k = kind_of(v)
    if kind == k or kind == "f" and k in ("i", "b", "f"):
        return kind
    if kind == "i" and k == "b":
        return "i"
    if kind == "b" and k == "b":
        return "b"
    if k == "f":
        return "f"
    return kind


def forall_trig(vs, body, *cands):
    """ForAll with alternative triggers: each candidate that is an uninterpreted application mentioning every bound variable becomes
    one pattern (any of them fires the instantiation); falls back to z3's own choice when none qualifies"""
    def mentions(term, v):
        stack, seen = [term], set()
        while stack:
            x = stack.pop()
            if x.get_id() in seen:
                continue
            seen.add(x.get_id())
            if x.eq(v):
                return True
            stack.extend(x.children())
        return False
    pats = []
    for c in cands:
        if is_z3(c) and z3.is_app(c) and c.decl().kind() == z3.Z3_OP_UNINTERPRETED and c.num_args() > 0 and all(mentions(c, v) for v in vs):
            if not any(c.eq(p_) for p_ in pats):
                pats.append(c)
    if not pats:
        return z3.ForAll(vs, body)
    return z3.ForAll(vs, body, patterns=pats)


POS_INF = z3.Real("+inf")     # infinite floats are opaque real constants: stored, copied and compared for identity only; any
NEG_INF = z3.Real("-inf")     # arithmetic on them is outside the model (documented assumption 'machine floats as reals')


def inf_value(v):
    """GlobalName np.inf / -np.inf -> a float value; anything else unchanged"""
    if isinstance(v, GlobalName) and v.name in ("np.inf", "-np.inf", "numpy.inf", "-numpy.inf"):
        return mk_fv(z3.BoolVal(False), NEG_INF if v.name.startswith("-") else POS_INF)
    return v


class IxTuple(tuple):
    """value of np.ix_(rows, cols): an open mesh used only as a subscript"""


def _ite_val(c, a, b):
    if isinstance(a, Opaque) and isinstance(b, Opaque):
        cc = z3.BoolVal(c) if isinstance(c, bool) else c
        return Opaque("ite", z3.If(cc, a.sym, b.sym))
    if isinstance(a, Opaque) or isinstance(b, Opaque):
        return Opaque("ite")
    return ite(z3.simplify(c) if is_z3(c) else c, a, b)


def _select(vals, j):
    if isinstance(j, int):
        return vals[j]
    r = vals[-1]
    for i in range(len(vals) - 2, -1, -1):
        r = _ite_val(j == i, vals[i], r)
    return r


def _broadcast(a, b):
    if a.ndim == b.ndim:
        one_a = [_is_one(x) for x in a.shape]
        one_b = [_is_one(x) for x in b.shape]
        if any(one_a) or any(one_b):
            shape = tuple(y if oa and not ob else x for x, y, oa, ob in zip(a.shape, b.shape, one_a, one_b))
            fa = (lambda *i: a.sel(*[z3.IntVal(0) if o else t for t, o in zip(i, one_a)]))
            fb = (lambda *i: b.sel(*[z3.IntVal(0) if o else t for t, o in zip(i, one_b)]))
            return shape, fa, fb
        return a.shape, a.sel, b.sel
    if a.ndim == 0:
        return b.shape, (lambda *i: a.sel()), b.sel
    if b.ndim == 0:
        return a.shape, a.sel, (lambda *i: b.sel())
    if a.ndim == 2 and b.ndim == 1:
        return a.shape, a.sel, (lambda i, j: b.sel(j))
    if a.ndim == 1 and b.ndim == 2:
        return b.shape, (lambda i, j: a.sel(j)), b.sel
    raise Unsupported("broadcast")


def membership(E, ia, st):
    """mem(j) <=> j occurs in the index array ia; wit(j) = a position where it occurs"""
    key = id(ia)
    cache = st.__dict__.setdefault("_memcache", {})
    if key in cache:
        return cache[key]
    n0 = ia.shape[0]
    if is_z3(n0) and z3.is_int_value(z3.simplify(n0)):
        n0 = z3.simplify(n0).as_long()
    if isinstance(n0, int) and n0 <= 4:
        # short concrete index list: quantifier-free definition
        elems = [to_int(ia.sel(z3.IntVal(i))) for i in range(n0)]

        def mem(j, elems=elems):
            return z3.Or(*[j == e for e in elems]) if elems else z3.BoolVal(False)

        def wit(j, elems=elems):
            r = z3.IntVal(0)
            for i in range(len(elems) - 1, -1, -1):
                r = z3.If(j == elems[i], z3.IntVal(i), r)
            return r
        cache[key] = (mem, wit)
        return mem, wit
    try:
        ident = z3.eq(z3.simplify(to_int(ia.sel(_PROBE))), _PROBE)
    except Exception:
        ident = False
    if ident:
        # the index array is arange(n): membership and witness in closed form
        nn = to_int(ia.shape[0])
        cache[key] = ((lambda j, nn=nn: z3.And(0 <= j, j < nn)), (lambda j: j))
        return cache[key]
    mem = fresh_fn("mem", I, B)
    wit = fresh_fn("wit", I, I)
    t, j = z3.Ints("t j")
    n = to_int(ia.shape[0])
    st.assume(z3.ForAll([t], z3.Implies(z3.And(0 <= t, t < n), mem(to_int(ia.sel(t))))))
    st.assume(z3.ForAll([j], z3.Implies(mem(j), z3.And(0 <= wit(j), wit(j) < n, to_int(ia.sel(wit(j))) == j))))
    cache[key] = (mem, wit)
    return mem, wit


# ------------------------------------------------------------------------------ builtins / numpy functions
def register_builtins(L):
    fn = L.fn

    @fn("len")
    def _len(E, st, args, kw, node):
        v = args[0]
        if isinstance(v, (tuple, str)):
            return len(v)
        if isinstance(v, Ref):
            d = st.get(v)
            if isinstance(d, ListData):
                return d.n
            if isinstance(d, ArrData):
                if d.ndim == 0:
                    raise _Raise("TypeError", st)
                return d.shape[0]
            if isinstance(d, DictData) and not d.open:
                return len(d.items)
        if isinstance(v, Opaque):
            n = fresh("len", I)
            st.assume(n >= 0)
            key = "len:" + str(v.sym)
            n = z3.Int(key)
            st.assume(n >= 0)
            return n
        raise Unsupported(f"len of {v!r}")

    @fn("isinstance")
    def _isinstance(E, st, args, kw, node):
        v, t = args
        tn = _typenames(t)
        if tn is None:
            return Opaque("isinstance")
        if isinstance(v, Ref):
            d = st.get(v)
            if isinstance(d, ArrData):
                return any(x in ("np.ndarray", "ndarray") for x in tn)
            if isinstance(d, ListData):
                return "list" in tn
            if isinstance(d, DictData):
                return "dict" in tn
            if isinstance(d, RngData):
                return any("RandomState" in x for x in tn)
            if isinstance(d, ObjData):
                return any(E.repo.has_cls(d.cls) and x in E.repo.mro(d.cls) for x in tn) or d.cls in tn \
                    or any(x in d.fields.get("__isinstance__", ()) for x in tn)      # stand-in objects declare their base classes
        if isinstance(v, bool) or (is_z3(v) and z3.is_bool(v)):
            return "bool" in tn or "int" in tn
        if isinstance(v, int) or (is_z3(v) and z3.is_int(v)):
            return "int" in tn or "np.integer" in tn and False
        if isinstance(v, float) or isinstance(v, FV) or (is_z3(v) and z3.is_real(v)):
            return "float" in tn
        if isinstance(v, str):
            return "str" in tn
        if v is None:
            return False
        if isinstance(v, tuple):
            return "tuple" in tn
        return Opaque("isinstance")

    @fn("hasattr")
    def _hasattr(E, st, args, kw, node):
        v, a = args
        if isinstance(v, Ref) and isinstance(st.get(v), ObjData) and isinstance(a, str):
            od = st.get(v)
            if a in od.fields:
                return True
            if "__hasattr__" + a in od.fields:
                return od.fields["__hasattr__" + a]        # stand-in objects may leave the presence of a method open (a symbolic Boolean)
            if E.repo.has_cls(od.cls) and E.repo.resolve_method(od.cls, a)[1] is not None:
                return True
            if od.fields.get("__open__"):
                return Opaque("hasattr")
            return False
        return Opaque("hasattr")

    @fn("min", "max")
    def _minmax(E, st, args, kw, node):
        name = node.func.id
        if len(args) == 2 and all(is_scalar(a) for a in args):
            a, b = args
            c = scalar_compare(ast.LtE(), a, b)
            return ite(c, a, b) if name == "min" else ite(c, b, a)
        if len(args) == 1 and isinstance(args[0], tuple) and all(isinstance(x, int) for x in args[0]):
            return min(args[0]) if name == "min" else max(args[0])
        return E.unknown_call(name, args, kw, st, node)

    @fn("int", "float", "bool")
    def _conv(E, st, args, kw, node):
        v = args[0]
        if is_concrete(v):
            return {"int": int, "float": float, "bool": bool}[node.func.id](v)
        if node.func.id == "bool":
            return truth(v)
        if node.func.id == "int" and is_int_like(v):
            return to_int(v)
        if node.func.id == "float" and is_scalar(v):
            n, r = to_real(v)
            return mk_fv(n, r)
        return E.unknown_call(node.func.id, args, kw, st, node)

    @fn("tuple")
    def _tuple(E, st, args, kw, node):
        v = args[0]
        if isinstance(v, tuple):
            return v
        a = as_array(v, st) if isinstance(v, Ref) else None
        if a is not None and a.ndim == 1:
            n = a.shape[0]
            if isinstance(n, int) or z3.is_int_value(z3.simplify(to_int(n))):
                nn = n if isinstance(n, int) else z3.simplify(to_int(n)).as_long()
                return tuple(a.sel(z3.IntVal(i)) for i in range(nn))
        raise Unsupported("tuple() of symbolic length")

    @fn("list")
    def _list(E, st, args, kw, node):
        if not args:
            return st.alloc(ListData(0, lambda j: BOTTOM, None))
        v = args[0]
        a = as_array(v, st) if isinstance(v, Ref) else None
        if a is not None and a.ndim == 1:
            return st.alloc(ListData(a.shape[0], a.sel, a.kind))
        if isinstance(v, tuple):
            return st.alloc(ListData(len(v), lambda j, v=v: _select(v, j), None))
        raise Unsupported("list()")

    @fn("copy", "deepcopy", "copy.copy", "copy.deepcopy")
    def _copy(E, st, args, kw, node):
        _used(E, "copy/deepcopy: fresh object with equal contents")
        v = args[0]
        if isinstance(v, Ref):
            d = st.get(v)
            if isinstance(d, ArrData):
                return st.alloc(ArrData(d.shape, d.sel, d.kind))
            if isinstance(d, ListData):
                return st.alloc(ListData(d.n, d.sel, d.kind))
            if isinstance(d, RngData):
                return st.alloc(RngData(d.stream, d.pos, d.aux))
            if isinstance(d, DictData):
                return st.alloc(DictData(d.items, d.open))
            if isinstance(d, ObjData):
                return st.alloc(ObjData(d.cls, d.fields))
        if is_scalar(v) or is_concrete(v):
            return v
        return Opaque("copy")

    @fn("dict")
    def _dict(E, st, args, kw, node):
        if not args:
            return st.alloc(DictData(dict(kw)))
        v = args[0]
        if isinstance(v, Ref) and isinstance(st.get(v), DictData):
            d = st.get(v)
            items = dict(d.items)
            items.update(kw)
            return st.alloc(DictData(items, d.open))
        return Opaque("dict")

    @fn("warnings.warn", "warn")
    def _warn(E, st, args, kw, node):
        E.dropped.add("warnings.warn")
        return None

    @fn("print")
    def _print(E, st, args, kw, node):
        return None

    @fn("range")
    def _range(E, st, args, kw, node):
        if len(args) == 1 and isinstance(args[0], int):
            return tuple(range(args[0]))
        if len(args) == 1:
            n = to_int(args[0])
            return st.alloc(ArrData((z3.If(n >= 0, n, 0),), lambda i: i, "i"))
        raise Unsupported("range value")

    @fn("check_scalar")
    def _check_scalar(E, st, args, kw, node):
        """skactiveml.utils.check_scalar: raises unless type and bounds hold, returns None."""
        _used(E, "check_scalar (raises TypeError/ValueError unless type and range hold)")
        names = ["x", "name", "target_type", "min_inclusive", "max_inclusive", "min_val", "max_val"]
        a = dict(zip(names, args))
        a.update(kw)
        x = a["x"]
        tt = _typenames(a.get("target_type"))
        conds = []
        if tt is not None:
            ok = None
            if isinstance(x, bool) or (is_z3(x) and z3.is_bool(x)):
                ok = "bool" in tt or "int" in tt
            elif isinstance(x, int) or (is_z3(x) and z3.is_int(x)):
                ok = "int" in tt
            elif isinstance(x, (float, FV)) or (is_z3(x) and z3.is_real(x)):
                ok = "float" in tt
            elif isinstance(x, (str, tuple)) or x is None or isinstance(x, Ref):
                ok = False
            if ok is False:
                raise _Raise("TypeError", st)
        if isinstance(x, Opaque):
            return None
        mi, ma = a.get("min_inclusive", True), a.get("max_inclusive", True)
        if a.get("min_val") is not None:
            conds.append(scalar_compare(ast.GtE() if mi else ast.Gt(), x, a["min_val"]))
        if a.get("max_val") is not None:
            conds.append(scalar_compare(ast.LtE() if ma else ast.Lt(), x, a["max_val"]))
        for c in conds:
            if isinstance(c, bool):
                if not c:
                    raise _Raise("ValueError", st)
            else:
                bad = st.fork()
                bad.pc.append(z3.Not(c))
                st.pc.append(c)   # normal continuation; the raising alternative is dropped (partial correctness)
                st.notes.append("check_scalar: raising branch cut")
        return None

    @fn("check_type", "check_classes", "check_consistent_length", "_check_callable", "check_equal_missing_label",
        "check_class_prior", "check_cost_matrix", "check_budget_manager_type")
    def _check_noop(E, st, args, kw, node):
        _used(E, f"{unparse(node.func)} (validation only: raises or returns None)")
        return None

    # ---- numpy constructors
    @fn("np.array", "np.asarray", "np.copy", "np.asanyarray", "np.ascontiguousarray")
    def _np_array(E, st, args, kw, node):
        _used(E, "np.array/asarray (equal contents; np.array and np.copy return a fresh object)")
        v = args[0]
        name = unparse(node.func).split(".")[-1]
        if isinstance(v, Ref):
            d = st.get(v)
            if isinstance(d, ArrData):
                if name in ("asarray", "asanyarray", "ascontiguousarray") and "dtype" not in kw:
                    return v
                return st.alloc(ArrData(d.shape, d.sel, _dtype_kind(kw.get("dtype"), d.kind)))
            if isinstance(d, ListData):
                nested = _nested_list(d, st)
                if nested is not None:
                    return st.alloc(nested)
                if d.kind is None and not (isinstance(d.n, int) and d.n == 0):
                    return st.alloc(ArrData((d.n,), fresh_sel("lst", "o"), "o"))
                return st.alloc(ArrData((d.n,), d.sel, _dtype_kind(kw.get("dtype"), d.kind or "f")))
        if is_scalar(v):
            return st.alloc(ArrData((), lambda v=v: v, kind_of(v)))
        if isinstance(v, Opaque):
            return v          # equal contents: the opaque value itself (provenance is kept)
        raise Unsupported("np.array of " + repr(v))

    @fn("check_array", "column_or_1d", "check_X_y")
    def _check_array(E, st, args, kw, node):
        """sklearn.utils.check_array: validated array with equal contents; MAY be the same object (alias)"""
        _used(E, "sklearn check_array/column_or_1d (equal contents; may return the same object; raises on invalid input)")
        v = args[0] if args else kw.get("array", kw.get("X"))
        if isinstance(v, Ref) and isinstance(st.get(v), ArrData):
            if truth_const(kw.get("copy")):
                d = st.get(v)
                return st.alloc(ArrData(d.shape, d.sel, d.kind))
            return v
        if isinstance(v, Ref) and isinstance(st.get(v), ListData):
            d = st.get(v)
            if d.kind in ("f", "i", "b"):
                return st.alloc(ArrData((d.n,), d.sel, d.kind))
        return Opaque("check_array")

    @fn("np.zeros", "np.ones", "np.empty", "np.full", "np.zeros_like", "np.ones_like", "np.full_like", "np.empty_like")
    def _np_fill(E, st, args, kw, node):
        _used(E, "np.zeros/ones/full/empty (empty: contents unconstrained)")
        name = unparse(node.func).split(".")[-1]
        shape = args[0] if args else kw.get("shape")
        like_kind = None
        if name.endswith("_like"):
            a = as_array(shape, st) if isinstance(shape, Ref) else None
            if a is None:
                return Opaque(name)
            shape = a.shape
            like_kind = a.kind        # *_like inherits the dtype of the template unless dtype= is given
        if getattr(L, "list_shapes", False) and isinstance(shape, Ref) and isinstance(st.get(shape), ListData) and isinstance(st.get(shape).n, int) \
                and st.get(shape).n <= 3:
            ld = st.get(shape)
            shape = tuple(ld.sel(k_) for k_ in range(ld.n))        # np.full([n, m], v): a list works as a shape (opt-in per unit library)
        if not isinstance(shape, tuple):
            shape = (shape,)
        if any(not (is_int_like(s)) for s in shape):
            return Opaque(name)
        shape = tuple(s if isinstance(s, int) else to_int(s) for s in shape)
        dt = kw.get("dtype")
        base = name.replace("_like", "")
        if base == "zeros":
            k = _dtype_kind(dt, "f")
            v = {"f": z3.RealVal(0), "i": z3.IntVal(0), "b": z3.BoolVal(False)}.get(k, z3.RealVal(0))
            r = ArrData(shape, lambda *i: v, k)
            r.all_zero = True
            return st.alloc(r)
        if base == "ones":
            k = _dtype_kind(dt, "f")
            v = {"f": z3.RealVal(1), "i": z3.IntVal(1), "b": z3.BoolVal(True)}.get(k, z3.RealVal(1))
            r = ArrData(shape, lambda *i: v, k)
            if k == "b":
                r.all_true = True
            return st.alloc(r)
        if base == "empty":
            k = _dtype_kind(dt, "f")
            return st.alloc(ArrData(shape, fresh_sel("empty", k, len(shape)), k))
        if base == "full":
            v = args[1] if len(args) > 1 else kw.get("fill_value")
            if not is_scalar(v):
                return Opaque("full")
            k = _dtype_kind(dt, like_kind or kind_of(v))
            if k == "f":
                n, r = to_real(v)
                v = mk_fv(n, r)
            if k == "o":
                return st.alloc(ArrData(shape, fresh_sel("like", "o", len(shape)), "o"))
            r = ArrData(shape, lambda *i: v, k)
            if k == "b" and v is False:
                r.all_zero = True
            if k == "b" and v is True:
                r.all_true = True
            return st.alloc(r)
        raise Unsupported(name)

    @fn("np.arange")
    def _np_arange(E, st, args, kw, node):
        if len(args) == 1 and is_int_like(args[0]):
            n = to_int(args[0])
            return st.alloc(ArrData((z3.simplify(z3.If(n >= 0, n, 0)),), lambda i: i, "i"))
        return Opaque("arange")

    @fn("np.isnan")
    def _np_isnan(E, st, args, kw, node):
        v = args[0]
        if isinstance(v, Ref):
            a = as_array(v, st)
            if a is not None and a.kind in ("f", "i", "b"):
                return st.alloc(ArrData(a.shape, lambda *i: to_real(a.sel(*i))[0], "b"))
            return Opaque("isnan")
        if is_scalar(v):
            return z3.simplify(to_real(v)[0])
        return Opaque("isnan")

    @fn("np.sum", "np.nansum")
    def _np_sum(E, st, args, kw, node):
        """sum of an array. Boolean / 0-1 arrays: the count of true entries, via the spec function cnt."""
        _used(E, "np.sum over a boolean or 0/1 array = cnt (axioms: 0<=cnt<=n, cnt=0 <=> none, cnt=n <=> all, scatter-of-ones lemma)")
        v = args[0]
        a = as_array(v, st) if isinstance(v, Ref) else None
        ax = kw.get("axis", args[1] if len(args) > 1 else None)
        if a is not None and a.ndim == 2 and a.kind == "f" and ax in (1, -1) and set(kw) <= {"axis"} and not unparse(node.func).endswith("nansum"):
            # row sums of a real matrix: rs(i) with the consequences of 'sum of non-negative terms' (lemmas.rowsum, proved by induction):
            # all entries of row i non-NaN and >= 0  ->  rs(i) >= every entry, rs(i) >= 0, rs(i) = 0 iff all entries are 0;  NaN iff some entry is
            _used(E, "np.sum(axis=1) of a non-negative matrix (row sum bounds every entry; 0 iff all entries are 0)")
            rs = fresh_fn("rowsum", I, R)
            i, j = z3.Ints("rs_i rs_j")
            n, k = to_int(a.shape[0]), to_int(a.shape[1])
            en, ev = to_real(a.sel(i, j))
            rj = z3.And(0 <= j, j < k)
            nonneg = z3.ForAll([j], z3.Implies(rj, z3.And(z3.Not(en), ev >= 0)))
            rsnan = fresh_fn("rowsum_nan", I, B)          # NaN iff some entry of the row is NaN
            st.assume(z3.ForAll([i], z3.Implies(z3.And(0 <= i, i < n, nonneg), z3.And(
                z3.Not(rsnan(i)), rs(i) >= 0, z3.ForAll([j], z3.Implies(rj, ev <= rs(i))), (rs(i) == 0) == z3.ForAll([j], z3.Implies(rj, ev == 0))))))
            st.assume(z3.ForAll([i, j], z3.Implies(z3.And(0 <= i, i < n, rj, en), rsnan(i))))
            st.assume(z3.ForAll([i], z3.Implies(z3.And(0 <= i, i < n, z3.ForAll([j], z3.Implies(rj, z3.Not(en)))), z3.Not(rsnan(i)))))
            res = ArrData((a.shape[0],), lambda t: mk_fv(rsnan(t), rs(t)), "f")
            res.rowsum_of = (a, rs)
            return st.alloc(res)
        if a is None or "axis" in kw or len(args) > 1:
            return Opaque("sum") if a is None else E.unknown_call("np.sum(axis)", [], {}, st, node)
        sc_ = getattr(a, "scatter", None)
        ones_into_zeros = sc_ is not None and getattr(sc_[4], "all_zero", False) and _is_one_val(sc_[3])
        if a.kind == "f" and a.ndim == 1 and not ones_into_zeros and not getattr(a, "zero_one", False):
            # sum of the non-NaN entries of a real array: S with  (all non-NaN entries >= 0)  ->
            #   S >= every non-NaN entry, S >= 0, and S = 0 iff all non-NaN entries are 0
            _used(E, "np.nansum of a non-negative array (S bounds every entry; S=0 iff all entries are 0)")
            S = fresh("nansum", R)
            j = z3.Int("sj")
            n = to_int(a.shape[0])
            en, ev = to_real(a.sel(j))
            rng = z3.And(0 <= j, j < n)
            nonneg = z3.ForAll([j], z3.Implies(z3.And(rng, z3.Not(en)), ev >= 0))
            st.assume(z3.Implies(nonneg, z3.And(S >= 0, z3.ForAll([j], z3.Implies(z3.And(rng, z3.Not(en)), ev <= S)),
                                                (S == 0) == z3.ForAll([j], z3.Implies(z3.And(rng, z3.Not(en)), ev == 0)))))
            if not unparse(node.func).endswith("nansum"):
                anynan = z3.Exists([j], z3.And(rng, en))
                return mk_fv(anynan, S)
            return S
        return count_true(E, a, st)

    @fn("np.count_nonzero")
    def _np_count_nonzero(E, st, args, kw, node):
        """np.count_nonzero of a boolean array = np.sum of it (the count of True entries)"""
        a = as_array(args[0], st) if isinstance(args[0], Ref) else None
        if a is None or a.kind != "b" or kw or len(args) > 1:
            return _np_pure(E, st, args, kw, node)
        return count_true(E, a, st)

    @fn("np.any", "np.all")
    def _np_anyall(E, st, args, kw, node):
        v = args[0]
        a = as_array(v, st) if isinstance(v, Ref) else None
        if a is not None and a.kind == "b" and a.ndim == 2 and kw.get("axis", args[1] if len(args) > 1 else None) in (1, -1):
            jj = z3.Int("qa")
            m1 = to_int(a.shape[1])
            if unparse(node.func).endswith("any"):
                return st.alloc(ArrData((a.shape[0],), lambda i: z3.Exists([jj], z3.And(0 <= jj, jj < m1, z3bool(a.sel(i, jj)))), "b"))
            return st.alloc(ArrData((a.shape[0],), lambda i: z3.ForAll([jj], z3.Implies(z3.And(0 <= jj, jj < m1), z3bool(a.sel(i, jj)))), "b"))
        if a is None or a.kind != "b" or kw or len(args) > 1:
            return Opaque("anyall")
        idx = [z3.Int(f"q{i}") for i in range(a.ndim)]
        rng = z3.And(*[z3.And(0 <= i, i < to_int(s)) for i, s in zip(idx, a.shape)]) if idx else z3.BoolVal(True)
        if unparse(node.func).endswith("any"):
            return z3.Exists(idx, z3.And(rng, z3bool(a.sel(*idx)))) if idx else z3bool(a.sel())
        return z3.ForAll(idx, z3.Implies(rng, z3bool(a.sel(*idx)))) if idx else z3bool(a.sel())

    @fn("np.where", "np.flatnonzero")
    def _np_where(E, st, args, kw, node):
        _used(E, "np.where(mask)[0] / flatnonzero: ascending positions of True")
        if len(args) == 3 and not kw:
            # np.where(cond, x, y): elementwise choice (scalars broadcast)
            c = as_array(args[0], st) if isinstance(args[0], Ref) else None
            if c is not None and c.kind == "b" and c.ndim >= 1:
                xs = [as_array(v, st) if isinstance(v, Ref) else None for v in args[1:]]
                ok = all((isinstance(v, Ref) and d is not None and d.shape is not None and d.ndim in (0, c.ndim)) or is_scalar(v) for v, d in zip(args[1:], xs))
                if ok:
                    pick = [(lambda *i, d=d, v=v: (d.sel(*i) if d is not None and d.ndim else (d.sel() if d is not None else v))) for v, d in zip(args[1:], xs)]
                    kinds = {(d.kind if d is not None else kind_of(v)) for v, d in zip(args[1:], xs)}
                    kind = "f" if "f" in kinds else ("i" if kinds <= {"i", "b"} and "i" in kinds else ("b" if kinds == {"b"} else "o"))
                    if kind != "o":
                        return st.alloc(ArrData(c.shape, lambda *i: _ite_val(z3bool(c.sel(*i)), pick[0](*i), pick[1](*i)), kind))
            return Opaque("where3")
        if len(args) != 1:
            return Opaque("where3")
        a = as_array(args[0], st) if isinstance(args[0], Ref) else None
        if a is None or a.ndim != 1:
            return Opaque("where")
        src = ArrData(a.shape, lambda i: i, "i")
        mask_ = a if a.kind == "b" else ArrData(a.shape, lambda i: truth(a.sel(i)) if not _isbool(a.sel(i)) else z3bool(a.sel(i)), "b")
        res = L.filter(E, src, mask_, st)
        if unparse(node.func).endswith("flatnonzero"):
            return res
        return (res,)

    @fn("np.nanmax", "np.nanmin", "np.max", "np.min", "np.amax", "np.amin")
    def _np_nanmax(E, st, args, kw, node):
        """max/min over all entries (axis=None) or along axis 1 of a 2-D array, NaN ignored for the nan* variants.
        Contract: the result is attained at some non-NaN entry and bounds all non-NaN entries; if every entry (of the
        row) is NaN the result is NaN. (np.max/np.min: NaN if any entry is NaN.)"""
        name = unparse(node.func).split(".")[-1]
        _used(E, f"np.{name} (attained, bounds every non-NaN entry; all-NaN gives NaN)")
        a = as_array(args[0], st) if isinstance(args[0], Ref) else None
        if a is None or a.kind not in ("f", "i"):
            return Opaque(name)
        is_max = "max" in name
        ignore_nan = name.startswith("nan")
        axis = kw.get("axis", args[1] if len(args) > 1 else None)
        keep = kw.get("keepdims", False) is True
        le = (lambda x, y: x <= y) if is_max else (lambda x, y: x >= y)

        def spec(n_idx, entry, mnan, mval):
            """constraints for one reduction over index set described by (vars, range, entry(vars))"""
            vs, rng = n_idx
            en, ev = to_real(entry(*vs))
            any_ok = z3.Exists(vs, z3.And(rng, z3.Not(en)))
            all_nan = z3.Not(any_ok)
            cons = []
            if ignore_nan:
                cons.append(mnan == all_nan)
            else:
                cons.append(mnan == z3.Exists(vs, z3.And(rng, en)))
            cons.append(z3.Implies(z3.Not(mnan), z3.And(z3.Exists(vs, z3.And(rng, z3.Not(en), ev == mval)),
                                                        z3.ForAll(vs, z3.Implies(z3.And(rng, z3.Not(en)), le(ev, mval))))))
            return cons
        if axis is None:
            vs = [z3.Int(f"m{i}") for i in range(a.ndim)]
            rng = z3.And(*[z3.And(0 <= v, v < to_int(sh)) for v, sh in zip(vs, a.shape)])
            mnan, mval = fresh("mx_nan", B), fresh("mx", R)
            for c in spec((vs, rng), a.sel, mnan, mval):
                st.assume(c)
            res = mk_fv(mnan, mval)
            if keep:
                return st.alloc(ArrData(tuple(1 for _ in a.shape), lambda *i: res, "f"))
            return res
        if a.ndim == 2 and axis in (1, -1):
            fn_nan, fn_val = fresh_fn("rowmx_nan", I, B), fresh_fn("rowmx", I, R)
            i, j = z3.Ints("ri rj")
            en, ev = to_real(a.sel(i, j))
            rng = z3.And(0 <= j, j < to_int(a.shape[1]))
            rows = z3.And(0 <= i, i < to_int(a.shape[0]))
            any_ok = z3.Exists([j], z3.And(rng, z3.Not(en)))
            st.assume(z3.ForAll([i], z3.Implies(rows, fn_nan(i) == (z3.Not(any_ok) if ignore_nan else z3.Exists([j], z3.And(rng, en))))))
            st.assume(z3.ForAll([i], z3.Implies(z3.And(rows, z3.Not(fn_nan(i))),
                                                z3.And(z3.Exists([j], z3.And(rng, z3.Not(en), ev == fn_val(i))),
                                                       z3.ForAll([j], z3.Implies(z3.And(rng, z3.Not(en)), le(ev, fn_val(i))))))))
            if keep:
                return st.alloc(ArrData((a.shape[0], 1), lambda r, c: mk_fv(fn_nan(r), fn_val(r)), "f"))
            return st.alloc(ArrData((a.shape[0],), lambda r: mk_fv(fn_nan(r), fn_val(r)), "f"))
        return Opaque(name)

    @fn("np.argmax", "np.argmin")
    def _np_argmax(E, st, args, kw, node):
        """position of the first maximal (minimal) entry of a NaN-free array (flattened, or per row for axis=1)"""
        name = unparse(node.func).split(".")[-1]
        _used(E, f"np.{name} (first extremal position; entries assumed NaN-free)")
        a = as_array(args[0], st) if isinstance(args[0], Ref) else None
        if a is None or a.kind not in ("f", "i", "b"):
            return Opaque(name)
        is_max = name == "argmax"
        axis = kw.get("axis", args[1] if len(args) > 1 else None)
        ge = (lambda x, y: x >= y) if is_max else (lambda x, y: x <= y)
        gt = (lambda x, y: x > y) if is_max else (lambda x, y: x < y)
        if a.ndim == 1 and axis in (None, 0, -1):
            r = fresh("amax", I)
            j = z3.Int("aj")
            n = to_int(a.shape[0])
            rv = to_real(a.sel(r))[1]
            jv = to_real(a.sel(j))[1]
            st.assume(z3.Implies(n >= 1, z3.And(0 <= r, r < n,
                                                z3.ForAll([j], z3.Implies(z3.And(0 <= j, j < n), ge(rv, jv))),
                                                z3.ForAll([j], z3.Implies(z3.And(0 <= j, j < r), gt(rv, jv))))))
            E.oblige("argmax.nonempty", st, n >= 1) if getattr(E, "check_lib_pre", False) else None
            return r
        if a.ndim == 2 and axis in (1, -1):
            f = fresh_fn("rowamax", I, I)
            i, j = z3.Ints("ai aj")
            m = to_int(a.shape[1])
            rv = to_real(a.sel(i, f(i)))[1]
            jv = to_real(a.sel(i, j))[1]
            st.assume(z3.ForAll([i], z3.Implies(z3.And(0 <= i, i < to_int(a.shape[0]), m >= 1),
                                                z3.And(0 <= f(i), f(i) < m,
                                                       z3.ForAll([j], z3.Implies(z3.And(0 <= j, j < m), ge(rv, jv))),
                                                       z3.ForAll([j], z3.Implies(z3.And(0 <= j, j < f(i)), gt(rv, jv)))))))
            return st.alloc(ArrData((a.shape[0],), lambda r: f(r), "i"))
        if a.ndim == 2 and axis is None:
            # index into the flattened (row-major) array: flat = r * m + c with (r, c) the lexicographically first extremal position
            _used(E, f"np.{name} of a 2-D array without axis (row-major flat index of the first extremal entry)")
            r, c, flat = fresh("amax_row", I), fresh("amax_col", I), fresh("amax_flat", I)
            i, j = z3.Ints("ai aj")
            n, m = to_int(a.shape[0]), to_int(a.shape[1])
            rv = to_real(a.sel(r, c))[1]
            jv = to_real(a.sel(i, j))[1]
            inr = z3.And(0 <= i, i < n, 0 <= j, j < m)
            st.assume(z3.Implies(z3.And(n >= 1, m >= 1), z3.And(
                0 <= r, r < n, 0 <= c, c < m, flat == r * m + c, flat >= 0, flat < n * m,
                z3.ForAll([i, j], z3.Implies(inr, ge(rv, jv))),
                z3.ForAll([i, j], z3.Implies(z3.And(inr, z3.Or(i < r, z3.And(i == r, j < c))), gt(rv, jv))))))
            if not hasattr(E, "flat_index"):
                E.flat_index = {}
            E.flat_index[flat.get_id()] = (r, c, a.shape)
            return flat
        return Opaque(name)

    @fn("np.unravel_index")
    def _np_unravel(E, st, args, kw, node):
        """np.unravel_index(flat, shape) for a flat index produced by argmax/argmin over an array of that very shape: its (row, column)"""
        v = args[0]
        rec = getattr(E, "flat_index", {}).get(v.get_id()) if is_z3(v) else None
        shape = args[1] if len(args) > 1 else kw.get("shape")
        if rec is None or not isinstance(shape, tuple) or len(shape) != 2 or kw.get("order", "C") != "C":
            return _np_pure(E, st, args, kw, node)
        r, c, shp = rec
        same = z3.And(to_int(shape[0]) == to_int(shp[0]), to_int(shape[1]) == to_int(shp[1]))
        if not z3.is_true(z3.simplify(same)):
            return _np_pure(E, st, args, kw, node)
        _used(E, "np.unravel_index (inverse of the row-major flat index)")
        return (r, c)

    @fn("np.column_stack")
    def _np_column_stack(E, st, args, kw, node):
        parts = args[0]
        if isinstance(parts, tuple) and len(parts) == 2:
            a, b = (as_array(p, st) if isinstance(p, Ref) else None for p in parts)
            if a is not None and b is not None and a.ndim == 1 and b.ndim == 2:
                kind = a.kind if a.kind == b.kind else "o"
                return st.alloc(ArrData((a.shape[0], z3.simplify(to_int(b.shape[1]) + 1)),
                                        lambda i, j, a=a, b=b: _ite_val(j == 0, a.sel(i), b.sel(i, j - 1)), kind))
        return Opaque("column_stack")

    @fn("np.logical_or", "np.logical_and")
    def _np_logical(E, st, args, kw, node):
        a, b = (as_array(p, st) if isinstance(p, Ref) else None for p in args[:2])
        if a is None or b is None or a.kind != "b" or b.kind != "b":
            return Opaque("logical")
        shape, fa, fb = _broadcast(a, b)
        f = z3.Or if unparse(node.func).endswith("or") else z3.And
        return st.alloc(ArrData(shape, lambda *i: f(z3bool(fa(*i)), z3bool(fb(*i))), "b"))

    @fn("np.logical_not", "np.invert", "np.bitwise_not")
    def _np_logical_not(E, st, args, kw, node):
        """elementwise negation of a boolean array (np.invert / ~ on booleans is the same operation)"""
        a = as_array(args[0], st) if isinstance(args[0], Ref) else None
        if a is None or a.kind != "b" or len(args) > 1 or kw:
            if _isbool(args[0]) and len(args) == 1 and not kw:
                return (not args[0]) if isinstance(args[0], bool) else z3.Not(args[0])
            return _np_pure(E, st, args, kw, node)
        return st.alloc(ArrData(a.shape, lambda *i: z3.Not(z3bool(a.sel(*i))), "b"))

    @fn("np.repeat")
    def _np_repeat(E, st, args, kw, node):
        # np.repeat([u], k, axis=0): k copies of the row u
        v = args[0]
        l = list_of(v, st)
        if l is not None and isinstance(l.n, int) and l.n == 1 and kw.get("axis") == 0:
            row = as_array(l.sel(0), st) if isinstance(l.sel(0), Ref) else None
            if row is not None and row.ndim == 1:
                k = to_int(args[1])
                return st.alloc(ArrData((k, row.shape[0]), lambda i, j, row=row: row.sel(j), row.kind))
        return Opaque("repeat")

    @fn("np.argwhere")
    def _np_argwhere(E, st, args, kw, node):
        """np.argwhere(mask) for a 1-D mask: (k, 1) array of the ascending positions of True"""
        a = as_array(args[0], st) if isinstance(args[0], Ref) else None
        if a is None or a.ndim != 1 or a.kind != "b":
            return Opaque("argwhere")
        r = L.filter(E, ArrData(a.shape, lambda i: i, "i"), a, st)
        d = st.get(r)
        res = ArrData((d.shape[0], 1), lambda i, j, d=d: d.sel(i), "i")
        res.filter_of = d.filter_of
        return st.alloc(res)

    @fn("np.concatenate")
    def _np_concatenate(E, st, args, kw, node):
        """np.concatenate([a, b, ...], axis=0) of 1-D arrays of one kind: the entries of a, then those of b, ..."""
        seq = args[0]
        parts = None
        if isinstance(seq, tuple):
            parts = list(seq)
        elif isinstance(seq, Ref) and isinstance(st.get(seq), ListData) and isinstance(st.get(seq).n, int) and st.get(seq).n <= 4:
            ld = st.get(seq)
            parts = [ld.sel(k) for k in range(ld.n)]
        ax = kw.get("axis", args[1] if len(args) > 1 else 0)
        arrs = [as_array(p_, st) if isinstance(p_, Ref) else None for p_ in (parts or [])]
        if not parts or any(a is None or a.ndim != 1 for a in arrs) or ax != 0 or len({a.kind for a in arrs}) != 1:
            return _np_pure(E, st, args, kw, node)
        _used(E, "np.concatenate of 1-D arrays: entries in order")
        offs = [0]
        for a in arrs:
            offs.append(z3.simplify(to_int(offs[-1]) + to_int(a.shape[0])))

        def sel(i, arrs=tuple(arrs), offs=tuple(offs)):
            v = arrs[-1].sel(i - offs[len(arrs) - 1])
            for k in range(len(arrs) - 2, -1, -1):
                v = _ite_val(i < offs[k + 1], arrs[k].sel(i - offs[k]), v)
            return v
        r = ArrData((offs[-1],), sel, arrs[0].kind)
        r.concat_of = tuple(arrs)
        return st.alloc(r)

    @fn("np.size", "np.issubdtype", "np.shape", "np.ndim", "np.array_equal", "np.allclose", "np.mean", "np.std",
        "np.var", "np.dot", "np.matmul", "np.exp", "np.log", "np.abs", "np.sqrt", "np.square", "np.nan_to_num", "np.tile",
        "np.isin", "np.argsort", "np.stack", "np.vstack", "np.hstack", "np.linalg.norm", "np.average", "np.cumsum", "np.diff",
        "np.clip", "np.round", "np.floor", "np.ceil", "np.prod", "np.diag", "np.outer", "np.einsum", "np.take_along_axis",
        "np.argpartition", "np.meshgrid", "np.linspace", "np.isfinite", "np.isinf", "np.sign", "np.power")
    def _np_pure(E, st, args, kw, node):
        """numpy functions without a contract here: the result is unknown, the arguments are NOT modified (pure functions)"""
        name = unparse(node.func)
        r = Opaque("call:" + name)
        st.events.append(("call", name, args, kw, r, {a.id: st.heap.get(a.id) for a in list(args) + list(kw.values()) if isinstance(a, Ref)}))
        E.abstracted.add(name + " (pure, result unknown)")
        return r

    @fn("np.append")
    def _np_append(E, st, args, kw, node):
        """np.append(a, b[, axis=0]) of two 1-D arrays of one kind: the entries of a followed by those of b"""
        a, b = (as_array(x, st) if isinstance(x, Ref) else None for x in args[:2])
        ax = kw.get("axis", args[2] if len(args) > 2 else None)
        if a is None or b is None or a.ndim != 1 or b.ndim != 1 or ax not in (None, 0) or a.kind != b.kind:
            return _np_pure(E, st, args, kw, node)
        _used(E, "np.append of 1-D arrays: entries in order")
        n = to_int(a.shape[0])
        return st.alloc(ArrData((z3.simplify(n + to_int(b.shape[0])),), lambda i: _ite_val(i < n, a.sel(i), b.sel(i - n)), a.kind))

    @fn("np.delete")
    def _np_delete(E, st, args, kw, node):
        """np.delete(a, p) / np.delete(a, [p][, axis=0]) for ONE in-range position p: a without its entry (row) p, order kept"""
        a = as_array(args[0], st) if isinstance(args[0], Ref) else None
        pv = args[1] if len(args) > 1 else kw.get("obj")
        ax = kw.get("axis", args[2] if len(args) > 2 else None)
        pa = as_array(pv, st) if isinstance(pv, Ref) else None
        one = pa is not None and pa.ndim == 1 and pa.kind == "i" and z3.is_true(z3.simplify(to_int(pa.shape[0]) == 1))
        if a is not None and pa is not None and pa.ndim == 1 and pa.kind == "i" and not one and ((a.ndim == 1 and ax in (None, 0)) or (a.ndim == 2 and ax == 0)):
            # several positions: only the LENGTH is stated -- len(a) - len(p) when the positions are pairwise distinct and in range (every
            # position is removed once), between len(a) - len(p) and len(a) otherwise; the remaining entries are unconstrained here
            _used(E, "np.delete of several positions (length only; remaining entries unconstrained)")
            n, m = to_int(a.shape[0]), to_int(pa.shape[0])
            L_ = fresh("deleted_len", I)
            t, u = z3.Ints("dl_t dl_u")
            distinct = z3.ForAll([t, u], z3.Implies(z3.And(0 <= t, t < u, u < m), to_int(pa.sel(t)) != to_int(pa.sel(u))))
            inrange = z3.ForAll([t], z3.Implies(z3.And(0 <= t, t < m), z3.And(0 <= to_int(pa.sel(t)), to_int(pa.sel(t)) < n)))
            st.assume(L_ >= 0, L_ <= n, L_ >= n - m, z3.Implies(z3.And(distinct, inrange), L_ == n - m))
            return st.alloc(ArrData((L_,) + tuple(a.shape[1:]), fresh_sel("deleted", a.kind, a.ndim), a.kind))
        if a is None or not (one or (is_scalar(pv) and is_int_like(pv))) or not ((a.ndim == 1 and ax in (None, 0)) or (a.ndim == 2 and ax == 0)):
            return _np_pure(E, st, args, kw, node)
        _used(E, "np.delete of one position (the other entries keep their order)")
        p0 = to_int(pa.sel(z3.IntVal(0))) if one else to_int(pv)
        n = to_int(a.shape[0])
        return st.alloc(ArrData((z3.simplify(n - 1),) + tuple(a.shape[1:]), lambda i, *r: a.sel(z3.If(i < p0, i, i + 1), *r), a.kind))

    @fn("np.eye")
    def _np_eye(E, st, args, kw, node):
        """np.eye(n): the n x n real matrix with 1 on the diagonal and 0 elsewhere"""
        if len(args) != 1 or kw or not is_int_like(args[0]):
            return _np_pure(E, st, args, kw, node)
        _used(E, "np.eye(n) (identity matrix)")
        n = args[0] if isinstance(args[0], int) else to_int(args[0])
        return st.alloc(ArrData((n, n), lambda i, j: z3.If(i == j, z3.RealVal(1), z3.RealVal(0)), "f"))

    @fn("np.union1d")
    def _np_union1d(E, st, args, kw, node):
        """np.union1d(a, b) for 1-D integer arrays: strictly increasing, value set = values of a and of b"""
        a, b = (as_array(x, st) if isinstance(x, Ref) else None for x in args[:2])
        if a is None or b is None or a.ndim != 1 or b.ndim != 1 or a.kind != "i" or b.kind != "i":
            return _np_pure(E, st, args, kw, node)
        _used(E, "np.union1d (1-D int): strictly increasing, exactly the values of both arguments")
        m, f = fresh("n_union", I), fresh_fn("union", I, I)
        froma, src = fresh_fn("union_from_a", I, B), fresh_fn("union_src", I, I)
        pa, pb = fresh_fn("union_pos_a", I, I), fresh_fn("union_pos_b", I, I)
        t, u = z3.Ints("ut uu")
        na, nb = to_int(a.shape[0]), to_int(b.shape[0])
        st.assume(m >= 0, m <= na + nb, m >= na - na, z3.Implies(na + nb > 0, m >= 1))
        st.assume(z3.ForAll([t, u], z3.Implies(z3.And(0 <= t, t < u, u < m), f(t) < f(u))))
        st.assume(z3.ForAll([t], z3.Implies(z3.And(0 <= t, t < m), z3.If(froma(t),
                  z3.And(0 <= src(t), src(t) < na, to_int(a.sel(src(t))) == f(t)), z3.And(0 <= src(t), src(t) < nb, to_int(b.sel(src(t))) == f(t))))))
        st.assume(forall_trig([t], z3.Implies(z3.And(0 <= t, t < na), z3.And(0 <= pa(t), pa(t) < m, f(pa(t)) == to_int(a.sel(t)))), pa(t), to_int(a.sel(t))))
        st.assume(forall_trig([t], z3.Implies(z3.And(0 <= t, t < nb), z3.And(0 <= pb(t), pb(t) < m, f(pb(t)) == to_int(b.sel(t)))), pb(t), to_int(b.sel(t))))
        r = ArrData((m,), lambda i: f(i), "i")
        r.strictly_increasing = True
        r.union_of = (a, b, froma, src, pa, pb)
        return st.alloc(r)

    @fn("np.sort")
    def _np_sort(E, st, args, kw, node):
        """np.sort of a 1-D integer array: non-decreasing rearrangement (a bijection of positions)"""
        a = as_array(args[0], st) if isinstance(args[0], Ref) else None
        if a is None or a.ndim != 1 or a.kind != "i" or kw or len(args) > 1:
            return _np_pure(E, st, args, kw, node)
        if getattr(a, "strictly_increasing", False):
            r = ArrData(a.shape, a.sel, a.kind)              # already sorted: equal contents
            r.__dict__.update({k: v for k, v in a.__dict__.items() if k in ("strictly_increasing", "union_of")})
            return st.alloc(r)
        _used(E, "np.sort (1-D int): non-decreasing, a bijective rearrangement of the positions")
        n = to_int(a.shape[0])
        f, sg, sgi = fresh_fn("sorted", I, I), fresh_fn("sort_src", I, I), fresh_fn("sort_dst", I, I)
        t, u = z3.Ints("st_ su_")
        st.assume(z3.ForAll([t, u], z3.Implies(z3.And(0 <= t, t < u, u < n), f(t) <= f(u))))
        st.assume(forall_trig([t], z3.Implies(z3.And(0 <= t, t < n), z3.And(0 <= sg(t), sg(t) < n, f(t) == to_int(a.sel(sg(t))), sgi(sg(t)) == t)), sg(t), f(t)))
        st.assume(forall_trig([t], z3.Implies(z3.And(0 <= t, t < n), z3.And(0 <= sgi(t), sgi(t) < n, sg(sgi(t)) == t, f(sgi(t)) == to_int(a.sel(t)))),
                              sgi(t), to_int(a.sel(t))))
        r = ArrData((n,), lambda i: f(i), "i")
        r.sort_of = (a, sg, sgi)
        a._sorted = r                        # lets np.argsort of the same array state sort(a)[t] == a[argsort(a)[t]]
        return st.alloc(r)

    @fn("np.searchsorted")
    def _np_searchsorted(E, st, args, kw, node):
        """np.searchsorted(S, v) (side='left') for a non-decreasing 1-D integer S: r[t] = first position whose entry is >= v[t]"""
        S = as_array(args[0], st) if isinstance(args[0], Ref) else None
        v = as_array(args[1], st) if len(args) > 1 and isinstance(args[1], Ref) else None
        if S is None or v is None or S.ndim != 1 or v.ndim != 1 or S.kind != "i" or v.kind != "i" or kw or len(args) > 2:
            return _np_pure(E, st, args, kw, node)
        _used(E, "np.searchsorted (1-D int, left): S[r-1] < v <= S[r]")
        f = fresh_fn("searchsorted", I, I)
        t = z3.Int("ss_t")
        n, k = to_int(S.shape[0]), to_int(v.shape[0])
        st.assume(z3.ForAll([t], z3.Implies(z3.And(0 <= t, t < k), z3.And(
            0 <= f(t), f(t) <= n,
            z3.Implies(f(t) > 0, to_int(S.sel(f(t) - 1)) < to_int(v.sel(t))),
            z3.Implies(f(t) < n, to_int(v.sel(t)) <= to_int(S.sel(f(t))))))))
        if getattr(S, "strictly_increasing", False):
            # consequence for a strictly increasing S (lemma 'searchsorted_hit', proved in contracts/lemmas.py from the clause above and
            # strict monotonicity): a value that occurs in S is found at its position
            pq = z3.Int("ss_p")
            st.assume(z3.ForAll([t, pq], z3.Implies(z3.And(0 <= t, t < k, 0 <= pq, pq < n, to_int(S.sel(pq)) == to_int(v.sel(t))), f(t) == pq)))
        r = ArrData((k,), lambda i: f(i), "i")
        r.searchsorted_of = (S, v)
        return st.alloc(r)

    @fn("ceil", "math.ceil")
    def _ceil(E, st, args, kw, node):
        """math.ceil: the least integer not below the argument"""
        v = args[0]
        if isinstance(v, (int, float)) and not isinstance(v, bool):
            import math
            return math.ceil(v)
        if is_int_like(v):
            return to_int(v)
        nan, x = to_real(v)
        c = fresh("ceil", I)
        st.assume(z3.ToReal(c) >= x, z3.ToReal(c) < x + 1)
        return c

    @fn("np.isclose")
    def _np_isclose(E, st, args, kw, node):
        """np.isclose(a, b, rtol=1e-05, atol=1e-08): |a - b| <= atol + rtol * |b| elementwise, False where an operand is NaN (real arithmetic)"""
        _used(E, "np.isclose: |a - b| <= atol + rtol * |b| (NaN compares False)")
        a, b = as_array(args[0], st), as_array(args[1], st)
        if a is None or b is None or kw.get("equal_nan", False) is not False:
            return _np_pure(E, st, args, kw, node)
        rtol = kw.get("rtol", args[2] if len(args) > 2 else 1e-05)
        atol = kw.get("atol", args[3] if len(args) > 3 else 1e-08)
        if not isinstance(rtol, (int, float)) or not isinstance(atol, (int, float)):
            return _np_pure(E, st, args, kw, node)
        shape, fa, fb = _broadcast(a, b)
        rt, at = z3.RealVal(repr(float(rtol))), z3.RealVal(repr(float(atol)))

        def sel(*i):
            na, va = to_real(fa(*i))
            nb, vb = to_real(fb(*i))
            d = z3.If(va >= vb, va - vb, vb - va)
            ab = z3.If(vb >= 0, vb, -vb)
            return z3.And(z3.Not(na), z3.Not(nb), d <= at + rt * ab)
        if not shape:
            return sel()
        return st.alloc(ArrData(shape, sel, "b"))

    @fn("np.ix_")
    def _np_ix(E, st, args, kw, node):
        return IxTuple(args)

    @fn("np.isscalar")
    def _np_isscalar(E, st, args, kw, node):
        return is_scalar(args[0])

    @fn("np.atleast_1d")
    def _np_atleast1d(E, st, args, kw, node):
        v = args[0]
        if is_scalar(v):
            return st.alloc(ArrData((1,), lambda i, v=v: v, kind_of(v)))
        if isinstance(v, tuple) and all(is_scalar(x) for x in v):
            return st.alloc(ArrData((len(v),), lambda i, v=v: _select(v, i), kind_of(v[0])))
        return v

    @fn("np.errstate")
    def _np_errstate(E, st, args, kw, node):
        return Opaque("ctx")


def count_true(E, a, st):
    """cnt over all entries of a boolean (or 0/1 real) array; returned as Int (bool arrays) or Real."""
    if a.ndim == 1 and a.kind == "b" and getattr(a, "scatter", None) is None:
        n = to_int(a.shape[0])
        A = mask_array(a.sel)
        for f in cnt_lemma_instances(A, n):
            st.assume(f)
        E.last_count = (A, n)
        return CNT(A, n)
    idx = [z3.Int(f"c{i}") for i in range(a.ndim)]
    rng = z3.And(*[z3.And(0 <= i, i < to_int(s)) for i, s in zip(idx, a.shape)])
    total = to_int(a.shape[0])
    for s in a.shape[1:]:
        total = total * to_int(s)
    c = fresh("cnt", I)

    def tr(*i):
        e = a.sel(*i)
        return z3bool(e) if _isbool(e) else truth(e)
    E.counted = getattr(E, "counted", []) + [(a, c)]            # which array this count symbol stands for (used by postconditions)
    st.assume(c >= 0, c <= total)
    st.assume((c == 0) == z3.Not(z3.Exists(idx, z3.And(rng, tr(*idx)))))
    st.assume((c == total) == z3.ForAll(idx, z3.Implies(rng, tr(*idx))))
    sc = getattr(a, "scatter", None)
    if sc is not None:
        ia, mem, wit, v, base = sc
        # lemma (contracts/lemmas.py: scatter_count, proved by induction): ones scattered into zeros at n pairwise distinct in-range
        # positions sum up to n; in general the sum is at most n
        n = to_int(ia.shape[0])
        t, u = z3.Ints("t u")
        distinct = z3.ForAll([t, u], z3.Implies(z3.And(0 <= t, t < u, u < n), to_int(ia.sel(t)) != to_int(ia.sel(u))))
        inrange = z3.ForAll([t], z3.Implies(z3.And(0 <= t, t < n), z3.And(0 <= to_int(ia.sel(t)), to_int(ia.sel(t)) < total)))
        zero_base = getattr(base, "all_zero", False)
        if zero_base and _is_one_val(v):
            st.assume(c <= n)
            st.assume(z3.Implies(z3.And(distinct, inrange), c == n))
    if a.kind == "b":
        return c
    if getattr(a, "zero_one", False) or (sc is not None and getattr(sc[4], "all_zero", False) and _is_one_val(sc[3])):
        return z3.ToReal(c)          # only a 0/1 array sums up to its count of non-zero entries
    if a.kind == "i":           # integer array: an integer; equal to the count of non-zero entries when every entry is 0 or 1
        sm = fresh("sum", I)
        st.assume(z3.Implies(z3.ForAll(idx, z3.Implies(rng, z3.Or(to_int(a.sel(*idx)) == 0, to_int(a.sel(*idx)) == 1))), sm == c))
        return sm
    _used(E, "np.sum of a general numeric array (unconstrained value)")
    return fresh("sum", R)      # sum of a general numeric array: no contract (unconstrained value)


def _is_one_val(v):
    try:
        n, r = to_real(v)
        return z3.is_true(z3.simplify(z3.And(z3.Not(n), r == 1)))
    except Unsupported:
        return False


def _typenames(t):
    if isinstance(t, GlobalName):
        return [t.name]
    if isinstance(t, ModuleVal):
        return [t.name]
    if isinstance(t, tuple):
        out = []
        for x in t:
            n = _typenames(x)
            if n is None:
                return None
            out += n
        return out
    return None


def _dtype_kind(dt, default):
    if dt is None:
        return default
    if isinstance(dt, Opaque):
        return "o"                    # a dtype that is only known at run time: entries are opaque values
    n = dt.name if isinstance(dt, (GlobalName, ModuleVal)) else None
    if n in ("int", "np.int64", "np.int32", "np.intp"):
        return "i"
    if n in ("bool", "np.bool_"):
        return "b"
    if n in ("float", "np.float64"):
        return "f"
    if n is not None and any(t in n for t in ("int8", "int16", "int32", "uint", "float16", "float32", "half", "single")):
        # narrow machine types: 'integers are mathematical / floats are reals' no longer describes the code
        raise Unsupported(f"narrow dtype {n}: machine arithmetic is outside the encoding")
    return default


# ------------------------------------------------------------------------------ counting (spec function CNT with lemmas)
BoolArr = z3.ArraySort(I, B)
CNT = z3.Function("CNT", BoolArr, I, I)      # CNT(A, n) = number of true entries among A[0..n)


def cnt_lemma_instances(A, n):
    """instances of the lemmas proved by induction in contracts/lemmas.py (unit 'lemmas.cnt')"""
    j = z3.Int("jc")
    return [z3.And(CNT(A, n) >= 0, z3.Implies(n >= 0, CNT(A, n) <= n)),
            z3.Implies(CNT(A, n) > 0, z3.Exists([j], z3.And(0 <= j, j < n, A[j]))),
            z3.Implies(z3.And(n >= 0, z3.ForAll([j], z3.Implies(z3.And(0 <= j, j < n), A[j]))), CNT(A, n) == n),
            z3.Implies(z3.And(n >= 0, CNT(A, n) == n), z3.ForAll([j], z3.Implies(z3.And(0 <= j, j < n), A[j]))),
            z3.Implies(z3.Exists([j], z3.And(0 <= j, j < n, A[j])), CNT(A, n) > 0)]


def cnt_point_update(A, i, n):
    """A[i] true, 0<=i<n  ->  CNT(Store(A,i,False), n) = CNT(A,n) - 1"""
    return z3.Implies(z3.And(0 <= i, i < n, A[i]), CNT(z3.Store(A, i, False), n) == CNT(A, n) - 1)


def mask_array(sel):
    j = z3.Int("jm")
    return z3.Lambda([j], z3bool(sel(j)))
