"""pyvc.solve — discharge obligations with z3; `unknown` goes to cvc5 (and z3-new) on the SMT-LIB text."""
import os
import subprocess
import tempfile
import time
import z3

OUT_TMP = os.path.join(os.path.dirname(os.path.dirname(os.path.abspath(__file__))), "out", "tmp")


def model_to_dict(m, limit=60):
    out = {}
    for d in m.decls()[:limit]:
        try:
            v = m[d]
            out[d.name()] = str(v)[:200]
        except Exception:
            pass
    return out


def smt2_of(pc, goal):
    s = z3.Solver()
    s.add(*pc)
    s.add(z3.Not(goal))
    return s.to_smt2()


def run_cvc5(smt2, timeout_s):
    os.makedirs(OUT_TMP, exist_ok=True)
    fd, path = tempfile.mkstemp(suffix=".smt2", dir=OUT_TMP)
    try:
        with os.fdopen(fd, "w") as f:
            f.write("(set-logic ALL)\n" + smt2)
        try:
            p = subprocess.run(["/usr/bin/cvc5", "--tlimit=%d" % int(timeout_s * 1000), path], capture_output=True,
                               text=True, timeout=timeout_s + 5)
            out = p.stdout.strip().splitlines()
            return out[0] if out else "unknown"
        except (subprocess.TimeoutExpired, FileNotFoundError):
            return "unknown"
    finally:
        try:
            os.unlink(path)
        except OSError:
            pass


def solve_one(ob, timeout_ms=10000, use_cvc5=True, recheck_cvc5=False):
    """-> dict(name, status, backend, time_s, model)"""
    t0 = time.time()
    s = z3.Solver()
    s.set("timeout", timeout_ms)
    s.add(*ob["pc"])
    s.add(z3.Not(ob["goal"]))
    r = s.check()
    status, backend, model = str(r), "z3", None
    if r == z3.sat:
        try:
            model = model_to_dict(s.model())
        except Exception:
            model = {}
    elif r == z3.unknown and use_cvc5:
        c = run_cvc5(smt2_of(ob["pc"], ob["goal"]), max(5, timeout_ms / 1000))
        if c in ("unsat", "sat"):
            status, backend = c, "cvc5"
    res = {"name": ob["name"], "status": status, "backend": backend, "time_s": round(time.time() - t0, 4), "model": model,
           "meta": ob.get("meta", {})}
    if recheck_cvc5 and status == "unsat" and backend == "z3":
        c = run_cvc5(smt2_of(ob["pc"], ob["goal"]), max(5, timeout_ms / 1000))
        res["cvc5_recheck"] = c
    return res


def vacuity_check(pc, timeout_ms=2000):
    """the hypotheses must not be contradictory: returns 'sat' / 'unknown' (fine) or 'unsat' (vacuous!)"""
    s = z3.Solver()
    s.set("timeout", timeout_ms)
    s.add(*pc)
    return str(s.check())
