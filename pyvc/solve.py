"""pyvc.solve — discharge obligations with z3; `unknown` goes to cvc5 (and z3-new) on the SMT-LIB text."""
import os
import subprocess
import tempfile
import time
import z3

FIRST_TRY_MS = 3000
LAMBDA_FREE_FIRST_MS = 1000
OUT_TMP = os.path.join(os.path.dirname(os.path.dirname(os.path.abspath(__file__))), "out", "tmp")


def model_to_dict(m, limit=60):
    out = {}
    for d in m.decls()[:limit]:
        try:
            v = m[d]
            out[d.name()] = str(v)[:200]
        except Exception:
            pass
    return out


def smt2_of(pc, goal):
    s = z3.Solver()
    s.add(*pc)
    s.add(z3.Not(goal))
    return s.to_smt2()


def run_cvc5(smt2, timeout_s):
    os.makedirs(OUT_TMP, exist_ok=True)
    fd, path = tempfile.mkstemp(suffix=".smt2", dir=OUT_TMP)
    try:
        with os.fdopen(fd, "w") as f:
            f.write("(set-logic ALL)\n" + smt2)
        try:
            p = subprocess.run(["/usr/bin/cvc5", "--tlimit=%d" % int(timeout_s * 1000), path], capture_output=True,
                               text=True, timeout=timeout_s + 5)
            out = p.stdout.strip().splitlines()
            return out[0] if out else "unknown"
        except (subprocess.TimeoutExpired, FileNotFoundError):
            return "unknown"
    finally:
        try:
            os.unlink(path)
        except OSError:
            pass


def solve_one(ob, timeout_ms=10000, use_cvc5=True, recheck_cvc5=False):
    """-> dict(name, status, backend, time_s, model)"""
    t0 = time.time()
    if solve_without_lambdas(ob["pc"], ob["goal"], timeout_ms=min(timeout_ms, LAMBDA_FREE_FIRST_MS)) == "unsat":
        return {"name": ob["name"], "status": "unsat", "backend": "z3(hypotheses with lambda terms dropped)", "time_s": round(time.time() - t0, 4),
                "model": None, "meta": {k: v for k, v in (ob.get("meta", {}) or {}).items() if not callable(v)}}
    s = z3.Solver()
    s.set("timeout", min(timeout_ms, FIRST_TRY_MS))
    s.add(*ob["pc"])
    s.add(z3.Not(ob["goal"]))
    r = s.check()
    status, backend, model = str(r), "z3", None
    zmodel = None
    if r == z3.sat:
        try:
            zmodel = s.model()
            model = model_to_dict(zmodel)
        except Exception:
            model = {}
    elif r == z3.unknown:
        if solve_relaxed(ob["pc"], ob["goal"], timeout_ms=min(timeout_ms, 8000)) == "unsat":
            status, backend = "unsat", "z3-nlsat(real relaxation)"
        elif use_cvc5:
            c = run_cvc5(smt2_of(ob["pc"], ob["goal"]), max(5, timeout_ms / 1000))
            if c in ("unsat", "sat"):
                status, backend = c, "cvc5"
        if status == "unknown" and timeout_ms > FIRST_TRY_MS:
            # second, long attempt (thorough tier): lambda-free hypotheses first, then everything
            if solve_without_lambdas(ob["pc"], ob["goal"], timeout_ms=timeout_ms) == "unsat":
                status, backend = "unsat", "z3(hypotheses with lambda terms dropped)"
            else:
                s2 = z3.Solver()
                s2.set("timeout", timeout_ms)
                s2.add(*ob["pc"])
                s2.add(z3.Not(ob["goal"]))
                r2 = s2.check()
                if r2 == z3.unsat:
                    status, backend = "unsat", "z3"
                elif r2 == z3.sat:
                    status, backend = "sat", "z3"
                    try:
                        zmodel = s2.model()
                        model = model_to_dict(zmodel)
                    except Exception:
                        model = {}
        if status == "unknown" and timeout_ms > FIRST_TRY_MS:
            # last proof attempt before the counter-model search: the lambda-free query under two other solver seeds (only `unsat` is taken)
            for sd in (7, 23):
                if solve_without_lambdas(ob["pc"], ob["goal"], timeout_ms=timeout_ms // 2, seed=sd) == "unsat":
                    status, backend = "unsat", "z3(hypotheses with lambda terms dropped)"
                    break
        if status == "unknown":
            sm = small_model_search(ob["pc"], ob["goal"], timeout_ms=min(timeout_ms, FIRST_TRY_MS))
            if sm is not None:
                status, backend, model, zmodel = "sat", "z3(small-size counter-model search)", sm[0], sm[1]
    meta = ob.get("meta", {}) or {}
    res = {"name": ob["name"], "status": status, "backend": backend, "time_s": round(time.time() - t0, 4), "model": model,
           "meta": {k: v for k, v in meta.items() if not callable(v)}}
    conc = meta.get("concretize")
    if status == "sat" and conc is not None and zmodel is not None:
        # turn the counter-model into a concrete call of the real function (replayed by the driver under the repository's interpreter)
        try:
            res["replay"] = conc(lambda e, zm=zmodel: zm.eval(e, model_completion=True))
        except Exception as ex:
            res["replay_error"] = repr(ex)[:300]
            # typically the model is needlessly large (n = 31895): look for a small counter-model of the same obligation
            sm = small_model_search(ob["pc"], ob["goal"], timeout_ms=min(timeout_ms, FIRST_TRY_MS), bound=4)
            if sm is not None:
                try:
                    res["replay"] = conc(lambda e, zm=sm[1]: zm.eval(e, model_completion=True))
                    res["model"] = sm[0]
                    res.pop("replay_error", None)
                except Exception as ex2:
                    res["replay_error"] = repr(ex2)[:300]
    if recheck_cvc5 and status == "unsat" and backend == "z3":
        c = run_cvc5(smt2_of(ob["pc"], ob["goal"]), max(5, timeout_ms / 1000))
        res["cvc5_recheck"] = c
    return res


def _has_lambda(t, memo):
    k = t.get_id()
    if k in memo:
        return memo[k]
    if z3.is_quantifier(t):
        r = t.is_lambda() or _has_lambda(t.body(), memo)
    else:
        r = any(_has_lambda(c, memo) for c in t.children())
    memo[k] = r
    return r


def solve_without_lambdas(pc, goal, timeout_ms=3000, seed=None):
    """z3's array theory is incomplete for lambda terms whose body is quantified (CNT over a derived mask); dropping the hypotheses
    that contain a lambda only weakens what may be used, so `unsat` is still a proof."""
    memo = {}
    if _has_lambda(goal, memo):
        return "unknown"
    keep = [h for h in pc if not _has_lambda(h, memo)]
    if len(keep) == len(pc):
        return "unknown"
    s = z3.Solver()
    s.set("timeout", timeout_ms)
    if seed is not None:
        s.set("random_seed", seed)
    s.add(*keep)
    s.add(z3.Not(goal))
    return "unsat" if s.check() == z3.unsat else "unknown"


def _int_consts(fs):
    seen, out, stack = set(), {}, list(fs)
    while stack:
        t = stack.pop()
        k = t.get_id()
        if k in seen:
            continue
        seen.add(k)
        if z3.is_quantifier(t):
            stack.append(t.body())
            continue
        if z3.is_const(t) and t.decl().kind() == z3.Z3_OP_UNINTERPRETED and z3.is_int(t):
            out[str(t)] = t
        stack.extend(t.children())
    return list(out.values())


def _lambdas(t, out, seen):
    k = t.get_id()
    if k in seen:
        return
    seen.add(k)
    if z3.is_quantifier(t):
        if t.is_lambda():
            out[k] = t
            return
        _lambdas(t.body(), out, seen)
        return
    for c in t.children():
        _lambdas(c, out, seen)


def delambda(pc, goal):
    """equivalent formulas in which every closed one-argument lambda term is named by an array constant with a defining axiom
    (forall j. A[j] == body(j)); z3's model finder copes with that form where it gives up on the lambda itself"""
    lams, seen = {}, set()
    for f in pc + [goal]:
        _lambdas(f, lams, seen)
    if not lams:
        return pc, goal
    subs, defs = [], []
    for n_, (k, lam) in enumerate(lams.items()):
        if lam.num_vars() != 1:
            return pc, goal
        A = z3.Const(f"lam_arr_{n_}", lam.sort())
        j = z3.Const(f"lam_j_{n_}", lam.var_sort(0))
        try:
            body = z3.substitute_vars(lam.body(), j)
        except z3.Z3Exception:
            return pc, goal
        subs.append((lam, A))
        defs.append(z3.ForAll([j], A[j] == body))
    try:
        pc2 = [z3.substitute(f, *subs) for f in pc]
        g2 = z3.substitute(goal, *subs)
    except z3.Z3Exception:
        return pc, goal
    return pc2 + defs, g2


def small_model_search(pc, goal, timeout_ms=3000, bound=3):
    """a counter-model of the obligation restricted to small sizes is a counter-model of the obligation: when the quantified
    hypotheses make z3 give up, bounding every integer unknown to 0..bound often lets model-based instantiation finish"""
    ints = _int_consts(list(pc) + [goal])
    if not ints:
        return None
    pc, goal = delambda(list(pc), goal)
    s = z3.Solver()
    s.set("timeout", timeout_ms)
    s.add(*pc)
    s.add(z3.Not(goal))
    for c in ints:
        s.add(c >= -1, c <= bound)
    if s.check() == z3.sat:
        zm = s.model()
        try:
            return model_to_dict(zm), zm
        except Exception:
            return {}, zm
    return None


def vacuity_check(pc, timeout_ms=2000):
    """the hypotheses must not be contradictory: returns 'sat' / 'unknown' (fine) or 'unsat' (vacuous!)"""
    s = z3.Solver()
    s.set("timeout", timeout_ms)
    s.add(*pc)
    return str(s.check())


# ------------------------------------------------------------------------------ real relaxation (QF_NRA)
def real_relaxation(pc, goal):
    """A weaker-hypotheses / stronger-goal version of `pc |= goal` in pure quantifier-free real arithmetic:
    quantified hypotheses are dropped, applications of uninterpreted functions become fresh constants (one per
    syntactically distinct term), integers are relaxed to reals. If the relaxation is valid, so is the original.
    Returns (hyps, goal') or None when the goal itself cannot be relaxed."""
    memo = {}
    fresh_ix = [0]

    def fresh_const(sort_is_bool):
        fresh_ix[0] += 1
        return z3.Bool(f"rx_b{fresh_ix[0]}") if sort_is_bool else z3.Real(f"rx_r{fresh_ix[0]}")

    class Skip(Exception):
        pass

    def conv(t):
        key = t.get_id()
        if key in memo:
            return memo[key]
        r = _conv(t)
        memo[key] = r
        return r

    def _conv(t):
        if z3.is_quantifier(t) or z3.is_var(t):
            raise Skip()
        if z3.is_int_value(t):
            return z3.RealVal(t.as_long())
        if z3.is_rational_value(t) or z3.is_true(t) or z3.is_false(t):
            return t
        if z3.is_algebraic_value(t):
            return t
        if not z3.is_app(t):
            raise Skip()
        d = t.decl()
        k = d.kind()
        ch = t.children()
        if k == z3.Z3_OP_UNINTERPRETED:
            if t.sort().kind() in (z3.Z3_INT_SORT, z3.Z3_REAL_SORT):
                return z3.Real("rx_" + str(t).replace(" ", "_").replace("\n", "")[:80] + f"_{t.get_id()}") if ch else z3.Real("rx_" + d.name())
            if t.sort().kind() == z3.Z3_BOOL_SORT:
                return z3.Bool("rx_" + str(t).replace(" ", "_").replace("\n", "")[:80] + f"_{t.get_id()}") if ch else z3.Bool("rx_" + d.name())
            raise Skip()
        if k in (z3.Z3_OP_TO_REAL, z3.Z3_OP_TO_INT):
            if k == z3.Z3_OP_TO_INT:
                raise Skip()
            return conv(ch[0])
        c = [conv(x) for x in ch]
        if k == z3.Z3_OP_ADD:
            return z3.Sum(c)
        if k == z3.Z3_OP_SUB:
            r = c[0]
            for x in c[1:]:
                r = r - x
            return r
        if k == z3.Z3_OP_UMINUS:
            return -c[0]
        if k == z3.Z3_OP_MUL:
            r = c[0]
            for x in c[1:]:
                r = r * x
            return r
        if k == z3.Z3_OP_DIV:
            return c[0] / c[1]
        if k in (z3.Z3_OP_IDIV, z3.Z3_OP_MOD, z3.Z3_OP_REM, z3.Z3_OP_POWER):
            raise Skip()
        if k == z3.Z3_OP_LE:
            return c[0] <= c[1]
        if k == z3.Z3_OP_LT:
            return c[0] < c[1]
        if k == z3.Z3_OP_GE:
            return c[0] >= c[1]
        if k == z3.Z3_OP_GT:
            return c[0] > c[1]
        if k == z3.Z3_OP_EQ:
            if ch[0].sort().kind() in (z3.Z3_INT_SORT, z3.Z3_REAL_SORT, z3.Z3_BOOL_SORT):
                return c[0] == c[1]
            raise Skip()
        if k == z3.Z3_OP_DISTINCT:
            if ch[0].sort().kind() in (z3.Z3_INT_SORT, z3.Z3_REAL_SORT, z3.Z3_BOOL_SORT):
                return z3.Distinct(*c)
            raise Skip()
        if k == z3.Z3_OP_ITE:
            return z3.If(c[0], c[1], c[2])
        if k == z3.Z3_OP_AND:
            return z3.And(*c)
        if k == z3.Z3_OP_OR:
            return z3.Or(*c)
        if k == z3.Z3_OP_NOT:
            return z3.Not(c[0])
        if k == z3.Z3_OP_IMPLIES:
            return z3.Implies(c[0], c[1])
        if k == z3.Z3_OP_IFF:
            return c[0] == c[1]
        if k == z3.Z3_OP_XOR:
            return z3.Xor(c[0], c[1])
        raise Skip()
    hyps = []
    for h in pc:
        try:
            hyps.append(conv(h))
        except Skip:
            continue     # dropping a hypothesis only weakens what we may use
    try:
        g = conv(goal)
    except Skip:
        return None
    return hyps, g


def solve_relaxed(pc, goal, timeout_ms=5000):
    """-> 'unsat' if the real relaxation proves the obligation, else 'unknown'"""
    rel = real_relaxation(pc, goal)
    if rel is None:
        return "unknown"
    hyps, g = rel
    for mk in (lambda: z3.Tactic("qfnra-nlsat").solver(), lambda: z3.SolverFor("QF_NRA"), lambda: z3.Solver()):
        try:
            s = mk()
            s.set("timeout", timeout_ms)
            s.add(*hyps)
            s.add(z3.Not(g))
            if s.check() == z3.unsat:
                return "unsat"
        except z3.Z3Exception:
            continue
    return "unknown"
