"""pyvc.driver — runs the verification units and bounded stand-ins of one property, applies the verdict
logic (DESIGN.md §3.5), matches known findings and writes the evidence file.

Exit codes: 0 held (KNOWN-FINDING lines allowed) / 1 VIOLATION printed / 2 undecided without fallback / 3 checker error.
"""
import hashlib
import json
import multiprocessing as mp
import os
import subprocess
import sys
import time
import traceback

ROOT = os.path.dirname(os.path.dirname(os.path.abspath(__file__)))
OUT = os.environ.get("VERIF_OUT_DIR") or os.path.join(ROOT, "out")
EVID = os.environ.get("VERIF_EVIDENCE_DIR") or os.path.join(ROOT, "evidence")
VENV_PY = "/venv/bin/python"
REPO = os.environ.get("VERIF_REPO", "/repo")

SEMANTICS = [
    "Python int and numpy int64 are mathematical integers (no overflow)",
    "float64 is real arithmetic plus an explicit NaN flag; rounding, overflow and underflow are not modelled",
    "NaN comparisons are False; bool participates in arithmetic as 0/1",
    "RandomState = position in an uninterpreted uniform stream in [0,1) plus a counter for non-uniform draws",
    "static method resolution through the package class hierarchy; no monkey patching, no threads",
    "library contracts in pyvc/lib.py (numpy, sklearn validation helpers, copy) are trusted",
    "the engine itself (pyvc) is not verified; it is guarded by mutation self-tests and run-time cross-checks",
]


# ------------------------------------------------------------------------------------------- units (L2 / L1)
def _run_unit(arg):
    """executed in a worker process: (module, unit name, tier) -> result dict"""
    modname, uname, tier = arg
    t0 = time.time()
    try:
        import importlib
        mod = importlib.import_module(modname)
        unit = mod.UNITS[uname]
        res = unit(tier)
        res.setdefault("unit", uname)
        res["wall_s"] = round(time.time() - t0, 3)
        return res
    except Exception as e:   # engine crash: never a violation
        return {"unit": uname, "crash": f"{type(e).__name__}: {e}", "trace": traceback.format_exc()[-2000:],
                "obligations": [], "wall_s": round(time.time() - t0, 3)}


def run_units(modname, names, tier, jobs=16):
    args = [(modname, n, tier) for n in names]
    if not args:
        return []
    if len(args) == 1 or os.environ.get("VERIF_SERIAL"):
        return [_run_unit(a) for a in args]
    ctx = mp.get_context("fork")
    with ctx.Pool(min(jobs, len(args))) as pool:
        return pool.map(_run_unit, args, chunksize=1)


# ------------------------------------------------------------------------------------------- bounded stand-ins
def run_bounded(script, prop, tier, seed, extra=(), timeout=3600):
    """run a bounded stand-in under the repository's interpreter (cwd=/repo); returns its JSON result"""
    os.makedirs(OUT, exist_ok=True)
    out = os.path.join(OUT, f"bounded_{prop}_{os.path.basename(script).replace('.py', '')}_{os.getpid()}.json")
    env = dict(os.environ)
    env["PYTHONPATH"] = REPO + os.pathsep + ROOT
    env["PYTHONWARNINGS"] = "ignore"
    env.setdefault("OMP_NUM_THREADS", "1")
    env.setdefault("OPENBLAS_NUM_THREADS", "1")
    env.setdefault("MKL_NUM_THREADS", "1")
    cmd = [VENV_PY, os.path.join(ROOT, script), "--prop", prop, "--tier", tier, "--seed", str(seed), "--out", out] + list(extra)
    t0 = time.time()
    try:
        p = subprocess.run(cmd, cwd=REPO, env=env, capture_output=True, text=True, timeout=timeout)
    except subprocess.TimeoutExpired:
        return {"crash": f"bounded stand-in timed out after {timeout}s", "script": script}
    if not os.path.exists(out):
        return {"crash": f"bounded stand-in produced no result (exit {p.returncode})", "stderr": p.stderr[-3000:], "script": script}
    try:
        r = json.load(open(out))
    finally:
        try:
            os.unlink(out)
        except OSError:
            pass
    r["script"] = script
    r["wall_s"] = round(time.time() - t0, 2)
    if p.returncode not in (0,):
        r.setdefault("crash", f"exit {p.returncode}: {p.stderr[-1500:]}")
    return r


def tree_hashes():
    """AST hash of every non-test source file of the package in the tree under check"""
    import ast
    out = {}
    root = os.path.join(REPO, "skactiveml")
    for dp, dn, fn in os.walk(root):
        if "tests" in dp.split(os.sep):
            continue
        for f in fn:
            if f.endswith(".py"):
                path = os.path.join(dp, f)
                try:
                    out[os.path.relpath(path, REPO)] = hashlib.sha256(ast.dump(ast.parse(open(path).read())).encode()).hexdigest()[:16]
                except SyntaxError:
                    out[os.path.relpath(path, REPO)] = "syntax-error"
    return out


def changed_files():
    """files whose AST differs from the tree the contracts were last validated on (baseline/tree.json); None if there is no baseline"""
    p = os.path.join(ROOT, "baseline", "tree.json")
    if not os.path.exists(p):
        return None
    base = json.load(open(p))
    cur = tree_hashes()
    return sorted(f for f in set(base) | set(cur) if base.get(f) != cur.get(f))


def replay_counter_model(path, timeout=300):
    """run bounded/replay.py on a replay file under the repository's interpreter; exit 1 = violation reproduced"""
    env = dict(os.environ)
    env["PYTHONPATH"] = REPO + os.pathsep + ROOT
    env["PYTHONWARNINGS"] = "ignore"
    try:
        p = subprocess.run([VENV_PY, os.path.join(ROOT, "bounded", "replay.py"), path], cwd=REPO, env=env, capture_output=True, text=True, timeout=timeout)
        return p.returncode, (p.stdout + p.stderr)
    except subprocess.TimeoutExpired:
        return 124, "replay timed out"


# ------------------------------------------------------------------------------------------- known findings
def load_known(prop):
    path = os.path.join(ROOT, "known_findings.jsonl")
    out = []
    if os.path.exists(path):
        for line in open(path):
            line = line.strip()
            if not line or line.startswith(("#", "fixed:")):
                continue     # 'fixed: property=<id> <commit> <what failed>' lines document repaired defects and suppress nothing
            k = json.loads(line)
            if k.get("property") == prop:
                out.append(k)
    return out


def match_known(sig, known):
    import re
    for k in known:
        if k.get("status") != "known":
            continue     # a fixed entry suppresses nothing
        if re.fullmatch(k["match"], sig):
            return k
    return None


# ------------------------------------------------------------------------------------------- the check
class Check:
    def __init__(self, prop, tier, seed):
        self.prop, self.tier, self.seed = prop, tier, seed
        self.t0 = time.time()
        self.unit_results = []
        self.bounded_results = []
        self.violations = []       # dicts: sig, kind, detail, replay (dict or None)
        self.undecided = []
        self.crashes = []
        self.known_hits = {}
        self.extra_assumptions = []
        self.level = "proof"
        self.explanation = ""

    # ---- collecting
    def add_units(self, results):
        self.unit_results.extend(results)

    def add_bounded(self, r):
        self.bounded_results.append(r)

    # ---- verdict
    def decide(self):
        known = load_known(self.prop)
        obligations = discharged = 0
        by_backend = {}
        solver_time = 0.0
        samples = []
        functions = []
        proof_lost = []
        kf_obls = []
        changed = None
        for u in self.unit_results:
            if u.get("crash"):
                if changed is None:
                    changed = changed_files() or []
                if changed and not str(u["crash"]).startswith(("solver disagreement",)):
                    # the sidecar contract (loop labels, names of loop-carried variables, shapes it expects) was written against the code of
                    # the validated tree; on a tree with changed sources a contract that no longer applies is a lost proof, not a checker error
                    self.undecided.append({"unit": u["unit"], "reason": "contract does not apply to the changed code (" + str(u["crash"])[:160]
                                           + "); changed files: " + ", ".join(changed[:4])})
                    proof_lost.append({"unit": u["unit"], "reason": "contract does not apply: " + str(u["crash"])[:200]})
                    continue
                self.crashes.append({"unit": u["unit"], "crash": u["crash"], "trace": u.get("trace", "")})
                continue
            functions.append({k: u.get(k) for k in ("unit", "target", "src_hash", "paths", "abstracted", "dropped", "lib",
                                                    "kind", "inlined") if k in u})
            if u.get("unsupported"):
                self.undecided.append({"unit": u["unit"], "reason": "unsupported: " + u["unsupported"]})
                proof_lost.append({"unit": u["unit"], "reason": u["unsupported"]})
                continue
            if not u.get("obligations") and not u.get("allow_empty"):
                self.crashes.append({"unit": u["unit"], "crash": "zero obligations generated (vacuous run)"})
                continue
            if u.get("vacuous"):
                if changed is None:
                    changed = changed_files() or []
                if changed:
                    # on a changed tree a specification whose hypotheses became contradictory (e.g. an invariant that no longer fits the loop)
                    # proves nothing: lost proof, decided by the stand-in
                    self.undecided.append({"unit": u["unit"], "reason": "hypotheses of the contract are contradictory on the changed code ("
                                           + str(u["vacuous"])[:120] + ")"})
                    proof_lost.append({"unit": u["unit"], "reason": "vacuous on the changed code"})
                    continue
                self.crashes.append({"unit": u["unit"], "crash": "contradictory hypotheses: " + str(u["vacuous"])})
                continue
            for ob in u["obligations"]:
                sig = f"{u['unit']}:{ob['name']}"
                st = ob["status"]
                if st == "unsat":
                    obligations += 1
                    discharged += 1
                    by_backend[ob.get("backend", "z3")] = by_backend.get(ob.get("backend", "z3"), 0) + 1
                    solver_time += ob.get("time_s", 0)
                    if len(samples) < 6:
                        samples.append({"obligation": sig, "status": "discharged", "backend": ob.get("backend", "z3"),
                                        "time_s": ob.get("time_s"), "goal": ob.get("goal_text", "")[:300]})
                elif st == "sat":
                    k = match_known(sig, known)
                    if k is not None:
                        self.known_hits.setdefault(k["id"], k)
                        kf_obls.append({"obligation": sig, "finding": k["id"], "witness": ob.get("model")})
                        continue
                    if u.get("new_abstraction") and ob.get("replay"):
                        # the model passes through an abstraction this unit never needed on the validated tree, but the unit can turn it into a
                        # concrete call of the real function: it counts if (and only if) that call reproduces the failure
                        self.violations.append({"sig": sig, "kind": "obligation", "unit": u["unit"], "detail": ob,
                                                "replay": {"module": "bounded.cex", "prop": self.prop, "case": ob["replay"]},
                                                "only_if_reproduced": "counter-model rests on calls abstracted only in this tree: "
                                                                      + ", ".join(u["new_abstraction"])[:200]})
                        continue
                    if u.get("new_abstraction"):
                        self.undecided.append({"unit": u["unit"], "obligation": sig,
                                               "reason": "counter-model rests on calls abstracted only in this tree: "
                                                         + ", ".join(u["new_abstraction"])[:200]})
                        proof_lost.append({"unit": u["unit"], "obligation": sig, "reason": "new abstraction"})
                        continue
                    obligations += 1
                    self.violations.append({"sig": sig, "kind": "obligation", "unit": u["unit"], "detail": ob,
                                            "replay": ({"module": "bounded.cex", "prop": self.prop, "case": ob["replay"]}
                                                       if ob.get("replay") else None)})
                else:
                    obligations += 1
                    self.undecided.append({"unit": u["unit"], "obligation": sig, "reason": f"solver: {st}"})
                    proof_lost.append({"unit": u["unit"], "obligation": sig, "reason": st})
        # bounded stand-ins
        evaluations = 0
        distinct = 0
        rules = []
        bsamples = []
        for b in self.bounded_results:
            if b.get("crash"):
                self.crashes.append({"unit": b.get("script"), "crash": b["crash"], "trace": b.get("stderr", "")})
                continue
            evaluations += b.get("evaluations", 0)
            distinct += b.get("distinct_nontrivial", 0)
            rules.append(f"[{b.get('script')}] {b.get('rule', '')} (bound: {b.get('bound', '')})")
            bsamples.extend(b.get("samples", [])[:4])
            for f in b.get("failures", []):
                k = match_known(f["sig"], known)
                if k is not None:
                    self.known_hits.setdefault(k["id"], k)
                    continue
                self.violations.append({"sig": f["sig"], "kind": "bounded", "detail": f, "replay": f.get("replay")})
        self.stats = dict(obligations=obligations, discharged=discharged, by_backend=by_backend,
                          solver_time_s=round(solver_time, 3), samples=samples, functions=functions,
                          proof_lost=proof_lost, kf_obls=kf_obls, evaluations=evaluations, distinct=distinct,
                          rules=rules, bsamples=bsamples)

    # ---- output
    def finish(self, checker_cmd, trusted_base, assumptions, level_override=None, explanation=""):
        self.decide()
        s = self.stats
        os.makedirs(EVID, exist_ok=True)
        replay_dir = os.path.join(OUT, "replay", self.prop)
        lines = []
        exit_code = 0
        # one VIOLATION line per distinct signature
        seen = set()
        for v in self.violations:
            if v["sig"] in seen:
                continue
            seen.add(v["sig"])
            os.makedirs(replay_dir, exist_ok=True)
            fn = os.path.join(replay_dir, hashlib.sha1(v["sig"].encode()).hexdigest()[:12] + ".json")
            payload = {"property": self.prop, "signature": v["sig"], "kind": v["kind"], "detail": _jsonable(v["detail"]),
                       "replay": _jsonable(v.get("replay")),
                       "how_to_rerun": f"python3-vt check.py {self.prop} --replay {fn}"}
            json.dump(payload, open(fn, "w"), indent=1, default=str)
            if v["kind"] == "obligation" and v.get("replay"):
                # replay the verifier's counter-model against the real code before claiming a concrete input
                json.dump(payload, open(fn, "w"), indent=1, default=str)
                rc, out = replay_counter_model(fn)
                payload["counter_model_replay"] = {"exit": rc, "output": out[-1500:]}
                if rc != 1 and v.get("only_if_reproduced"):
                    self.undecided.append({"unit": v.get("unit"), "obligation": v["sig"], "reason": v["only_if_reproduced"] + " (and its replay on the real code did not fail)"})
                    try:
                        os.unlink(fn)
                    except OSError:
                        pass
                    continue
                if rc != 1:
                    payload["replay"] = None
                    payload["counter_model_input"] = _jsonable(v.get("replay"))
                    payload["note"] = ("the counter-model of the obligation did not reproduce on the real code (it may live in an abstracted callee); "
                                       "the obligation still fails: no-failing-input-found")
                    v = dict(v, replay=None)
                json.dump(payload, open(fn, "w"), indent=1, default=str)
            has_input = bool(v.get("replay"))
            lines.append(f"VIOLATION property={self.prop} replay={fn}" + ("" if has_input else " no-failing-input-found"))
            exit_code = 1
        for k in self.known_hits.values():
            print(f"KNOWN-FINDING: property={self.prop} {k['id']}: {k['text']}")
        for u in self.undecided:
            print(f"UNDECIDED property={self.prop} unit={u.get('unit')} obligation={u.get('obligation', '-')} reason={u['reason']}")
        for c in self.crashes:
            print(f"CHECKER-ERROR property={self.prop} unit={c['unit']}: {c['crash']}")
            if c.get("trace"):
                sys.stderr.write(c["trace"] + "\n")
        for l in lines:
            print(l)
        if exit_code == 0 and self.crashes:
            exit_code = 3
        undecided_without_fallback = [u for u in self.undecided] if not self.bounded_results else []
        if exit_code == 0 and undecided_without_fallback:
            exit_code = 2
        level = level_override or ("proof" if s["obligations"] > 0 and s["discharged"] == s["obligations"] and not self.undecided
                                   else "other")
        cov = {
            "obligations": s["obligations"], "discharged": s["discharged"], "checker_cmd": checker_cmd,
            "trusted_base": trusted_base, "by_backend": s["by_backend"], "solver_time_s": s["solver_time_s"],
            "functions_under_contract": s["functions"], "proof_lost": s["proof_lost"],
            "known_finding_obligations": s["kf_obls"],
            "samples": (s["samples"] + s["bsamples"])[:10] or [{"note": "no sample"}],
            "bounded": {"evaluations": s["evaluations"], "distinct_nontrivial": s["distinct"], "rules": s["rules"],
                        "note": "bounded stand-ins are run-time evaluations of the contracts on generated inputs; never counted as proved"},
            "known_findings": [k["id"] for k in self.known_hits.values()],
            "explanation": explanation or self.explanation,
            "undecided": self.undecided[:20],
        }
        ren = {}
        for u in self.unit_results:
            ren.update(u.get("renamed_locals") or {})
        if ren:
            cov["verified_up_to_renaming_of_locals"] = ren
        if s["evaluations"] > 0:
            cov["evaluations"] = s["evaluations"]
            cov["distinct_nontrivial"] = s["distinct"]
            cov["rule"] = " | ".join(s["rules"])[:1500]
        ev = {"property_id": self.prop, "tier": self.tier, "seed": self.seed, "level": level, "coverage": cov,
              "assumptions": SEMANTICS + list(assumptions) + self.extra_assumptions,
              "wall_s": round(time.time() - self.t0, 2), "violations": len(seen)}
        json.dump(ev, open(os.path.join(EVID, f"{self.prop}.json"), "w"), indent=1, default=str)
        print(f"[{self.prop}] tier={self.tier} obligations={s['obligations']} discharged={s['discharged']} "
              f"bounded_evaluations={s['evaluations']} violations={len(seen)} known={len(self.known_hits)} "
              f"undecided={len(self.undecided)} wall={ev['wall_s']}s exit={exit_code}")
        return exit_code


def _jsonable(x):
    try:
        json.dumps(x, default=str)
        return x
    except Exception:
        return str(x)
