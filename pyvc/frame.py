"""pyvc.frame — L1: flow-sensitive may-alias / effect analysis of the real AST (no solver).

It decides frame conditions ("this method does not write X") for all classes found in the package on this run:
  F1  parameter frame      no method but __init__/set_params writes or deep-mutates a constructor parameter
  F2  argument frame       a function does not mutate (an alias of) a caller-owned argument
  F2' model frame          an estimator argument only has non-mutating methods called unless it was clone()d/deepcopy()d
  F3  RNG provenance       no global generator; random_state always forwarded from the object's own generator
  F4  sentinel passing     label predicates always receive missing_label
  R   restore pattern      stream query restores every attribute it writes (copy before / overwrite after, get/set_state)
An obligation here is one (function, clause) pair; it is discharged when the abstract interpretation finds no offending
statement, and fails with the source location otherwise. The analysis over-approximates aliasing along copies it cannot
see through; the precise alias/copy tables below are part of the trusted base.
"""
import ast

from .repo import unparse

# calls that may return (a view of) their first array argument
ALIAS_FUNCS = {"check_array", "asarray", "asanyarray", "column_or_1d", "atleast_1d", "atleast_2d", "ravel", "squeeze",
               "ascontiguousarray", "check_X_y", "reshape", "transpose", "swapaxes", "as_float_array", "nan_to_num_"}
ALIAS_METHODS = {"reshape", "ravel", "squeeze", "swapaxes", "transpose", "view", "T", "flat", "real", "astype_"}
# methods that mutate their receiver
MUT_METHODS = {"sort", "fill", "append", "extend", "pop", "clear", "update", "setdefault", "insert", "remove", "popitem",
               "resize", "put", "itemset", "partial_fit", "fit", "set_params", "appendleft", "popleft", "add", "discard",
               "shuffle", "setflags", "__setitem__", "fit_transform", "set_state", "seed"}
RNG_DRAWS = {"random_sample", "random", "rand", "randn", "randint", "choice", "normal", "uniform", "permutation", "shuffle",
             "standard_normal", "multinomial", "dirichlet", "beta", "binomial", "multivariate_normal", "bytes", "poisson",
             "exponential", "gamma"}
MODEL_PARAMS = {"clf", "reg", "ensemble", "discriminator"}
MODEL_MUT = {"fit", "partial_fit", "set_params", "fit_transform", "fit_predict"}
CUT_FUNCS = {"clone", "deepcopy", "copy", "array", "zeros_like", "ones_like", "full_like", "empty_like", "append", "concatenate",
             "delete", "unique", "sort", "argsort", "where", "tile", "repeat", "stack", "vstack", "hstack", "column_stack",
             "dict", "list", "tuple", "set", "sorted", "len", "int", "float", "str", "bool", "sum", "max", "min", "abs"}


def self_attr(e):
    if isinstance(e, ast.Attribute) and isinstance(e.value, ast.Name) and e.value.id == "self":
        return e.attr
    return None


def call_name(c):
    f = c.func
    if isinstance(f, ast.Name):
        return f.id
    if isinstance(f, ast.Attribute):
        return f.attr
    return None


class Site:
    def __init__(self, kind, file, qual, line, text, origins):
        self.kind, self.file, self.qual, self.line, self.text, self.origins = kind, file, qual, line, text, set(origins)

    def __repr__(self):
        return f"{self.file}:{self.line} {self.qual} {self.kind} {self.text}  <- {sorted(self.origins)}"

    def as_dict(self):
        return {"kind": self.kind, "file": self.file, "qualname": self.qual, "line": self.line, "text": self.text[:120],
                "origins": sorted(self.origins)}


class Flow:
    """origin tracking for one function: env maps a local name to the set of origins it may alias.
    origins: 'param:<name>', 'self.<attr>', 'clone:<x>' (a private copy of x, mutation allowed)"""

    def __init__(self, analysis, fn, cls, file, attr_alias=None):
        self.A, self.fn, self.cls, self.file = analysis, fn, cls, file
        self.qual = f"{cls}.{fn.name}" if cls else fn.name
        self.attr_alias = attr_alias or {}
        self.mutations = []     # Site
        self.attr_binds = {}    # attr -> origins assigned to self.attr in this function
        self.calls = []         # (node, origins per arg)
        params = [a.arg for a in fn.args.posonlyargs + fn.args.args + fn.args.kwonlyargs]
        if fn.args.vararg:
            params.append(fn.args.vararg.arg)
        if fn.args.kwarg:
            params.append(fn.args.kwarg.arg)
        self.params = [p for p in params if p != "self"]
        self.env = {p: {"param:" + p} for p in self.params}

    # ---------------------------------------------------------------- expressions
    def origins(self, e, env):
        if e is None:
            return set()
        if isinstance(e, ast.Name):
            return set(env.get(e.id, ()))
        if isinstance(e, ast.Attribute):
            a = self_attr(e)
            if a is not None:
                return {"self." + a} | set(self.attr_alias.get(a, ()))
            if e.attr in ALIAS_METHODS:
                return self.origins(e.value, env)
            # attribute of a tracked object (e.g. clf.classes_): part of that object
            base = self.origins(e.value, env)
            return {o + "." + e.attr if False else o for o in base if o.startswith(("param:", "self."))} if base else set()
        if isinstance(e, ast.IfExp):
            return self.origins(e.body, env) | self.origins(e.orelse, env)
        if isinstance(e, ast.BoolOp):
            s = set()
            for v in e.values:
                s |= self.origins(v, env)
            return s
        if isinstance(e, ast.NamedExpr):
            return self.origins(e.value, env)
        if isinstance(e, ast.Starred):
            return self.origins(e.value, env)
        if isinstance(e, ast.Subscript):
            sl = e.slice
            if self._basic_index(sl, env):
                # view (arrays) or element reference (lists/dicts); elements of literal containers are unwrapped
                return {o[5:] if o.startswith("elem:") else o for o in self.origins(e.value, env)}
            return set()
        if isinstance(e, (ast.Tuple, ast.List, ast.Set)):
            s = set()
            for v in e.elts:
                s |= self.origins(v, env)
            return {o if o.startswith("elem:") else "elem:" + o for o in s}   # fresh container holding references
        if isinstance(e, ast.Dict):
            s = set()
            for v in e.values:
                s |= self.origins(v, env)
            return {o if o.startswith("elem:") else "elem:" + o for o in s}
        if isinstance(e, ast.Call):
            return self.call_origins(e, env)
        return set()

    def _basic_index(self, sl, env):
        """True if a[sl] yields a view / a reference to the element (slices, constants, names bound to scalars).
        Fancy indexing with arrays or boolean masks copies; a bare Name index is assumed to be an integer or key
        (element reference for lists/dicts, scalar for arrays) unless it is known to hold an array."""
        if isinstance(sl, ast.Slice):
            return True
        if isinstance(sl, ast.Constant):
            return True
        if isinstance(sl, ast.Tuple):
            return all(isinstance(x, (ast.Slice, ast.Constant)) or (isinstance(x, ast.Name) and x.id not in self.array_names)
                       for x in sl.elts) and any(isinstance(x, ast.Slice) for x in sl.elts)
        if isinstance(sl, ast.Name):
            return sl.id in self.key_names
        if isinstance(sl, ast.UnaryOp) and isinstance(sl.operand, ast.Constant):
            return True
        return False

    def call_origins(self, c, env):
        nm = call_name(c)
        f = c.func
        args = list(c.args) + [k.value for k in c.keywords]
        if nm in ("clone", "deepcopy"):
            return set()
        if nm in ("check_random_state", "check_random_state_sklearn"):
            # without a seed multiplier a RandomState instance is returned as it is (alias); with one a new generator
            if len(c.args) >= 2 or any(k.arg == "seed_multiplier" for k in c.keywords):
                return set()
            return self.origins(c.args[0], env) if c.args else set()
        if nm == "copy" and not (isinstance(f, ast.Attribute) and False):
            return set()
        if nm in ALIAS_FUNCS and not any(k.arg == "copy" and isinstance(k.value, ast.Constant) and k.value.value is True
                                         for k in c.keywords):
            s = set()
            if c.args:
                s |= self.origins(c.args[0], env)
            for k in c.keywords:
                if k.arg in ("X", "y", "a", "array", "arr"):
                    s |= self.origins(k.value, env)
            if isinstance(f, ast.Attribute) and nm in ALIAS_METHODS:
                s |= self.origins(f.value, env)
            return s
        if isinstance(f, ast.Attribute) and nm in ALIAS_METHODS:
            return self.origins(f.value, env)
        if nm in ("_validate_data", "_validate_X_y_sample_weight") or (nm or "").startswith("_validate"):
            # validation helpers return their (validated) arguments: every result may alias every argument
            s = set()
            for a in args:
                s |= self.origins(a, env)
            return s
        if isinstance(f, ast.Attribute) and nm in ("get", "setdefault", "pop", "__getitem__"):
            return self.origins(f.value, env)
        # package callee with a summary: results alias the listed params
        summ = self.A.summary_for_call(self, c)
        if summ is not None:
            s = set()
            for pname in summ.returns_alias:
                a = self.A.arg_for_param(summ, c, pname)
                if a is not None:
                    s |= self.origins(a, env)
            return s
        return set()

    # ---------------------------------------------------------------- statements
    def run(self):
        self.array_names = set()
        self.key_names = set()
        for x in ast.walk(self.fn):
            # loop targets over range/enumerate and integer constants are scalar keys
            if isinstance(x, ast.For):
                it = x.iter
                if isinstance(it, ast.Call) and call_name(it) in ("range", "enumerate"):
                    t = x.target
                    first = t.elts[0] if isinstance(t, ast.Tuple) else t
                    if isinstance(first, ast.Name):
                        self.key_names.add(first.id)
            if isinstance(x, ast.Assign) and isinstance(x.value, ast.Constant) and isinstance(x.value.value, (int, str)):
                for t in x.targets:
                    if isinstance(t, ast.Name):
                        self.key_names.add(t.id)
        env = dict(self.env)
        self.block(self.fn.body, env)
        return self

    def block(self, stmts, env):
        for s in stmts:
            self.stmt(s, env)

    def join(self, a, b):
        out = {}
        for k in set(a) | set(b):
            out[k] = set(a.get(k, ())) | set(b.get(k, ()))
        return out

    def mutate(self, kind, target_expr, env, node, extra_origins=None):
        o = set(extra_origins or ()) | self.origins(target_expr, env)
        o = {x for x in o if not x.startswith("elem:")}    # mutating a container does not mutate what it refers to
        if o:
            self.mutations.append(Site(kind, self.file, self.qual, getattr(node, "lineno", 0), unparse(node)[:100], o))

    def assign(self, t, o, env, node):
        if isinstance(t, ast.Name):
            env[t.id] = set(o)
        elif isinstance(t, (ast.Tuple, ast.List)):
            o = {x[5:] if x.startswith("elem:") else x for x in o}
            for x in t.elts:
                self.assign(x, o, env, node)
        elif isinstance(t, ast.Starred):
            self.assign(t.value, o, env, node)
        elif isinstance(t, ast.Attribute):
            a = self_attr(t)
            if a is not None:
                self.attr_binds.setdefault(a, set()).update(o)
                self.mutations.append(Site("attr-assign", self.file, self.qual, getattr(node, "lineno", 0), unparse(t), {"selfattr:" + a}))
            else:
                # obj.attr = ... : mutation of obj
                self.mutate("attr-store", t.value, env, node)
        elif isinstance(t, ast.Subscript):
            base = t.value
            while isinstance(base, ast.Subscript):
                base = base.value
            self.mutate("subscript-store", base, env, node)

    def stmt(self, s, env):
        if isinstance(s, ast.Assign):
            self.visit_calls(s.value, env)
            o = self.origins(s.value, env)
            for t in s.targets:
                self.assign(t, o, env, s)
        elif isinstance(s, ast.AnnAssign):
            if s.value is not None:
                self.visit_calls(s.value, env)
                self.assign(s.target, self.origins(s.value, env), env, s)
        elif isinstance(s, ast.AugAssign):
            self.visit_calls(s.value, env)
            t = s.target
            if isinstance(t, ast.Name):
                # x += ... mutates arrays/lists in place (numbers are rebound: origins of a number are empty anyway)
                self.mutate("augassign", t, env, s)
            elif isinstance(t, ast.Attribute):
                a = self_attr(t)
                if a is not None:
                    self.mutations.append(Site("attr-assign", self.file, self.qual, s.lineno, unparse(t), {"selfattr:" + a}))
                    self.mutate("augassign", t, env, s)
                else:
                    self.mutate("attr-store", t.value, env, s)
            elif isinstance(t, ast.Subscript):
                base = t.value
                while isinstance(base, ast.Subscript):
                    base = base.value
                self.mutate("subscript-store", base, env, s)
        elif isinstance(s, ast.Delete):
            for t in s.targets:
                if isinstance(t, ast.Subscript):
                    self.mutate("del-item", t.value, env, s)
                elif isinstance(t, ast.Attribute):
                    a = self_attr(t)
                    if a is not None:
                        self.mutations.append(Site("attr-assign", self.file, self.qual, s.lineno, unparse(t), {"selfattr:" + a}))
        elif isinstance(s, ast.Expr):
            self.visit_calls(s.value, env)
        elif isinstance(s, ast.Return):
            if s.value is not None:
                self.visit_calls(s.value, env)
                self.returned = getattr(self, "returned", set()) | self.origins(s.value, env)
        elif isinstance(s, ast.If):
            self.visit_calls(s.test, env)
            a, b = dict(env), dict(env)
            self.block(s.body, a)
            self.block(s.orelse, b)
            env.clear()
            env.update(self.join(a, b))
        elif isinstance(s, (ast.For, ast.AsyncFor)):
            self.visit_calls(s.iter, env)
            o = self.origins(s.iter, env)
            if isinstance(s.iter, ast.Call) and call_name(s.iter) in ("enumerate", "zip"):
                o = set()
                for a in s.iter.args:
                    o |= self.origins(a, env)
            o = {x[5:] if x.startswith("elem:") else x for x in o}     # iterating yields the elements
            for _ in range(2):
                body_env = dict(env)
                self.assign(s.target, o, body_env, s)
                if isinstance(s.iter, ast.Call) and call_name(s.iter) == "enumerate" and isinstance(s.target, ast.Tuple) \
                        and isinstance(s.target.elts[0], ast.Name):
                    body_env[s.target.elts[0].id] = set()
                self.block(s.body, body_env)
                merged = self.join(env, body_env)
                env.clear()
                env.update(merged)
            self.block(s.orelse, env)
        elif isinstance(s, ast.While):
            self.visit_calls(s.test, env)
            for _ in range(2):
                body_env = dict(env)
                self.block(s.body, body_env)
                merged = self.join(env, body_env)
                env.clear()
                env.update(merged)
        elif isinstance(s, ast.With):
            for it in s.items:
                self.visit_calls(it.context_expr, env)
            self.block(s.body, env)
        elif isinstance(s, ast.Try):
            a = dict(env)
            self.block(s.body, a)
            outs = [a]
            for h in s.handlers:
                b = self.join(env, a)
                self.block(h.body, b)
                outs.append(b)
            c = dict(a)
            self.block(s.orelse, c)
            outs.append(c)
            m = {}
            for x in outs:
                m = self.join(m, x)
            self.block(s.finalbody, m)
            env.clear()
            env.update(m)
        elif isinstance(s, (ast.FunctionDef, ast.AsyncFunctionDef)):
            # nested function: analysed in the enclosing environment (closure reads), its locals are its own
            inner = dict(env)
            for a in s.args.args + s.args.kwonlyargs:
                inner[a.arg] = set()
            self.block(s.body, inner)
        elif isinstance(s, (ast.Raise, ast.Assert)):
            pass

    def visit_calls(self, e, env):
        """record mutations performed by calls inside expression e (evaluation order ignored)"""
        for c in ast.walk(e):
            if isinstance(c, ast.Lambda):
                continue
            if not isinstance(c, ast.Call):
                continue
            nm = call_name(c)
            f = c.func
            if isinstance(f, ast.Attribute):
                if nm in MUT_METHODS:
                    if nm == "update" and self_attr(f.value) is None and isinstance(f.value, ast.Call):
                        pass
                    else:
                        self.mutate("mut-call:" + nm, f.value, env, c)
                if nm in RNG_DRAWS:
                    self.mutate("rng-draw:" + nm, f.value, env, c)
            for k in c.keywords:
                if k.arg == "out":
                    self.mutate("out=", k.value, env, c)
            if nm == "setattr" and c.args:
                self.mutate("setattr", c.args[0], env, c)
                if isinstance(c.args[0], ast.Name) and c.args[0].id == "self" and len(c.args) > 1 and isinstance(c.args[1], ast.Constant):
                    self.mutations.append(Site("attr-assign", self.file, self.qual, c.lineno, unparse(c)[:80], {"selfattr:" + str(c.args[1].value)}))
            # package callee summaries: arguments the callee mutates
            summ = self.A.summary_for_call(self, c)
            if summ is not None:
                for pname in summ.mutates:
                    a = self.A.arg_for_param(summ, c, pname)
                    if a is not None:
                        self.mutate(f"callee-mutates:{summ.qual}({pname})", a, env, c)
                if summ.cls is not None and isinstance(f, ast.Attribute) and isinstance(f.value, ast.Name) and f.value.id == "self":
                    for a in summ.self_writes:
                        self.mutations.append(Site("attr-assign", self.file, self.qual, c.lineno, f"via {summ.qual}: self.{a}",
                                                   {"selfattr:" + a}))
                    for a, orig in summ.self_mutates:
                        self.mutations.append(Site("via-callee", self.file, self.qual, c.lineno, f"via {summ.qual}",
                                                   {"self." + a}))
            self.calls.append(c)


class Summary:
    def __init__(self, qual, cls, fn, file):
        self.qual, self.cls, self.fn, self.file = qual, cls, fn, file
        self.mutates = set()         # parameter names whose object may be mutated
        self.returns_alias = set()   # parameter names the result may alias
        self.self_writes = set()     # self attributes assigned
        self.self_mutates = set()    # (attr, kind) self attributes deep-mutated
        self.params = [a.arg for a in fn.args.posonlyargs + fn.args.args + fn.args.kwonlyargs if a.arg != "self"]
        self.pos_params = [a.arg for a in fn.args.posonlyargs + fn.args.args if a.arg != "self"]


class Analysis:
    def __init__(self, repo):
        self.repo = repo
        self.summaries = {}     # qual -> Summary
        self.flows = {}
        self.attr_alias = {}    # class -> {attr: origins}
        self._build()

    # ---------------------------------------------------------------- callee resolution
    def summary_for_call(self, flow, c):
        f = c.func
        if isinstance(f, ast.Name):
            cands = self.repo.func_by_name.get(f.id, [])
            if len(cands) >= 1:
                # prefer a function of the same file
                for rel, fn in cands:
                    if rel == flow.file:
                        return self.summaries.get(f.id + "@" + rel)
                rel, fn = cands[0]
                return self.summaries.get(f.id + "@" + rel)
            return None
        if isinstance(f, ast.Attribute):
            if isinstance(f.value, ast.Name) and f.value.id == "self" and flow.cls:
                ci, m = self.repo.resolve_method(flow.cls, f.attr)
                if m is not None:
                    return self.summaries.get(f"{ci.name}.{f.attr}")
            if isinstance(f.value, ast.Call) and isinstance(f.value.func, ast.Name) and f.value.func.id == "super" and flow.cls:
                owner = flow.owner or flow.cls
                ci, m = self.repo.resolve_method(flow.cls, f.attr, after=owner)
                if m is not None:
                    return self.summaries.get(f"{ci.name}.{f.attr}")
        return None

    def arg_for_param(self, summ, c, pname):
        for k in c.keywords:
            if k.arg == pname:
                return k.value
        if pname in summ.pos_params:
            i = summ.pos_params.index(pname)
            if i < len(c.args) and not any(isinstance(a, ast.Starred) for a in c.args[:i + 1]):
                return c.args[i]
        return None

    # ---------------------------------------------------------------- summaries by fixpoint
    def _all_functions(self):
        for (rel, name), fn in self.repo.functions.items():
            yield name + "@" + rel, None, None, fn, rel
        for ci in self.repo.all_classes():
            for name, m in ci.methods.items():
                yield f"{ci.name}.{name}", ci.name, ci.name, m, ci.file

    def _build(self):
        fns = list(self._all_functions())
        for qual, cls, owner, fn, rel in fns:
            self.summaries[qual] = Summary(qual, cls, fn, rel)
        # class-level attribute aliases (self.attr_ = <alias of self.param>) - two rounds
        for rnd in range(3):
            changed = False
            for qual, cls, owner, fn, rel in fns:
                fl = Flow(self, fn, cls, rel, self.attr_alias.get(cls, {}))
                fl.owner = owner
                fl.run()
                self.flows[qual] = fl
                s = self.summaries[qual]
                mut = set()
                for site in fl.mutations:
                    for o in site.origins:
                        if o.startswith("param:"):
                            mut.add(o[6:])
                ret = {o[6:] for o in getattr(fl, "returned", set()) if o.startswith("param:")}
                sw = {o[9:] for site in fl.mutations for o in site.origins if o.startswith("selfattr:")}
                sm = {(o[5:], site.kind) for site in fl.mutations for o in site.origins if o.startswith("self.")}
                if mut - s.mutates or ret - s.returns_alias or sw - s.self_writes or sm - s.self_mutates:
                    changed = True
                s.mutates |= mut
                s.returns_alias |= ret
                s.self_writes |= sw
                s.self_mutates |= sm
                if cls:
                    # aliases stored in attributes are visible to every class that inherits the method
                    for a, o in fl.attr_binds.items():
                        keep = {x for x in o if x.startswith("self.") and x != "self." + a}
                        if keep:
                            for sub in self._subclasses(cls):
                                d = self.attr_alias.setdefault(sub, {})
                                if keep - d.get(a, set()):
                                    d.setdefault(a, set()).update(keep)
                                    changed = True
            if not changed:
                break

    def _subclasses(self, cls):
        out = []
        for ci in self.repo.all_classes():
            if cls in self.repo.mro(ci.name):
                out.append(ci.name)
        return out

    # ---------------------------------------------------------------- queries
    def methods_of(self, cls, include_inherited=True):
        """(owner class, name, FunctionDef) for every method visible on cls"""
        seen = set()
        for c in self.repo.mro(cls):
            ci = self.repo.cls(c)
            for name, m in ci.methods.items():
                if name in seen:
                    continue
                seen.add(name)
                yield ci, name, m

    def flow_of(self, cls, owner, name):
        """flow of method `name` (defined in `owner`) as seen from subclass `cls` (attribute aliases of cls)"""
        ci = self.repo.cls(owner)
        fl = Flow(self, ci.methods[name], cls, ci.file, self.attr_alias.get(cls, {}))
        fl.owner = owner
        fl.qual = f"{owner}.{name}"
        return fl.run()


# ------------------------------------------------------------------------------------------ helpers for the clauses
ESTIMATOR_ROOTS = {"BaseEstimator", "QueryStrategy", "SkactivemlClassifier", "SkactivemlRegressor", "BudgetManager",
                   "ClassifierMixin", "RegressorMixin"}


def is_estimator_class(repo, name, seen=None):
    seen = seen or set()
    if name in seen or not repo.has_cls(name):
        return name in ESTIMATOR_ROOTS
    seen.add(name)
    ci = repo.cls(name)
    return any(b in ESTIMATOR_ROOTS or is_estimator_class(repo, b, seen) for b in ci.bases)


def scalar_params(repo, cls):
    """constructor parameters that hold immutable scalars: default is a number/bool/str constant, or the class validates
    them with check_scalar. `x op= ...` on such a value rebinds, it does not mutate."""
    out = set()
    for c in repo.mro(cls):
        ci = repo.cls(c)
        m = ci.methods.get("__init__")
        if m is not None:
            args = m.args.args[1:]
            defaults = m.args.defaults
            for a, d in zip(args[len(args) - len(defaults):], defaults):
                if isinstance(d, ast.Constant) and isinstance(d.value, (int, float, bool, str)) and d.value is not None:
                    out.add(a.arg)
                if isinstance(d, ast.UnaryOp) and isinstance(d.operand, ast.Constant):
                    out.add(a.arg)
            for a, d in zip(m.args.kwonlyargs, m.args.kw_defaults):
                if isinstance(d, ast.Constant) and isinstance(d.value, (int, float, bool, str)) and d.value is not None:
                    out.add(a.arg)
        for meth in ci.methods.values():
            for x in ast.walk(meth):
                if isinstance(x, ast.Call) and call_name(x) == "check_scalar" and x.args:
                    a = self_attr(x.args[0])
                    if a:
                        out.add(a)
    return out
