"""pyvc.se — symbolic execution of real Python function bodies (ast) into z3 verification conditions.

Values
  python constants (None, bool, int, float, str, tuple)            concrete
  z3 Int / Real / Bool terms                                         symbolic scalars
  FV(nan, val)                                                        a float that may be NaN
  Ref(id) -> heap[id] in {ArrData, ListData, ObjData, RngData, DictData}   mutable objects (aliasing = same Ref)
  Opaque(tag)                                                          a value the engine knows nothing about
Semantics assumed (reported in every evidence file): Python/numpy integers are mathematical
integers, float64 is real arithmetic plus an explicit NaN flag, NaN comparisons are False.
"""
import ast
import itertools
import z3

from .repo import unparse


class Unsupported(Exception):
    pass


class EngineError(Exception):
    pass


_counter = itertools.count(1)


def fresh_name(base):
    return f"{base}!{next(_counter)}"


def fresh(base, sort):
    return z3.Const(fresh_name(base), sort)


def fresh_fn(base, *sorts):
    return z3.Function(fresh_name(base), *sorts)


R, I, B = z3.RealSort(), z3.IntSort(), z3.BoolSort()
USort = z3.DeclareSort("U")


class FV:
    """float scalar that may be NaN"""
    __slots__ = ("nan", "val")

    def __init__(self, nan, val):
        self.nan, self.val = nan, val

    def __repr__(self):
        return f"FV({self.nan},{self.val})"


def mk_fv(nan, val):
    if isinstance(nan, bool):
        nan = z3.BoolVal(nan)
    nan = z3.simplify(nan)
    if z3.is_false(nan):
        return val
    return FV(nan, val)


class Ref:
    __slots__ = ("id",)

    def __init__(self, id):
        self.id = id

    def __repr__(self):
        return f"Ref({self.id})"

    def __eq__(self, o):
        return isinstance(o, Ref) and o.id == self.id

    def __hash__(self):
        return hash(self.id)


class Opaque:
    def __init__(self, tag="", sym=None):
        self.tag = tag
        self.sym = sym if sym is not None else fresh("u", USort)

    def __repr__(self):
        return f"Opaque({self.tag})"


class ArrData:
    """numpy array: shape = tuple of int terms; sel(*idx) -> element value; kind in f,i,b,o"""

    def __init__(self, shape, sel, kind):
        self.shape, self.sel, self.kind = tuple(shape), sel, kind

    @property
    def ndim(self):
        return len(self.shape)


class ListData:
    def __init__(self, n, sel, kind=None):
        self.n, self.sel, self.kind = n, sel, kind


class ObjData:
    def __init__(self, cls, fields=None):
        self.cls, self.fields = cls, dict(fields or {})


class RngData:
    """RandomState: position `pos` in the uniform stream `stream` plus a counter `aux` that
    changes with every non-uniform draw (it is part of get_state())."""

    def __init__(self, stream, pos, aux):
        self.stream, self.pos, self.aux = stream, pos, aux


class RngState:
    def __init__(self, stream, pos, aux):
        self.stream, self.pos, self.aux = stream, pos, aux


class FuncVal:
    def __init__(self, node, closure):
        self.node, self.closure = node, closure


class NativeFn:
    """a callable value supplied by a library contract (e.g. joblib's Parallel(...) object, delayed(f)): fn(E, st, args, kwargs, node)"""

    def __init__(self, name, fn):
        self.name, self.fn = name, fn


class BoundMethod:
    def __init__(self, recv, name):
        self.recv, self.name = recv, name


class SuperProxy:
    pass


class ModuleVal:
    def __init__(self, name):
        self.name = name

    def __repr__(self):
        return f"Module({self.name})"


class State:
    def __init__(self):
        self.env = {}
        self.heap = {}
        self.pc = []
        self.events = []
        self.notes = []
        self.replay = {}
        self.log = {}
        self.br = {}        # branch variables of opaque conditions, per AST node (stable under re-execution of a statement)

    def fork(self):
        s = State()
        s.env = dict(self.env)
        s.heap = dict(self.heap)   # data objects are replaced, never mutated in place
        s.pc = list(self.pc)
        s.events = list(self.events)
        s.notes = list(self.notes)
        s.replay = dict(self.replay)
        s.log = dict(self.log)
        s.br = dict(self.br)
        return s

    def alloc(self, data):
        r = Ref(next(_counter))
        self.heap[r.id] = data
        return r

    def get(self, ref):
        return self.heap[ref.id]

    def put(self, ref, data):
        self.heap[ref.id] = data

    def assume(self, *fs):
        for f in fs:
            if isinstance(f, bool):
                if not f:
                    self.pc.append(z3.BoolVal(False))
            else:
                self.pc.append(f)


class _Bottom:
    """value of an impossible position (e.g. an element of an empty list)"""

    def __repr__(self):
        return "BOTTOM"


BOTTOM = _Bottom()


# --------------------------------------------------------------------------- scalar helpers
def is_z3(v):
    return isinstance(v, z3.ExprRef)


def is_int_like(v):
    return (isinstance(v, (bool, int)) and not isinstance(v, float)) or (is_z3(v) and (z3.is_int(v) or z3.is_bool(v)))


def to_int(v):
    if v is BOTTOM:
        return fresh("bottom", I)
    if isinstance(v, bool):
        return z3.IntVal(int(v))
    if isinstance(v, int):
        return z3.IntVal(v)
    if is_z3(v):
        if z3.is_int(v):
            return v
        if z3.is_bool(v):
            return z3.If(v, z3.IntVal(1), z3.IntVal(0))
    raise Unsupported(f"to_int({v!r})")


def to_real(v):
    """-> (nan, real)"""
    if v is BOTTOM:
        return z3.BoolVal(False), fresh("bottom", R)
    if isinstance(v, FV):
        return v.nan, v.val
    if isinstance(v, bool):
        return z3.BoolVal(False), z3.RealVal(int(v))
    if isinstance(v, int):
        return z3.BoolVal(False), z3.RealVal(v)
    if isinstance(v, float):
        if v != v:
            return z3.BoolVal(True), z3.RealVal(0)
        if v in (float("inf"), float("-inf")):
            raise Unsupported("infinite float constant")
        return z3.BoolVal(False), z3.RealVal(repr(v))
    if is_z3(v):
        if z3.is_real(v):
            return z3.BoolVal(False), v
        if z3.is_int(v):
            return z3.BoolVal(False), z3.ToReal(v)
        if z3.is_bool(v):
            return z3.BoolVal(False), z3.If(v, z3.RealVal(1), z3.RealVal(0))
    raise Unsupported(f"to_real({v!r})")


def is_scalar(v):
    return isinstance(v, (bool, int, float, FV)) or (is_z3(v) and (z3.is_int(v) or z3.is_real(v) or z3.is_bool(v)))


def is_concrete(v):
    if isinstance(v, tuple):
        return all(is_concrete(x) for x in v)          # a tuple with a symbolic element is not a concrete value
    return v is None or isinstance(v, (bool, int, float, str, type(Ellipsis)))


def truth(v):
    """python bool or z3 Bool"""
    if isinstance(v, bool):
        return v
    if v is None:
        return False
    if isinstance(v, (int, float)):
        return v != 0
    if isinstance(v, str):
        return len(v) > 0
    if isinstance(v, tuple):
        return len(v) > 0
    if isinstance(v, FV):
        return z3.Or(v.nan, v.val != 0)
    if is_z3(v):
        if z3.is_bool(v):
            return v
        return v != 0
    raise Unsupported(f"truth of {v!r}")


def z3bool(b):
    return z3.BoolVal(b) if isinstance(b, bool) else b


_ARITH = {ast.Add: lambda a, b: a + b, ast.Sub: lambda a, b: a - b, ast.Mult: lambda a, b: a * b}


def scalar_binop(op, l, r, st):
    if is_concrete(l) and is_concrete(r) and not isinstance(l, (str, tuple)) and not isinstance(r, (str, tuple)) \
            and l is not None and r is not None:
        try:
            if isinstance(op, ast.Add): return l + r
            if isinstance(op, ast.Sub): return l - r
            if isinstance(op, ast.Mult): return l * r
            if isinstance(op, ast.Div): return l / r
            if isinstance(op, ast.FloorDiv): return l // r
            if isinstance(op, ast.Mod): return l % r
            if isinstance(op, ast.Pow): return l ** r
        except ZeroDivisionError:
            raise Unsupported("concrete division by zero")
    if isinstance(l, (str, tuple)) and isinstance(r, (str, tuple)) and isinstance(op, ast.Add):
        return l + r
    if isinstance(op, ast.Mult) and (_isbool(l) != _isbool(r)) and not (is_concrete(l) and is_concrete(r)):
        # number * bool is a selection, not a multiplication (keeps the VC linear)
        bv, x = (l, r) if _isbool(l) else (r, l)
        if is_int_like(x):
            return z3.If(z3bool(bv), to_int(x), z3.IntVal(0))
        nx, vx = to_real(x)
        return mk_fv(z3.And(z3bool(bv), nx) if False else nx, z3.If(z3bool(bv), vx, z3.RealVal(0)))
    if type(op) in _ARITH:
        if is_int_like(l) and is_int_like(r):
            return _ARITH[type(op)](to_int(l), to_int(r))
        nl, vl = to_real(l)
        nr, vr = to_real(r)
        return mk_fv(z3.Or(nl, nr), _ARITH[type(op)](vl, vr))
    if isinstance(op, ast.Div):
        nl, vl = to_real(l)
        nr, vr = to_real(r)
        st.notes.append("div")
        # float semantics: 0/0 is NaN; x/0 (x != 0) is +-inf, which the encoding leaves as an unspecified real
        return mk_fv(z3.Or(nl, nr, z3.And(vr == 0, vl == 0)), vl / vr)
    if isinstance(op, ast.Pow) and isinstance(r, int) and r == 2:
        return scalar_binop(ast.Mult(), l, l, st)
    if isinstance(op, (ast.FloorDiv, ast.Mod)) and is_int_like(l) and is_int_like(r):
        a, b = to_int(l), to_int(r)
        return a / b if isinstance(op, ast.FloorDiv) else a % b
    raise Unsupported(f"binop {type(op).__name__} on {l!r},{r!r}")


def scalar_compare(op, l, r):
    if isinstance(op, (ast.Is, ast.IsNot)):
        if r is None or l is None:
            res = (l is None and r is None)
            return res if isinstance(op, ast.Is) else not res
        if is_concrete(l) and is_concrete(r):
            return (l is r) if isinstance(op, ast.Is) else (l is not r)
        raise Unsupported("is on symbolic values")
    if is_concrete(l) and is_concrete(r):
        try:
            return {ast.Eq: lambda: l == r, ast.NotEq: lambda: l != r, ast.Lt: lambda: l < r, ast.LtE: lambda: l <= r,
                    ast.Gt: lambda: l > r, ast.GtE: lambda: l >= r, ast.In: lambda: l in r, ast.NotIn: lambda: l not in r}[type(op)]()
        except TypeError:
            raise Unsupported("concrete compare")
    if isinstance(l, tuple) and isinstance(r, tuple) and isinstance(op, (ast.Eq, ast.NotEq)):
        # tuples (e.g. shapes) with symbolic entries: equal iff same length and all entries equal
        if len(l) != len(r):
            return isinstance(op, ast.NotEq)
        parts = [scalar_compare(ast.Eq(), x, y) for x, y in zip(l, r)]
        if any(p is False for p in parts):
            return isinstance(op, ast.NotEq)
        sym = [p for p in parts if p is not True]
        eq = z3.And(*sym) if sym else True
        if isinstance(op, ast.Eq):
            return eq
        return (not eq) if isinstance(eq, bool) else z3.Not(eq)
    if isinstance(l, str) or isinstance(r, str) or l is None or r is None:
        if isinstance(op, ast.Eq):
            return False
        if isinstance(op, ast.NotEq):
            return True
        raise Unsupported("compare str/None with symbolic")
    if is_z3(l) and is_z3(r) and z3.is_bool(l) and z3.is_bool(r) and isinstance(op, (ast.Eq, ast.NotEq)):
        return l == r if isinstance(op, ast.Eq) else l != r
    if is_int_like(l) and is_int_like(r):
        a, b = to_int(l), to_int(r)
        nl = nr = z3.BoolVal(False)
    else:
        nl, a = to_real(l)
        nr, b = to_real(r)
    table = {ast.Eq: lambda: a == b, ast.Lt: lambda: a < b, ast.LtE: lambda: a <= b, ast.Gt: lambda: a > b, ast.GtE: lambda: a >= b}
    if type(op) in table:
        return z3.simplify(z3.And(z3.Not(nl), z3.Not(nr), table[type(op)]()))
    if isinstance(op, ast.NotEq):
        return z3.simplify(z3.Or(nl, nr, a != b))
    raise Unsupported(f"compare {type(op).__name__}")


def _ite_any(c, a, b):
    """ite that also covers opaque values (labels, samples)"""
    if isinstance(a, Opaque) and isinstance(b, Opaque):
        return Opaque("ite", z3.If(c, a.sym, b.sym))
    if isinstance(a, Opaque) or isinstance(b, Opaque):
        return Opaque("ite")
    return ite(c, a, b)


def ite(c, a, b):
    """value-level if-then-else"""
    if isinstance(c, bool):
        return a if c else b
    if a is b:
        return a
    if a is BOTTOM:
        return b
    if b is BOTTOM:
        return a
    if isinstance(a, FV) or isinstance(b, FV) or (is_scalar(a) and is_scalar(b) and not (is_int_like(a) and is_int_like(b))
                                                   and not (_isbool(a) and _isbool(b))):
        na, va = to_real(a)
        nb, vb = to_real(b)
        return mk_fv(z3.If(c, na, nb), z3.If(c, va, vb))
    if _isbool(a) and _isbool(b):
        return z3.If(c, z3bool(a), z3bool(b))
    if is_int_like(a) and is_int_like(b):
        return z3.If(c, to_int(a), to_int(b))
    raise Unsupported(f"ite on {a!r},{b!r}")


def _isbool(v):
    return isinstance(v, bool) or (is_z3(v) and z3.is_bool(v))


def kind_of(v):
    if _isbool(v):
        return "b"
    if is_int_like(v):
        return "i"
    if is_scalar(v):
        return "f"
    return "o"


SORT = {"b": B, "i": I, "f": R}


def fresh_sel(base, kind, ndim=1):
    """a fresh unconstrained element function of the given kind"""
    if kind == "f":
        fv = fresh_fn(base + "_val", *([I] * ndim), R)
        fn = fresh_fn(base + "_nan", *([I] * ndim), B)
        return lambda *i: mk_fv(fn(*i), fv(*i))
    if kind in ("b", "i"):
        f = fresh_fn(base, *([I] * ndim), SORT[kind])
        return lambda *i: f(*i)
    f = fresh_fn(base, *([I] * ndim), USort)
    return lambda *i: Opaque(base, f(*i))


# --------------------------------------------------------------------------- the executor
class Outcome:
    def __init__(self, kind, state, value=None):
        self.kind, self.state, self.value = kind, state, value   # kind: normal | return | raise | break | continue


class Engine:
    """One Engine per verified function. `handlers`: call contracts keyed by name;
    `loop_specs`: {'loop0': LoopSpec} keyed by loop ordinal in the function being verified."""

    def __init__(self, repo, cls=None, file=None, lib=None, loop_specs=None, inline=(), max_paths=4000,
                 feas_timeout_ms=300):
        self.repo, self.cls, self.file = repo, cls, file
        self.lib = lib
        self.loop_specs = loop_specs or {}
        self.inline = set(inline)
        self.obligations = []     # dicts: name, pc, goal, meta
        self.abstracted = set()
        self.dropped = set()
        self.max_paths = max_paths
        self.paths = 0
        self.loop_counter = None
        self.feas_timeout_ms = feas_timeout_ms
        self.cur_cls_stack = []
        self.probing = 0
        self.reached = set()
        self.axiom_instances = []   # instances of universally valid library axioms (added to every obligation)

    def axiom(self, f):
        self.axiom_instances.append(f)

    # ------------------------------------------------------------------ obligations
    def oblige(self, name, st_or_pc, goal, **meta):
        if self.probing:
            return
        pc = st_or_pc.pc if isinstance(st_or_pc, State) else st_or_pc
        if isinstance(goal, bool):
            goal = z3.BoolVal(goal)
        if "concretize" not in meta and getattr(self, "default_concretize", None) is not None:
            meta["concretize"] = self.default_concretize      # counter-model -> concrete call of the real function (pyvc/cex.py)
        self.obligations.append({"name": name, "pc": list(pc) + list(self.axiom_instances), "goal": goal, "meta": meta})

    def feasible(self, st, extra=None):
        s = z3.Solver()
        s.set("timeout", self.feas_timeout_ms)
        s.add(*st.pc)
        s.add(*self.axiom_instances)
        if extra is not None:
            s.add(extra)
        return s.check() != z3.unsat

    # ------------------------------------------------------------------ running a function
    def run_function(self, fn, st, args, kwargs=None, cls=None, closure=None):
        """bind parameters and execute the body; returns list of Outcome (return/raise)"""
        kwargs = dict(kwargs or {})
        params = fn.args.args
        env = dict(closure) if closure else {}      # a nested function reads the variables of the defining scope
        pos = list(args)
        names = [a.arg for a in params]
        defaults = fn.args.defaults
        defmap = {}
        for a, d in zip(names[len(names) - len(defaults):], defaults):
            defmap[a] = d
        for a in names:
            if pos:
                env[a] = pos.pop(0)
            elif a in kwargs:
                env[a] = kwargs.pop(a)
            elif a in defmap:
                env[a] = self.eval(defmap[a], st)
            else:
                raise Unsupported(f"missing argument {a} for {fn.name}")
        if fn.args.vararg:
            env[fn.args.vararg.arg] = tuple(pos)
            pos = []
        for a, d in zip(fn.args.kwonlyargs, fn.args.kw_defaults):
            if a.arg in kwargs:
                env[a.arg] = kwargs.pop(a.arg)
            elif d is not None:
                env[a.arg] = self.eval(d, st)
            else:
                raise Unsupported(f"missing kwonly {a.arg}")
        if fn.args.kwarg:
            kd = st.alloc(DictData({k: v for k, v in kwargs.items()}))
            env[fn.args.kwarg.arg] = kd
            kwargs = {}
        if pos or kwargs:
            raise Unsupported(f"too many arguments for {fn.name}: {pos} {kwargs}")
        saved_env = st.env
        st.env = env
        self.cur_cls_stack.append(cls)
        saved_lc, saved_prefix = self.loop_counter, getattr(self, "loop_prefix", "")
        if len(self.cur_cls_stack) > 1:
            self.loop_counter = itertools.count(0)
            self.loop_prefix = f"{cls}.{fn.name}." if cls else f"{fn.name}."
        try:
            outs = self.exec_block(fn.body, st)
        finally:
            self.cur_cls_stack.pop()
            self.loop_counter, self.loop_prefix = saved_lc, saved_prefix
        res = []
        for o in outs:
            if o.kind == "normal":
                o = Outcome("return", o.state, None)
            if o.kind in ("break", "continue"):
                raise EngineError("break/continue outside loop")
            o.state.env = saved_env if o.state is st else dict(saved_env)
            res.append(o)
        return res

    def verify(self, fn, st, args, kwargs=None, cls=None):
        """top-level entry: loops of *this* function are numbered loop0, loop1, ..."""
        self.loop_counter = itertools.count(0)
        self.loop_prefix = ""
        self.top_fn = fn
        return self.run_function(fn, st, args, kwargs, cls=cls)

    # ------------------------------------------------------------------ statements
    def exec_block(self, stmts, st):
        """-> list[Outcome]"""
        outs = [Outcome("normal", st)]
        for s in stmts:
            nxt = []
            for o in outs:
                if o.kind != "normal":
                    nxt.append(o)
                    continue
                nxt.extend(self.exec_stmt(s, o.state))
            outs = nxt
            if len(outs) > self.max_paths:
                raise Unsupported(f"path explosion (> {self.max_paths})")
            if not outs:
                break
        return outs

    def exec_stmt(self, s, st):
        m = getattr(self, "stmt_" + type(s).__name__, None)
        if m is None:
            raise Unsupported(f"statement {type(s).__name__}: {unparse(s)[:60]}")
        st.log = {}
        try:
            return m(s, st)
        except _Raise as r:
            return [Outcome("raise", r.state or st, r.exc)]
        except _Fork as f:
            # an expression needed a case split: re-run the statement on each alternative;
            # calls already performed in this statement are replayed from the log, not repeated
            outs = []
            for alt in f.alts:
                outs.extend(self.exec_stmt(s, alt))
            return outs
        except _CallFork as f:
            outs = []
            for alt in f.alts:
                if alt.exc is not None:
                    outs.append(Outcome("raise", alt.state, alt.exc))
                else:
                    outs.extend(self.exec_stmt(s, alt.state))
            return outs

    def stmt_Pass(self, s, st):
        return [Outcome("normal", st)]

    def stmt_Expr(self, s, st):
        if isinstance(s.value, ast.Constant):
            return [Outcome("normal", st)]
        self.eval(s.value, st)
        return [Outcome("normal", st)]

    def stmt_Import(self, s, st):
        return [Outcome("normal", st)]

    stmt_ImportFrom = stmt_Import

    def stmt_Assign(self, s, st):
        v = self.eval(s.value, st)
        for t in s.targets:
            self.assign(t, v, st)
        return [Outcome("normal", st)]

    def stmt_AnnAssign(self, s, st):
        if s.value is not None:
            self.assign(s.target, self.eval(s.value, st), st)
        return [Outcome("normal", st)]

    def stmt_AugAssign(self, s, st):
        cur = self.eval(_load(s.target), st)
        v = self.eval(s.value, st)
        if isinstance(cur, Ref) and isinstance(st.get(cur), ArrData) and not isinstance(s.target, ast.Subscript):
            # in-place array op: the object is mutated (aliases see it)
            new = self.binop(s.op, cur, v, st)
            if isinstance(new, Ref):
                st.put(cur, st.get(new))
            else:
                d = st.get(cur)
                st.put(cur, ArrData(d.shape, fresh_sel("aug", d.kind, d.ndim), d.kind))   # unknown operand: contents unknown
            return [Outcome("normal", st)]
        self.assign(s.target, self.binop(s.op, cur, v, st), st)
        return [Outcome("normal", st)]

    def stmt_Return(self, s, st):
        v = self.eval(s.value, st) if s.value is not None else None
        return [Outcome("return", st, v)]

    def stmt_Raise(self, s, st):
        name = "Exception"
        if s.exc is not None:
            e = s.exc
            if isinstance(e, ast.Call):
                e = e.func
            name = unparse(e)
        return [Outcome("raise", st, name)]

    def stmt_Assert(self, s, st):
        return [Outcome("normal", st)]

    def stmt_FunctionDef(self, s, st):
        st.env[s.name] = FuncVal(s, st.env)
        return [Outcome("normal", st)]

    def stmt_With(self, s, st):
        self.dropped.add("with " + unparse(s.items[0].context_expr)[:40])
        return self.exec_block(s.body, st)

    def stmt_If(self, s, st):
        c = self.cond(s.test, st)
        return self.branch(c, st, lambda a: self.exec_block(s.body, a), lambda b: self.exec_block(s.orelse, b))

    def branch(self, c, st, then, orelse):
        if isinstance(c, bool):
            return then(st) if c else orelse(st)
        c = z3.simplify(c)
        if z3.is_true(c):
            return then(st)
        if z3.is_false(c):
            return orelse(st)
        outs = []
        a = st.fork()
        a.pc.append(c)
        if self.feasible(a):
            outs += then(a)
        b = st
        b.pc.append(z3.Not(c))
        if self.feasible(b):
            outs += orelse(b)
        return outs

    def cond(self, e, st):
        v = self.eval(e, st)
        if isinstance(v, Opaque):
            self.abstracted.add("branch on opaque: " + unparse(e)[:60])
            if id(e) not in st.br:
                st.br[id(e)] = fresh("br", B)
            return st.br[id(e)]
        if isinstance(v, Ref):
            d = st.get(v)
            if isinstance(d, ListData):
                return truth(z3.simplify(d.n > 0)) if is_z3(d.n) else d.n > 0
            if isinstance(d, ArrData) and d.ndim == 0:
                return truth(d.sel())
            if isinstance(d, (ObjData, RngData)):
                return True
            raise Unsupported("truth value of array")
        return truth(v)

    def stmt_Try(self, s, st):
        outs = self.exec_block(s.body, st)
        res = []
        for o in outs:
            if o.kind == "raise":
                h = self.match_handler(s.handlers, o.value)
                if h is not None:
                    if h.name:
                        o.state.env[h.name] = Opaque("exception")
                    res.extend(self.exec_block(h.body, o.state))
                    continue
            elif o.kind == "normal" and s.orelse:
                res.extend(self.exec_block(s.orelse, o.state))
                continue
            res.append(o)
        if s.finalbody:
            fin = []
            for o in res:
                for f in self.exec_block(s.finalbody, o.state):
                    fin.append(o if f.kind == "normal" else f)
            res = fin
        return res

    def match_handler(self, handlers, excname):
        for h in handlers:
            if h.type is None:
                return h
            names = [unparse(t) for t in (h.type.elts if isinstance(h.type, ast.Tuple) else [h.type])]
            if "Exception" in names or "BaseException" in names or excname in names or excname == "*":
                return h
        return None

    # ------------------------------------------------------------------ loops
    def stmt_For(self, s, st):
        if s.orelse:
            raise Unsupported("for-else")
        # a loop statement keeps its label on every path that reaches it (labels follow the order of first encounter)
        self._loop_labels = getattr(self, "_loop_labels", {})
        if id(s) not in self._loop_labels:
            self._loop_labels[id(s)] = self.next_loop_label()
        label = self._loop_labels[id(s)]
        header = f"for {unparse(s.target)} in {unparse(s.iter)}"
        self.loop_headers = getattr(self, "loop_headers", {})
        self.loop_headers[label] = header
        exp = getattr(self, "expected_headers", None)
        if exp is not None and label in self.loop_specs and exp.get(label) not in (None, header):
            # the loop this specification was written for is identified by its position AND its header on the validated tree; another
            # loop in its place means the contract does not describe this code any more (a lost proof, never a violation)
            raise Unsupported(f"loop structure changed: {label} is now `{header}`, the contract was written for `{exp.get(label)}`")
        self._cur_for = s
        it = self.iter_spec(s.iter, st)
        spec = self.loop_specs.get(label)
        n = it["n"]
        # concrete small trip count and no invariant -> unroll
        if spec is None and isinstance(n, int) and n <= 3:
            outs = [Outcome("normal", st)]
            for k in range(n):
                nxt = []
                for o in outs:
                    if o.kind != "normal":
                        nxt.append(o)
                        continue
                    it["bind"](o.state, k)
                    for b in self.exec_block(s.body, o.state):
                        if b.kind == "continue":
                            b = Outcome("normal", b.state)
                        nxt.append(b)
                outs = nxt
            res = []
            for o in outs:
                res.append(Outcome("normal", o.state) if o.kind == "break" else o)
            return res
        return self.cut_loop(label, s, st, it, spec)

    def next_loop_label(self):
        if self.loop_counter is None:
            return None
        return f"{getattr(self, 'loop_prefix', '')}loop{next(self.loop_counter)}"

    def assigned_names(self, body):
        names, mutated = set(), set()
        for node in body:
            for x in ast.walk(node):
                if isinstance(x, ast.Name) and isinstance(x.ctx, ast.Store):
                    names.add(x.id)
                if isinstance(x, (ast.Assign, ast.AugAssign)):
                    tg = x.targets if isinstance(x, ast.Assign) else [x.target]
                    for t in tg:
                        base = t
                        while isinstance(base, (ast.Subscript, ast.Attribute)):
                            if isinstance(base, ast.Subscript) or isinstance(base, ast.Attribute):
                                mutated.add(unparse(base.value))
                            base = base.value
                if isinstance(x, ast.AugAssign) and isinstance(x.target, ast.Name):
                    mutated.add(x.target.id)
                if isinstance(x, ast.Call) and isinstance(x.func, ast.Attribute):
                    mutated.add(unparse(x.func.value))   # any method call may mutate its receiver
        return names, mutated

    def havoc_value(self, v, st, hint):
        """a fresh value of the same shape/kind as v"""
        if isinstance(v, Ref):
            d = st.get(v)
            if hasattr(d, "havoc"):
                return ("heap", d.havoc(hint))      # data types defined by a contract (e.g. a bounded deque) keep their type
            if isinstance(d, ListData):
                return ("heap", ListData(fresh(hint + "_n", I), fresh_sel(hint, d.kind or "o"), d.kind))
            if isinstance(d, ArrData):
                return ("heap", ArrData(d.shape, fresh_sel(hint, d.kind, d.ndim), d.kind))
            if isinstance(d, RngData):
                return ("heap", RngData(d.stream, fresh(hint + "_pos", I), fresh(hint + "_aux", I)))
            if isinstance(d, ObjData):
                return ("keep", None)
            return ("keep", None)
        if isinstance(v, FV) or (is_z3(v) and z3.is_real(v)) or isinstance(v, float):
            return ("val", fresh(hint, R))
        if _isbool(v):
            return ("val", fresh(hint, B))
        if is_int_like(v):
            return ("val", fresh(hint, I))
        return ("val", Opaque("havoc:" + hint))

    def cut_loop(self, label, s, st, it, spec):
        """loop as a cut point with invariant `spec.inv(engine, state, k)` (list of formulas)"""
        names, mutated = self.assigned_names(s.body)
        self._resized_in_loop = self.resized_names(s.body)
        selfref0 = st.env.get("self")
        cls0 = st.get(selfref0).cls if isinstance(selfref0, Ref) and isinstance(st.heap.get(selfref0.id), ObjData) else None
        self._loop_self_writes = self.self_writes_of_body(s.body, cls0) | set(spec.self_writes if spec else ())
        tnames = set()
        for x in ast.walk(s.target):
            if isinstance(x, ast.Name):
                tnames.add(x.id)
        n = it["n"]
        nz = to_int(n)
        inv = (spec.inv if spec is not None else None)
        if inv is None:
            # no invariant: everything the loop may assign is havocked; counter-models that pass through here may be spurious
            self.abstracted.add("loop without invariant (state havocked): for " + unparse(s.target) + " in " + unparse(s.iter)[:60])
        # kinds of lists that are still untyped: probe the body once
        self.probe_kinds(s, st, it)
        # 1. invariant holds on entry
        if inv is not None:
            for nm, f in inv(self, st, z3.IntVal(0), None):
                self.oblige(f"{label}.inv.entry.{nm}", st, f, loop=label)
        pre = st.fork()
        # 2. arbitrary iteration
        k = fresh("k", I)
        body_st = st.fork()
        self.havoc_for_loop(body_st, names, mutated, tnames, label)
        body_st.assume(k >= 0, k < nz)
        if inv is not None:
            for nm, f in inv(self, body_st, k, pre):
                body_st.assume(f)
        if spec is not None and spec.on_iter is not None:
            spec.on_iter(self, body_st, k)
        head = body_st.fork()
        it["bind"](body_st, k)
        self.reached.add(label)
        outs_after = []
        if self.feasible(body_st):
            for b in self.exec_block(s.body, body_st):
                if b.kind in ("normal", "continue"):
                    if spec is not None and spec.end_assume is not None:
                        spec.end_assume(self, head, b.state, k)
                    if inv is not None:
                        for nm, f in inv(self, b.state, k + 1, pre):
                            self.oblige(f"{label}.inv.preserved.{nm}", b.state, f, loop=label)
                    if spec is not None and spec.step is not None:
                        for nm, f in spec.step(self, head, b.state, k):
                            self.oblige(f"{label}.step.{nm}", b.state, f, loop=label)
                elif b.kind == "break":
                    raise Unsupported("break in cut loop")
                else:
                    outs_after.append(b)   # return / raise from inside the loop
        # 3. after the loop
        exit_st = st
        self.havoc_for_loop(exit_st, names, mutated, tnames, label + "x")
        if inv is not None:
            for nm, f in inv(self, exit_st, nz, pre):
                exit_st.assume(f)
        # loop variables keep their last value: unknown
        outs_after.append(Outcome("normal", exit_st))
        return outs_after

    def probe_kinds(self, s, st, it):
        untyped = [(k, v) for k, v in st.env.items() if isinstance(v, Ref) and isinstance(st.heap.get(v.id), ListData)
                   and st.get(v).kind is None]
        if not untyped:
            return
        p = st.fork()
        self.probing += 1
        saved_lc = self.loop_counter
        self.loop_counter = None
        try:
            it["bind"](p, fresh("kp", I))
            outs = self.exec_block(s.body, p)
            for o in outs:
                for k, v in untyped:
                    d = o.state.heap.get(v.id)
                    if isinstance(d, ListData) and d.kind is not None:
                        cur = st.get(v)
                        st.put(v, ListData(cur.n, cur.sel, d.kind))
        except (Unsupported, _Raise):
            pass
        finally:
            self.probing -= 1
            self.loop_counter = saved_lc

    RESHAPING_CALLS = {"delete", "append", "concatenate", "union1d", "setdiff1d", "intersect1d", "unique", "vstack", "insert", "compress"}

    def resized_names(self, body):
        """names that the loop body rebinds to an array of possibly different length: `a = np.delete(a, ..)`, `a = np.append(a, ..)`,
        `a = a[mask_or_index_array]` ... -- their first dimension is havocked too (an invariant has to bound it)"""
        out = set()
        for node in body:
            for x in ast.walk(node):
                if isinstance(x, ast.Assign) and len(x.targets) == 1 and isinstance(x.targets[0], ast.Name):
                    nm, v = x.targets[0].id, x.value
                    if isinstance(v, ast.Call) and unparse(v.func).split(".")[-1] in self.RESHAPING_CALLS:
                        out.add(nm)
                    elif isinstance(v, ast.Subscript) and isinstance(v.value, ast.Name) and v.value.id == nm \
                            and not isinstance(v.slice, (ast.Constant, ast.Tuple)):
                        out.add(nm)
        return out

    def havoc_for_loop(self, st, names, mutated, tnames, hint):
        done = set()
        resized = getattr(self, "_resized_in_loop", set())
        for nm in sorted(names | {m for m in mutated if m in st.env}):
            if nm in tnames or nm not in st.env:
                continue
            v = st.env[nm]
            how, nv = self.havoc_value(v, st, f"{nm}@{hint}")
            if how == "heap" and nm in resized and isinstance(nv, ArrData) and type(nv) is ArrData and nv.ndim >= 1:
                n0 = fresh(f"{nm}@{hint}_len", I)
                st.assume(n0 >= 0)
                nv = ArrData((n0,) + tuple(nv.shape[1:]), nv.sel, nv.kind)
            if how == "val":
                st.env[nm] = nv
            elif how == "heap":
                if nm in names and not self._only_mutated(nm, names, mutated):
                    # rebound in the loop: fresh object
                    st.env[nm] = st.alloc(nv)
                else:
                    st.put(v, nv)
                done.add(v.id)
        # attributes of self mutated in the body (self.x = ..., self.x.append)
        for m in sorted(mutated):
            if m.startswith("self.") and m.count(".") == 1:
                pass
        self.havoc_self_fields(st, hint)

    def _only_mutated(self, nm, names, mutated):
        return False

    def self_writes_of_body(self, body, cls, seen=None):
        """attributes of self that the statements may write or mutate (transitively through self.m()/super().m())"""
        seen = seen if seen is not None else set()
        wr = set()
        for node in body:
            for x in ast.walk(node):
                tg = []
                if isinstance(x, ast.Assign):
                    tg = x.targets
                elif isinstance(x, (ast.AugAssign, ast.AnnAssign)):
                    tg = [x.target]
                elif isinstance(x, (ast.For,)):
                    tg = [x.target]
                for t in tg:
                    for y in ast.walk(t):
                        if isinstance(y, ast.Attribute) and isinstance(y.value, ast.Name) and y.value.id == "self":
                            wr.add(y.attr)
                if isinstance(x, ast.Call) and isinstance(x.func, ast.Attribute):
                    r = x.func.value
                    if isinstance(r, ast.Attribute) and isinstance(r.value, ast.Name) and r.value.id == "self":
                        wr.add(r.attr)            # self.attr.method(...): receiver may be mutated
                    callee = None
                    if isinstance(r, ast.Name) and r.id == "self":
                        callee = (cls, x.func.attr, None)
                    elif isinstance(r, ast.Call) and isinstance(r.func, ast.Name) and r.func.id == "super":
                        callee = (cls, x.func.attr, self.cur_cls_stack[-1] if self.cur_cls_stack else None)
                    if callee and cls and self.repo.has_cls(cls):
                        key = callee
                        if key in seen:
                            continue
                        seen.add(key)
                        ci, m = self.repo.resolve_method(cls, callee[1], after=callee[2])
                        if m is not None:
                            saved = self.cur_cls_stack
                            self.cur_cls_stack = saved + [ci.name]
                            try:
                                wr |= self.self_writes_of_body(m.body, cls, seen)
                            finally:
                                self.cur_cls_stack = saved
                    # self passed to a function: unknown writes
        return wr

    def havoc_self_fields(self, st, hint):
        wr = getattr(self, "_loop_self_writes", None)
        if not wr:
            return
        selfref = st.env.get("self")
        if not isinstance(selfref, Ref):
            return
        od = st.get(selfref)
        nf = dict(od.fields)
        for a in wr:
            if a in nf:
                how, nv = self.havoc_value(nf[a], st, f"self.{a}@{hint}")
                if how == "val":
                    nf[a] = nv
                elif how == "heap":
                    st.put(nf[a], nv)
        st.put(selfref, ObjData(od.cls, nf))

    def stmt_While(self, s, st):
        raise Unsupported("while loop")

    def stmt_Break(self, s, st):
        return [Outcome("break", st)]

    def stmt_Continue(self, s, st):
        return [Outcome("continue", st)]

    def iter_spec(self, e, st):
        """-> {'n': trip count, 'bind': fn(state,k) binding the loop target(s)}"""
        target = None

        def elem_of(v, st, k):
            if isinstance(v, tuple):
                if isinstance(k, int):
                    return v[k]
                raise Unsupported("symbolic index into tuple")
            if isinstance(v, Ref):
                d = st.get(v)
                if isinstance(d, ListData):
                    return d.sel(to_int(k))
                if isinstance(d, ArrData):
                    if d.ndim == 1:
                        return d.sel(to_int(k))
                    sub = ArrData(d.shape[1:], (lambda kk: (lambda *i: d.sel(kk, *i)))(to_int(k)), d.kind)
                    return st.alloc(sub)
            if isinstance(v, Opaque):
                return Opaque("elem")
            raise Unsupported(f"iterate over {v!r}")

        def length(v, st):
            if isinstance(v, tuple):
                return len(v)
            if isinstance(v, Ref):
                d = st.get(v)
                if isinstance(d, ListData):
                    return d.n
                if isinstance(d, ArrData):
                    return d.shape[0]
            if isinstance(v, Opaque):
                n = fresh("n_it", I)
                st.assume(n >= 0)
                return n
            raise Unsupported(f"len of {v!r}")
        loopnode = self._cur_for
        tgt = loopnode.target
        if isinstance(e, ast.Call) and isinstance(e.func, ast.Name) and e.func.id == "range" and len(e.args) in (1, 2):
            if len(e.args) == 1:
                lo, hi = 0, self.eval(e.args[0], st)
            else:
                lo, hi = self.eval(e.args[0], st), self.eval(e.args[1], st)
            if isinstance(lo, int) and isinstance(hi, int):
                n = max(0, hi - lo)
            else:
                n = z3.If(to_int(hi) >= to_int(lo), to_int(hi) - to_int(lo), z3.IntVal(0))
                n = z3.simplify(n)
            return {"n": n, "bind": lambda s2, k: self.assign(tgt, scalar_binop(ast.Add(), lo, k, s2), s2)}
        if isinstance(e, ast.Call) and isinstance(e.func, ast.Name) and e.func.id == "enumerate" and len(e.args) == 1:
            v = self.eval(e.args[0], st)
            n = length(v, st)
            return {"n": n, "bind": lambda s2, k: self.assign(tgt, (k, elem_of(v, s2, k)), s2)}
        if isinstance(e, ast.Call) and isinstance(e.func, ast.Name) and e.func.id == "zip":
            vs = [self.eval(a, st) for a in e.args]
            ns = [length(v, st) for v in vs]
            n = ns[0]
            for m in ns[1:]:
                if not (isinstance(n, int) and isinstance(m, int) and n == m):
                    st.notes.append("zip: equal lengths assumed")
                    if not isinstance(n, int) or not isinstance(m, int):
                        st.assume(to_int(n) == to_int(m))
            return {"n": n, "bind": lambda s2, k: self.assign(tgt, tuple(elem_of(v, s2, k) for v in vs), s2)}
        v = self.eval(e, st)
        n = length(v, st)
        return {"n": n, "bind": lambda s2, k: self.assign(tgt, elem_of(v, s2, k), s2)}

    # wrap stmt_For to know the node inside iter_spec
    def exec_stmt_for(self, s, st):
        pass

    # ------------------------------------------------------------------ assignment
    def assign(self, t, v, st):
        if isinstance(t, ast.Name):
            st.env[t.id] = v
            return
        if isinstance(t, (ast.Tuple, ast.List)):
            if isinstance(v, tuple):
                if len(v) != len(t.elts):
                    raise Unsupported("unpack length mismatch")
                for a, b in zip(t.elts, v):
                    self.assign(a, b, st)
                return
            if isinstance(v, Opaque):
                for a in t.elts:
                    self.assign(a, Opaque("unpack:" + v.tag), st)
                return
            if isinstance(v, Ref) and isinstance(st.get(v), ArrData) and st.get(v).ndim == 1:
                d = st.get(v)
                for i, a in enumerate(t.elts):
                    self.assign(a, d.sel(z3.IntVal(i)), st)
                return
            raise Unsupported(f"unpack of {v!r}")
        if isinstance(t, ast.Attribute):
            base = self.eval(t.value, st)
            if isinstance(base, Ref) and isinstance(st.get(base), ObjData):
                od = st.get(base)
                nf = dict(od.fields)
                nf[t.attr] = v
                st.put(base, ObjData(od.cls, nf))
                st.events.append(("setattr", base.id, t.attr))
                return
            if isinstance(base, Opaque):
                st.events.append(("setattr-opaque", base.tag, t.attr))
                return
            raise Unsupported(f"attribute store on {base!r}")
        if isinstance(t, ast.Subscript):
            inner = t.value
            if isinstance(inner, ast.Subscript) and isinstance(inner.slice, ast.Slice) and inner.slice.step is None:
                # A[lo:hi][...] = v: a basic slice is a VIEW -- store into the view, then write the view back into A
                outer = self.eval(inner.value, st)
                if isinstance(outer, Ref) and isinstance(st.get(outer), ArrData):
                    od = st.get(outer)
                    lo = to_int(self.eval(inner.slice.lower, st)) if inner.slice.lower is not None else z3.IntVal(0)
                    hi = to_int(self.eval(inner.slice.upper, st)) if inner.slice.upper is not None else to_int(od.shape[0])
                    view = st.alloc(ArrData((z3.simplify(hi - lo),) + tuple(od.shape[1:]), lambda i, *r, od=od, lo=lo: od.sel(i + lo, *r), od.kind))
                    self.store_subscript(view, t.slice, v, st, t)
                    nv = st.get(view)
                    st.put(outer, ArrData(od.shape, lambda i, *r, od=od, nv=nv, lo=lo, hi=hi: _ite_any(z3.And(lo <= i, i < hi), nv.sel(i - lo, *r), od.sel(i, *r)), nv.kind))
                    return
            base = self.eval(t.value, st)
            self.store_subscript(base, t.slice, v, st, t)
            return
        raise Unsupported(f"assign target {type(t).__name__}")

    def store_subscript(self, base, sl, v, st, node):
        if isinstance(base, Opaque):
            st.events.append(("store-opaque", base.tag))
            return
        if not isinstance(base, Ref):
            raise Unsupported(f"store into {base!r}")
        d = st.get(base)
        if isinstance(d, DictData):
            key = self.eval(sl, st)
            if not isinstance(key, str):
                raise Unsupported("dict store with non-constant key")
            nd = dict(d.items)
            nd[key] = v
            st.put(base, DictData(nd, d.open))
            return
        if isinstance(d, ListData):
            idx = self.eval(sl, st)
            i = to_int(idx)
            old = d.sel
            st.put(base, ListData(d.n, lambda j, i=i, old=old, v=v: ite(j == i, v, old(j)), d.kind or kind_of(v)))
            return
        if isinstance(d, ArrData):
            st.put(base, self.lib.array_store(self, d, sl, v, st, node))
            st.events.append(("store", base.id, sl, v, getattr(node, "lineno", 0)))
            return
        raise Unsupported(f"store into {type(d).__name__}")

    # ------------------------------------------------------------------ expressions
    def eval(self, e, st):
        m = getattr(self, "expr_" + type(e).__name__, None)
        if m is None:
            raise Unsupported(f"expression {type(e).__name__}: {unparse(e)[:60]}")
        return m(e, st)

    def expr_Constant(self, e, st):
        return e.value

    def expr_Name(self, e, st):
        if e.id in st.env:
            return st.env[e.id]
        if e.id in ("np", "numpy", "warnings", "copy", "scipy", "sklearn", "math"):
            return ModuleVal(e.id)
        if e.id in ("True", "False", "None"):
            return {"True": True, "False": False, "None": None}[e.id]
        return GlobalName(e.id)

    def expr_Tuple(self, e, st):
        return tuple(self.eval(x, st) for x in e.elts)

    def expr_List(self, e, st):
        vals = [self.eval(x, st) for x in e.elts]
        kind = None
        if vals:
            ks = {kind_of(v) for v in vals}
            kind = ks.pop() if len(ks) == 1 else "o"
        def sel(j, vals=tuple(vals)):
            if not vals:
                return BOTTOM
            r = vals[-1]
            for i in range(len(vals) - 2, -1, -1):
                r = ite(j == i, vals[i], r) if is_scalar(r) and is_scalar(vals[i]) else (vals[i] if (isinstance(j, int) and j == i) else r)
            return r
        if vals and not all(is_scalar(v) for v in vals):
            # heterogeneous / object list: keep elements concretely
            return st.alloc(ListData(len(vals), (lambda j, vals=tuple(vals): vals[_concrete_index(j, len(vals))]), "o"))
        return st.alloc(ListData(len(vals) if True else 0, sel, kind))

    def expr_Dict(self, e, st):
        items = {}
        for k, v in zip(e.keys, e.values):
            if k is None:
                src = self.eval(v, st)
                if isinstance(src, Ref) and isinstance(st.get(src), DictData):
                    items.update(st.get(src).items)
                    continue
                raise Unsupported("** of unknown dict in literal")
            kk = self.eval(k, st)
            if not isinstance(kk, str):
                for vv in e.values:
                    self.eval(vv, st)
                return Opaque("dict")
            items[kk] = self.eval(v, st)
        return st.alloc(DictData(items))

    def expr_Attribute(self, e, st):
        base = self.eval(e.value, st)
        return self.getattr(base, e.attr, st, e)

    def getattr(self, base, attr, st, node=None):
        if isinstance(base, ModuleVal):
            if base.name in ("np", "numpy"):
                if attr == "nan":
                    return float("nan")
                if attr == "inf":
                    return GlobalName("np.inf")
                if attr == "newaxis":
                    return None
            return ModuleVal(base.name + "." + attr)
        if isinstance(base, Ref):
            d = st.get(base)
            if isinstance(d, ObjData):
                if attr in d.fields:
                    return d.fields[attr]
                if attr == "__dict__":
                    # read-only view of the instance attributes (membership tests)
                    return st.alloc(DictData({k: v for k, v in d.fields.items() if k != "__open__"}, open=bool(d.fields.get("__open__"))))
                if self.repo.has_cls(d.cls):
                    ci, m = self.repo.resolve_method(d.cls, attr)
                    if m is not None:
                        return BoundMethod(base, attr)
                if self.lib is not None and self.lib.contract_for(f"{d.cls}.{attr}") is not None:
                    return BoundMethod(base, attr)
                if d.fields.get("__open__"):
                    return Opaque(f"{d.cls}.{attr}")
                raise _Raise("AttributeError", st)
            if isinstance(d, ArrData):
                if attr == "shape":
                    return tuple(d.shape)
                if attr == "ndim":
                    return d.ndim
                if attr == "T" and d.ndim == 2:
                    return st.alloc(ArrData((d.shape[1], d.shape[0]), lambda i, j, d=d: d.sel(j, i), d.kind))
                if attr == "size":
                    r = d.shape[0]
                    for x in d.shape[1:]:
                        r = scalar_binop(ast.Mult(), r, x, st)
                    return r
                if attr == "dtype":
                    return Opaque("dtype")
            return BoundMethod(base, attr)
        if isinstance(base, Opaque):
            return Opaque(f"{base.tag}.{attr}")
        if isinstance(base, SuperProxy):
            return BoundMethod(base, attr)
        if isinstance(base, GlobalName):
            return GlobalName(base.name + "." + attr)
        return BoundMethod(base, attr)

    def expr_BinOp(self, e, st):
        return self.binop(e.op, self.eval(e.left, st), self.eval(e.right, st), st)

    def binop(self, op, l, r, st):
        for a_, b_ in ((l, r), (r, l)):
            if isinstance(a_, Ref) and isinstance(st.get(a_), ListData) and isinstance(op, (ast.Mult, ast.Add)) and not isinstance(b_, Ref):
                # Python list repetition [x] * n (NOT an elementwise product); only the one-element case is modelled
                ld = st.get(a_)
                if isinstance(op, ast.Mult) and isinstance(ld.n, int) and ld.n == 1 and is_int_like(b_):
                    x = ld.sel(0)
                    n_ = to_int(b_)
                    return st.alloc(ListData(z3.If(n_ >= 0, n_, 0) if is_z3(n_) else max(0, n_), lambda j, x=x: x, ld.kind))
                raise Unsupported("list arithmetic")
        if isinstance(l, Ref) or isinstance(r, Ref):
            return self.lib.array_binop(self, op, l, r, st)
        if isinstance(l, Opaque) or isinstance(r, Opaque):
            return Opaque("binop")
        if isinstance(l, GlobalName) or isinstance(r, GlobalName):
            return Opaque("binop-global")
        return scalar_binop(op, l, r, st)

    def expr_UnaryOp(self, e, st):
        v = self.eval(e.operand, st)
        if isinstance(e.op, ast.Not):
            c = self.cond_value(v, st)
            return (not c) if isinstance(c, bool) else z3.Not(c)
        if isinstance(v, Opaque):
            return Opaque("unary")
        if isinstance(e.op, ast.USub):
            if isinstance(v, Ref):
                return self.lib.array_binop(self, ast.Sub(), 0, v, st)
            if isinstance(v, GlobalName):
                return GlobalName("-" + v.name)
            return scalar_binop(ast.Sub(), 0, v, st)
        if isinstance(e.op, ast.Invert):
            if isinstance(v, Ref):
                return self.lib.array_not(self, v, st)
            if _isbool(v):
                return (not v) if isinstance(v, bool) else z3.Not(v)
        if isinstance(e.op, ast.UAdd):
            return v
        raise Unsupported(f"unary {type(e.op).__name__} on {v!r}")

    def cond_value(self, v, st):
        if isinstance(v, Opaque):
            return fresh("br", B)
        if isinstance(v, Ref):
            d = st.get(v)
            if isinstance(d, ListData):
                return d.n > 0 if is_z3(d.n) else d.n > 0
            if isinstance(d, DictData):
                return len(d.items) > 0
            return True
        return truth(v)

    def expr_BoolOp(self, e, st):
        vals = []
        # short-circuit semantics only matter for side effects/raises; operands here are pure
        acc = None
        for sub in e.values:
            v = self.eval(sub, st)
            c = self.cond_value(v, st)
            if isinstance(c, bool):
                if isinstance(e.op, ast.And):
                    if not c:
                        return False if acc is None or isinstance(acc, bool) else z3.BoolVal(False)
                    continue
                else:
                    if c:
                        return True
                    continue
            acc = c if acc is None else (z3.And(acc, c) if isinstance(e.op, ast.And) else z3.Or(acc, c))
            # python would return the operand value, the code base only uses BoolOp in boolean context
        if acc is None:
            return isinstance(e.op, ast.And)
        return acc

    def expr_Compare(self, e, st):
        l = self.eval(e.left, st)
        res = None
        for op, rn in zip(e.ops, e.comparators):
            r = self.eval(rn, st)
            c = self.compare(op, l, r, st)
            res = c if res is None else self._and(res, c)
            l = r
        return res

    def _and(self, a, b):
        if isinstance(a, bool):
            return b if a else False
        if isinstance(b, bool):
            return a if b else False
        return z3.And(a, b)

    def compare(self, op, l, r, st):
        if isinstance(op, (ast.Is, ast.IsNot)):
            ln = l is None
            rn = r is None
            if ln or rn:
                if isinstance(l, Opaque) or isinstance(r, Opaque):
                    o = l if isinstance(l, Opaque) else r
                    b = self.opaque_is_none(o, st)
                    return b if isinstance(op, ast.Is) else z3.Not(b)
                res = ln and rn
                return res if isinstance(op, ast.Is) else not res
            if isinstance(l, Ref) and isinstance(r, Ref):
                return (l.id == r.id) if isinstance(op, ast.Is) else (l.id != r.id)
        if isinstance(l, Opaque) or isinstance(r, Opaque) or isinstance(l, GlobalName) or isinstance(r, GlobalName):
            if isinstance(op, (ast.Eq, ast.NotEq)) and isinstance(l, Opaque) and isinstance(r, Opaque):
                return l.sym == r.sym if isinstance(op, ast.Eq) else l.sym != r.sym
            return Opaque("cmp")
        if isinstance(l, Ref) or isinstance(r, Ref):
            if isinstance(op, (ast.In, ast.NotIn)) and isinstance(r, Ref) and isinstance(st.get(r), DictData) and isinstance(l, str):
                d = st.get(r)
                if d.open and l not in d.items:
                    raise Unsupported("membership in open dict")
                res = l in d.items
                return res if isinstance(op, ast.In) else not res
            return self.lib.array_compare(self, op, l, r, st)
        return scalar_compare(op, l, r)

    def opaque_is_none(self, o, st):
        key = "isnone:" + str(o.sym)
        b = z3.Bool(key)
        return b

    def expr_IfExp(self, e, st):
        c = self.cond(e.test, st)
        if isinstance(c, bool):
            return self.eval(e.body if c else e.orelse, st)
        c = z3.simplify(c)
        if z3.is_true(c):
            return self.eval(e.body, st)
        if z3.is_false(c):
            return self.eval(e.orelse, st)
        if not self.feasible(st, z3.Not(c)):
            return self.eval(e.body, st)
        if not self.feasible(st, c):
            return self.eval(e.orelse, st)
        if _pure(e.body) and _pure(e.orelse):
            a = self.eval(e.body, st)
            b = self.eval(e.orelse, st)
            if is_scalar(a) and is_scalar(b):
                return ite(c, a, b)
        # non-scalar alternatives: split the path
        s1 = st.fork()
        s1.pc.append(c)
        s2 = st.fork()
        s2.pc.append(z3.Not(c))
        for x in (s1, s2):
            x.replay = dict(st.log)
        raise _Fork([s1, s2])

    def expr_Subscript(self, e, st):
        base = self.eval(e.value, st)
        if isinstance(base, Opaque):
            return Opaque("subscript")
        if isinstance(base, tuple):
            i = self.eval(e.slice, st)
            if isinstance(i, int):
                try:
                    return base[i]
                except IndexError:
                    raise _Raise("IndexError", st)
            if isinstance(e.slice, ast.Slice):
                lo = self.eval(e.slice.lower, st) if e.slice.lower else None
                hi = self.eval(e.slice.upper, st) if e.slice.upper else None
                return base[lo:hi]
            raise Unsupported("symbolic tuple index")
        if isinstance(base, Ref):
            d = st.get(base)
            if isinstance(d, ListData):
                if isinstance(e.slice, ast.Slice):
                    raise Unsupported("list slice")
                i = self.eval(e.slice, st)
                if isinstance(i, int) and i < 0:
                    return d.sel(to_int(d.n) + i if is_z3(d.n) else d.n + i)
                if is_z3(i) or isinstance(i, int):
                    return d.sel(i if isinstance(i, int) and not is_z3(d.n) and d.kind == "o" else to_int(i))
            if isinstance(d, DictData):
                k = self.eval(e.slice, st)
                if isinstance(k, str):
                    if k in d.items:
                        return d.items[k]
                    if d.open:
                        return Opaque("dict[" + k + "]")
                    raise _Raise("KeyError", st)
                raise Unsupported("dict lookup with symbolic key")
            if isinstance(d, ArrData):
                return self.lib.array_index(self, base, d, e.slice, st)
        raise Unsupported(f"subscript of {base!r}")

    def expr_Call(self, e, st):
        return self.call(e, st)

    def expr_JoinedStr(self, e, st):
        return "<fstring>"

    def expr_Lambda(self, e, st):
        fn = ast.FunctionDef(name="<lambda>", args=e.args, body=[ast.Return(value=e.body)], decorator_list=[], returns=None)
        ast.fix_missing_locations(fn)
        return FuncVal(fn, st.env)

    def expr_ListComp(self, e, st):
        return self.lib.comprehension(self, e, st)

    expr_GeneratorExp = expr_ListComp

    def expr_Starred(self, e, st):
        raise Unsupported("starred expression")

    # ------------------------------------------------------------------ calls
    def call(self, e, st):
        if id(e) in st.replay:
            v = st.replay.pop(id(e))
            st.log[id(e)] = v
            return v
        try:
            v = self._call(e, st)
        except _CallFork as cf:
            for alt in cf.alts:
                if alt.exc is None:
                    alt.state.replay = dict(st.log)
                    alt.state.replay[id(e)] = alt.value
            raise
        st.log[id(e)] = v
        return v

    def _call(self, e, st):
        f = e.func
        # super().m(...)
        if isinstance(f, ast.Attribute) and isinstance(f.value, ast.Call) and isinstance(f.value.func, ast.Name) \
                and f.value.func.id == "super":
            args, kwargs = self.eval_args(e, st)
            return self.call_method(st.env.get("self"), f.attr, args, kwargs, st, e, via_super=True)
        args, kwargs = self.eval_args(e, st)
        if isinstance(f, ast.Name):
            fv = st.env.get(f.id)
            if isinstance(fv, FuncVal):
                return self.call_funcval(fv, args, kwargs, st)
            if isinstance(fv, NativeFn):
                return fv.fn(self, st, args, kwargs, e)
            return self.call_named(f.id, args, kwargs, st, e)
        if isinstance(f, ast.Attribute):
            recv = self.eval(f.value, st)
            if isinstance(recv, ModuleVal):
                return self.call_named(recv.name + "." + f.attr, args, kwargs, st, e)
            if isinstance(recv, GlobalName):
                return self.call_named(recv.name + "." + f.attr, args, kwargs, st, e)
            if isinstance(recv, Ref) and isinstance(st.get(recv), ObjData):
                od = st.get(recv)
                if f.attr in od.fields and isinstance(od.fields[f.attr], FuncVal):
                    return self.call_funcval(od.fields[f.attr], args, kwargs, st)
                return self.call_method(recv, f.attr, args, kwargs, st, e)
            return self.lib.method(self, recv, f.attr, args, kwargs, st, e)
        fv = self.eval(f, st)
        if isinstance(fv, FuncVal):
            return self.call_funcval(fv, args, kwargs, st)
        if isinstance(fv, NativeFn):
            return fv.fn(self, st, args, kwargs, e)
        return self.unknown_call(unparse(f), args, kwargs, st, e)

    def eval_args(self, e, st):
        args = []
        for a in e.args:
            if isinstance(a, ast.Starred):
                v = self.eval(a.value, st)
                if isinstance(v, tuple):
                    args.extend(v)
                    continue
                raise Unsupported("*args of non-tuple")
            args.append(self.eval(a, st))
        kwargs = {}
        for k in e.keywords:
            if k.arg is None:
                v = self.eval(k.value, st)
                if isinstance(v, Ref) and isinstance(st.get(v), DictData):
                    d = st.get(v)
                    if d.open:
                        kwargs["**"] = v
                    kwargs.update(d.items)
                    continue
                if isinstance(v, Opaque):
                    kwargs["**"] = v
                    continue
                raise Unsupported("**kwargs of unknown value")
            kwargs[k.arg] = self.eval(k.value, st)
        return args, kwargs

    def call_funcval(self, fv, args, kwargs, st):
        saved = st.env
        outs = None
        # closures read the defining environment
        st.env = dict(fv.closure)
        try:
            outs = self.run_function(fv.node, st, args, kwargs, cls=self.cur_cls_stack[-1] if self.cur_cls_stack else None, closure=fv.closure)
        finally:
            st.env = saved
        return self.join_call(outs, st)

    def join_call(self, outs, st):
        """callee outcomes -> value in the caller; several outcomes => fork the caller"""
        rets = [o for o in outs if o.kind == "return"]
        raises = [o for o in outs if o.kind == "raise"]
        if len(rets) == 1 and not raises and rets[0].state is st:
            return rets[0].value
        alts = []
        for o in rets:
            alts.append(_Resume(o.state, o.value))
        for o in raises:
            alts.append(_Resume(o.state, None, exc=o.value))
        raise _CallFork(alts)

    def call_method(self, recv, name, args, kwargs, st, node, via_super=False):
        if not isinstance(recv, Ref):
            return self.unknown_call("?." + name, args, kwargs, st, node)
        od = st.get(recv)
        cls = od.cls
        after = None
        if via_super:
            after = self.cur_cls_stack[-1]
        key_names = [f"{c}.{name}" for c in (self.repo.mro(cls) if self.repo.has_cls(cls) else [cls])]
        ci, m = self.repo.resolve_method(cls, name, after=after) if self.repo.has_cls(cls) else (None, None)
        target = f"{ci.name}.{name}" if ci is not None else f"{cls}.{name}"
        h = self.lib.contract_for(target) if self.lib else None
        if h is not None and target not in self.inline:
            self.abstracted.add("contract:" + target)
            return h(self, st, recv, args, kwargs, node)
        if m is None:
            return self.unknown_call(f"{cls}.{name}", [recv] + args, kwargs, st, node)
        is_new = f"{ci.file}::{ci.name}.{name}" in getattr(self.repo, "new_functions", ())
        if target in self.inline or name in self.inline or "*" in self.inline or is_new:
            # a method that did not exist on the validated tree (typically extracted from the caller by a refactoring) has no contract of its
            # own: it is executed as part of its caller
            if is_new:
                self.abstracted.discard("")
            outs = self.run_function(m, st, [recv] + args, kwargs, cls=ci.name)
            return self.join_call(outs, st)
        return self.unknown_call(target, [recv] + args, kwargs, st, node, summary=self.frame_summary(target, m, args, kwargs))

    def call_named(self, name, args, kwargs, st, node):
        h = self.lib.function(name) if self.lib else None
        if h is not None:
            return h(self, st, args, kwargs, node)
        short = name.split(".")[-1]
        if "." not in name and short in self.repo.func_by_name and short not in self.inline and \
                any(f"{rel_}::{short}" in getattr(self.repo, "new_functions", ()) for rel_, _ in self.repo.func_by_name[short]):
            rel, fn = self.repo.func_by_name[short][0]        # new module-level helper: executed as part of its caller
            outs = self.run_function(fn, st, args, kwargs, cls=None)
            return self.join_call(outs, st)
        if short in self.inline and short in self.repo.func_by_name:
            rel, fn = self.repo.func_by_name[short][0]
            outs = self.run_function(fn, st, args, kwargs, cls=None)
            return self.join_call(outs, st)
        summ = None
        if "." not in name and short in self.repo.func_by_name and len(self.repo.func_by_name[short]) == 1:
            rel, fn = self.repo.func_by_name[short][0]
            summ = self.frame_summary(short + "@" + rel, fn, args, kwargs, skip_self=False)
        return self.unknown_call(name, args, kwargs, st, node, summary=summ)

    def frame_summary(self, qual, fn, args, kwargs, skip_self=True):
        """values among the arguments that the package callee may mutate, according to the L1 frame analysis
        (pyvc/frame.py summaries, computed from the same source): everything else is left untouched by the call"""
        A = getattr(self, "frame", None)
        if A is None:
            return None
        s = A.summaries.get(qual)
        if s is None:
            return None
        mutated = []
        pos = s.pos_params
        for i, a in enumerate(args):
            if i < len(pos) and pos[i] in s.mutates:
                mutated.append(a)
            elif i >= len(pos):
                mutated.append(a)
        for k, v in kwargs.items():
            if k in s.mutates or k not in s.params:
                mutated.append(v)
        self.abstracted.add(f"frame-summary:{qual} mutates {sorted(s.mutates)}")
        return mutated

    def unknown_call(self, name, args, kwargs, st, node, summary=None):
        """A call without contract: result unknown, every mutable argument may have been changed
        (unless the L1 frame summary of a package callee says which arguments it can mutate)."""
        self.abstracted.add(name)
        cand = list(args) + list(kwargs.values()) if summary is None else summary
        pre = {a.id: st.heap.get(a.id) for a in list(args) + list(kwargs.values()) if isinstance(a, Ref)}   # argument values at the call
        for a in cand:
            if isinstance(a, Ref):
                d = st.get(a)
                if isinstance(d, ArrData):
                    st.put(a, ArrData(d.shape, fresh_sel("havoc", d.kind, d.ndim), d.kind))
                    st.notes.append(f"array passed to unknown call {name}: contents havocked")
                elif isinstance(d, ListData):
                    st.put(a, ListData(fresh("havoc_n", I), fresh_sel("havoc", d.kind or "o"), d.kind))
        res = Opaque("call:" + name)
        st.events.append(("call", name, args, kwargs, res, pre))
        return res


class GlobalName:
    def __init__(self, name):
        self.name = name

    def __repr__(self):
        return f"Global({self.name})"


class DictData:
    def __init__(self, items, open=False):
        self.items, self.open = dict(items), open


class _Raise(Exception):
    def __init__(self, exc, state=None):
        self.exc, self.state = exc, state


class _Fork(Exception):
    def __init__(self, alts):
        self.alts = alts


class _Resume:
    def __init__(self, state, value, exc=None):
        self.state, self.value, self.exc = state, value, exc


class _CallFork(Exception):
    def __init__(self, alts):
        self.alts = alts


def _load(t):
    import copy
    t2 = copy.deepcopy(t)
    for x in ast.walk(t2):
        if hasattr(x, "ctx"):
            x.ctx = ast.Load()
    return t2


def _pure(e):
    return not any(isinstance(x, (ast.Call, ast.Await, ast.Yield)) for x in ast.walk(e))


def _concrete_index(j, n):
    if isinstance(j, int):
        return j
    j = z3.simplify(j)
    if z3.is_int_value(j):
        return j.as_long()
    raise Unsupported("symbolic index into object list")


class LoopSpec:
    """inv(engine, state, k, pre_state) -> [(name, formula)]; step(engine, head_state, end_state, k) -> [(name, formula)]"""

    def __init__(self, inv=None, step=None, on_iter=None, self_writes=(), end_assume=None):
        self.inv, self.step, self.on_iter, self.self_writes = inv, step, on_iter, tuple(self_writes)
        self.end_assume = end_assume     # ghost updates at the end of an iteration (definitions by unfolding only)


# ------------------------------------------------------------------------------ provenance of opaque values (event log)
TRANSPARENT = {"astype", "np.asarray", "np.array", "asarray", "copy", "np.copy", "ravel", "flatten", "np.atleast_1d", "column_or_1d"}


def producer(st, v):
    """the recorded call event that produced the opaque value v (or None)"""
    if not isinstance(v, Opaque):
        return None
    for ev in reversed(st.events):
        if ev[0] == "call" and ev[4] is v:
            return ev
    return None


def derives_from(st, v, names, depth=6):
    """does v stem from a call to one of `names`, possibly through value-preserving calls (astype, asarray, ...)?
    returns the producing event or None"""
    for _ in range(depth):
        ev = producer(st, v)
        if ev is None:
            return None
        nm = ev[1]
        short = nm.split(".")[-1]
        if nm in names or short in names:
            return ev
        if short in TRANSPARENT or nm in TRANSPARENT:
            args = ev[2]
            v = args[0] if args else None
            continue
        return None
    return None
