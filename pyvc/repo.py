"""pyvc.repo — front end: parse the *current working tree* of /repo/skactiveml on every run.

Nothing is copied by hand: every function the contracts talk about is looked up by
(file, qualified name) in the freshly parsed ASTs. The extraction drops docstrings and
comments only (see `strip_docstrings`); everything else is the code that runs.
"""
import ast
import glob
import hashlib
import os

REPO_ROOT = os.environ.get("VERIF_REPO", "/repo")
PKG = "skactiveml"


class ClassInfo:
    def __init__(self, name, file, node):
        self.name, self.file, self.node = name, file, node
        self.bases = []
        for b in node.bases:
            if isinstance(b, ast.Name):
                self.bases.append(b.id)
            elif isinstance(b, ast.Attribute):
                self.bases.append(b.attr)
        self.methods = {m.name: m for m in node.body if isinstance(m, (ast.FunctionDef, ast.AsyncFunctionDef))}

    def __repr__(self):
        return f"<class {self.name} @ {self.file}>"


def strip_docstrings(node):
    for x in ast.walk(node):
        if isinstance(x, (ast.FunctionDef, ast.ClassDef, ast.Module, ast.AsyncFunctionDef)):
            if x.body and isinstance(x.body[0], ast.Expr) and isinstance(getattr(x.body[0], "value", None), ast.Constant) \
                    and isinstance(x.body[0].value.value, str):
                x.body = x.body[1:] or [ast.Pass()]
    return node


class Repo:
    """Index of the package source as it is *now* in the working tree."""

    def __init__(self, root=None, include_tests=False):
        self.root = root or REPO_ROOT
        self.modules = {}   # relpath -> ast.Module
        self.sources = {}   # relpath -> text
        self.classes = {}   # name -> [ClassInfo]
        self.functions = {}  # (relpath, name) -> FunctionDef  (module-level)
        self.func_by_name = {}  # name -> [(relpath, FunctionDef)]
        pat = os.path.join(self.root, PKG, "**", "*.py")
        for path in sorted(glob.glob(pat, recursive=True)):
            rel = os.path.relpath(path, self.root)
            if not include_tests and ("/tests/" in rel or rel.endswith("conftest.py")):
                continue
            if "/visualization/" in rel:
                continue
            try:
                text = open(path).read()
                tree = ast.parse(text)
            except SyntaxError as e:  # a tree that does not parse cannot be verified
                raise RuntimeError(f"cannot parse {rel}: {e}")
            strip_docstrings(tree)
            self.sources[rel] = text
            self.modules[rel] = tree
            for n in tree.body:
                if isinstance(n, ast.ClassDef):
                    self.classes.setdefault(n.name, []).append(ClassInfo(n.name, rel, n))
                elif isinstance(n, ast.FunctionDef):
                    self.functions[(rel, n.name)] = n
                    self.func_by_name.setdefault(n.name, []).append((rel, n))

    # ------------------------------------------------------------------ lookup
    def cls(self, name, file=None):
        lst = self.classes.get(name, [])
        if file is not None:
            lst = [c for c in lst if c.file == file or c.file.endswith(file)]
        if not lst:
            raise KeyError(f"class {name} not found" + (f" in {file}" if file else ""))
        return lst[0]

    def has_cls(self, name):
        return name in self.classes

    def mro(self, name):
        """Linearisation of the package-internal bases (depth first, left to right, duplicates
        keep their last position, like C3 on the simple diamonds of this code base)."""
        out = []

        def visit(n):
            if n not in self.classes:
                return
            lin = [n]
            for b in self.cls(n).bases:
                lin += visit(b) or []
            return lin
        lin = visit(name) or []
        # keep last occurrence
        seen, res = set(), []
        for n in reversed(lin):
            if n not in seen:
                seen.add(n)
                res.append(n)
        return list(reversed(res))

    def resolve_method(self, clsname, meth, after=None):
        """(ClassInfo, FunctionDef) of the method `meth` seen from `clsname`; with `after`
        the lookup starts behind that class in the MRO (super())."""
        mro = self.mro(clsname)
        if after is not None:
            mro = mro[mro.index(after) + 1:] if after in mro else []
        for c in mro:
            ci = self.cls(c)
            if meth in ci.methods:
                return ci, ci.methods[meth]
        return None, None

    def func(self, file, qualname):
        """FunctionDef for 'name' or 'Class.name' in file (suffix match on file)."""
        rels = [r for r in self.modules if r == file or r.endswith(file)]
        if not rels:
            raise KeyError(f"file {file} not in package")
        rel = rels[0]
        if "." in qualname:
            c, m = qualname.split(".", 1)
            ci = self.cls(c, rel)
            if m not in ci.methods:
                raise KeyError(f"{qualname} not in {rel}")
            return ci.methods[m]
        if (rel, qualname) not in self.functions:
            raise KeyError(f"{qualname} not in {rel}")
        return self.functions[(rel, qualname)]

    def init_params(self, clsname):
        """Constructor parameter names of a class including those of its package bases."""
        out = []
        for c in self.mro(clsname):
            ci = self.cls(c)
            m = ci.methods.get("__init__")
            if m is None:
                continue
            for a in m.args.args[1:] + m.args.kwonlyargs:
                if a.arg not in out:
                    out.append(a.arg)
        return out

    def all_classes(self):
        for lst in self.classes.values():
            for c in lst:
                yield c

    def src_hash(self, node):
        return hashlib.sha256(ast.dump(node).encode()).hexdigest()[:16]

    def is_subclass(self, name, base):
        return base in self.mro(name)


def unparse(n):
    try:
        return ast.unparse(n)
    except Exception:
        return "<?>"
