"""pyvc.repo — front end: parse the *current working tree* of /repo/skactiveml on every run.

Nothing is copied by hand: every function the contracts talk about is looked up by
(file, qualified name) in the freshly parsed ASTs. The extraction drops docstrings and
comments only (see `strip_docstrings`); everything else is the code that runs.
"""
import ast
import glob
import hashlib
import os

REPO_ROOT = os.environ.get("VERIF_REPO", "/repo")
PKG = "skactiveml"


class ClassInfo:
    def __init__(self, name, file, node):
        self.name, self.file, self.node = name, file, node
        self.bases = []
        for b in node.bases:
            if isinstance(b, ast.Name):
                self.bases.append(b.id)
            elif isinstance(b, ast.Attribute):
                self.bases.append(b.attr)
        self.methods = {m.name: m for m in node.body if isinstance(m, (ast.FunctionDef, ast.AsyncFunctionDef))}

    def __repr__(self):
        return f"<class {self.name} @ {self.file}>"


def strip_docstrings(node):
    for x in ast.walk(node):
        if isinstance(x, (ast.FunctionDef, ast.ClassDef, ast.Module, ast.AsyncFunctionDef)):
            if x.body and isinstance(x.body[0], ast.Expr) and isinstance(getattr(x.body[0], "value", None), ast.Constant) \
                    and isinstance(x.body[0].value.value, str):
                x.body = x.body[1:] or [ast.Pass()]
    return node


# ------------------------------------------------------------------------------ local-variable renaming (alpha equivalence)
def local_names(fn):
    """names bound inside the function (assignment / loop / with / except / comprehension targets), in order of first occurrence;
    parameters, globals and attribute names are not locals in this sense (renaming a parameter changes the keyword interface)"""
    params = {a.arg for a in fn.args.args + fn.args.kwonlyargs + fn.args.posonlyargs}
    if fn.args.vararg:
        params.add(fn.args.vararg.arg)
    if fn.args.kwarg:
        params.add(fn.args.kwarg.arg)
    declared = set()
    out = []
    for x in ast.walk(fn):
        if isinstance(x, (ast.Global, ast.Nonlocal)):
            declared.update(x.names)
    for x in _walk_in_order(fn):
        nm = None
        if isinstance(x, ast.Name) and isinstance(x.ctx, (ast.Store, ast.Del)):
            nm = x.id
        elif isinstance(x, ast.ExceptHandler) and x.name:
            nm = x.name
        elif isinstance(x, (ast.FunctionDef, ast.AsyncFunctionDef)) and x is not fn:
            nm = x.name
        if nm and nm not in params and nm not in declared and nm not in out:
            out.append(nm)
    return out


def _walk_in_order(node):
    yield node
    for c in ast.iter_child_nodes(node):
        yield from _walk_in_order(c)


class _Rename(ast.NodeTransformer):
    def __init__(self, mp):
        self.mp = mp

    def visit_Name(self, n):
        if n.id in self.mp:
            n.id = self.mp[n.id]
        return n

    def visit_ExceptHandler(self, n):
        if n.name in self.mp:
            n.name = self.mp[n.name]
        self.generic_visit(n)
        return n

    def visit_FunctionDef(self, n):
        if n.name in self.mp:
            n.name = self.mp[n.name]
        self.generic_visit(n)
        return n


def alpha_signature(fn):
    """(hash of the function with its locals renamed canonically, the locals in canonical order)"""
    import copy
    names = local_names(fn)
    c = copy.deepcopy(fn)
    _Rename({nm: f"_v{i}" for i, nm in enumerate(names)}).visit(c)
    c.name = "_f"
    return hashlib.sha256(ast.dump(c).encode()).hexdigest()[:16], names


class Repo:
    """Index of the package source as it is *now* in the working tree."""

    def __init__(self, root=None, include_tests=False):
        self.root = root or REPO_ROOT
        self.modules = {}   # relpath -> ast.Module
        self.sources = {}   # relpath -> text
        self.classes = {}   # name -> [ClassInfo]
        self.functions = {}  # (relpath, name) -> FunctionDef  (module-level)
        self.func_by_name = {}  # name -> [(relpath, FunctionDef)]
        pat = os.path.join(self.root, PKG, "**", "*.py")
        for path in sorted(glob.glob(pat, recursive=True)):
            rel = os.path.relpath(path, self.root)
            if not include_tests and ("/tests/" in rel or rel.endswith("conftest.py")):
                continue
            if "/visualization/" in rel:
                continue
            try:
                text = open(path).read()
                tree = ast.parse(text)
            except SyntaxError as e:  # a tree that does not parse cannot be verified
                raise RuntimeError(f"cannot parse {rel}: {e}")
            strip_docstrings(tree)
            self.sources[rel] = text
            self.modules[rel] = tree
            for n in tree.body:
                if isinstance(n, ast.ClassDef):
                    self.classes.setdefault(n.name, []).append(ClassInfo(n.name, rel, n))
                elif isinstance(n, ast.FunctionDef):
                    self.functions[(rel, n.name)] = n
                    self.func_by_name.setdefault(n.name, []).append((rel, n))
        self.renamed = {}
        self.new_functions = set()
        self._restore_local_names()

    def all_functions(self):
        """(key 'file::qualname', FunctionDef) of every module-level function and method"""
        for (rel, name), fn in self.functions.items():
            yield f"{rel}::{name}", fn
        for lst in self.classes.values():
            for ci in lst:
                for m, fn in ci.methods.items():
                    yield f"{ci.file}::{ci.name}.{m}", fn

    def alpha_table(self):
        return {k: dict(zip(("alpha", "locals"), alpha_signature(fn))) for k, fn in self.all_functions()}

    def _restore_local_names(self):
        """The sidecar contracts name loop-carried locals of the validated tree (baseline/locals.json). A function that differs from its
        validated version ONLY by a consistent renaming of local variables is renamed back mechanically before it is executed
        symbolically (a renaming of locals preserves behaviour); anything else is left exactly as it is."""
        import json
        p = os.path.join(os.path.dirname(os.path.dirname(os.path.abspath(__file__))), "baseline", "locals.json")
        if not os.path.exists(p) or os.environ.get("VERIF_NO_ALPHA"):
            return
        base = json.load(open(p))
        self.new_functions = {key for key, _ in self.all_functions() if key not in base}     # e.g. helpers extracted by a refactoring
        for key, fn in self.all_functions():
            b = base.get(key)
            if b is None:
                continue
            h, names = alpha_signature(fn)
            if h == b["alpha"] and names != b["locals"] and len(names) == len(b["locals"]):
                mp = {cur: old for cur, old in zip(names, b["locals"]) if cur != old}
                # two-step renaming (through fresh names) so that swaps are handled
                _Rename({cur: f"__tmp_{i}__" for i, cur in enumerate(mp)}).visit(fn)
                _Rename({f"__tmp_{i}__": mp[cur] for i, cur in enumerate(mp)}).visit(fn)
                self.renamed[key] = mp

    # ------------------------------------------------------------------ lookup
    def cls(self, name, file=None):
        lst = self.classes.get(name, [])
        if file is not None:
            lst = [c for c in lst if c.file == file or c.file.endswith(file)]
        if not lst:
            raise KeyError(f"class {name} not found" + (f" in {file}" if file else ""))
        return lst[0]

    def has_cls(self, name):
        return name in self.classes

    def mro(self, name):
        """Linearisation of the package-internal bases (depth first, left to right, duplicates
        keep their last position, like C3 on the simple diamonds of this code base)."""
        out = []

        def visit(n):
            if n not in self.classes:
                return
            lin = [n]
            for b in self.cls(n).bases:
                lin += visit(b) or []
            return lin
        lin = visit(name) or []
        # keep last occurrence
        seen, res = set(), []
        for n in reversed(lin):
            if n not in seen:
                seen.add(n)
                res.append(n)
        return list(reversed(res))

    def resolve_method(self, clsname, meth, after=None):
        """(ClassInfo, FunctionDef) of the method `meth` seen from `clsname`; with `after`
        the lookup starts behind that class in the MRO (super())."""
        mro = self.mro(clsname)
        if after is not None:
            mro = mro[mro.index(after) + 1:] if after in mro else []
        for c in mro:
            ci = self.cls(c)
            if meth in ci.methods:
                return ci, ci.methods[meth]
        return None, None

    def func(self, file, qualname):
        """FunctionDef for 'name' or 'Class.name' in file (suffix match on file)."""
        rels = [r for r in self.modules if r == file or r.endswith(file)]
        if not rels:
            raise KeyError(f"file {file} not in package")
        rel = rels[0]
        if "." in qualname:
            c, m = qualname.split(".", 1)
            ci = self.cls(c, rel)
            if m not in ci.methods:
                raise KeyError(f"{qualname} not in {rel}")
            return ci.methods[m]
        if (rel, qualname) not in self.functions:
            raise KeyError(f"{qualname} not in {rel}")
        return self.functions[(rel, qualname)]

    def init_params(self, clsname):
        """Constructor parameter names of a class including those of its package bases."""
        out = []
        for c in self.mro(clsname):
            ci = self.cls(c)
            m = ci.methods.get("__init__")
            if m is None:
                continue
            for a in m.args.args[1:] + m.args.kwonlyargs:
                if a.arg not in out:
                    out.append(a.arg)
        return out

    def all_classes(self):
        for lst in self.classes.values():
            for c in lst:
                yield c

    def src_hash(self, node):
        return hashlib.sha256(ast.dump(node).encode()).hexdigest()[:16]

    def is_subclass(self, name, base):
        return base in self.mro(name)


def unparse(n):
    try:
        return ast.unparse(n)
    except Exception:
        return "<?>"
