"""Bounded stand-in for the stream properties C03 / C04 / C10 (and the stream halves of C06 / C13).

Run-time evaluation of the contracts on generated streams; labelled bounded, never counted as proof.
"""
import copy
import sys
import os
import numpy as np

sys.path.insert(0, os.path.dirname(os.path.dirname(os.path.abspath(__file__))))
from bounded import runner
from bounded.streamzoo import MANAGERS, STRATEGIES, Driver, make_stream, chunking, snapshot, same

RULE = ("case = (class, budget, window, utility-stream kind, stream seed, chunking); a case is non-trivial when the stream "
        "was processed to its end and at least one label was granted or refused; distinct = distinct case keys")
BOUND = {"quick": "streams of 240 (C04: up to 700) instances, budgets {0.05..1}, windows {1,3,20,100}, 5 utility patterns, 6 chunkings",
         "thorough": "streams of 1200 (C04: up to 5000) instances, same grids, more seeds"}
CASE_TIMEOUT = {"quick": 120, "thorough": 900}
MAX_ERROR_FRACTION = 0.0


def cases(prop, tier, seed):
    out = []
    seeds = [seed, seed + 1] if tier == "quick" else [seed + i for i in range(5)]
    if prop == "C04":
        n_long = 700 if tier == "quick" else 5000
        for name, (fac, inv, kind) in MANAGERS.items():
            if kind is None:
                continue
            for b in (0.05, 0.1, 0.5, 1.0):
                for w in ((1, 3, 20, 100) if kind == "window" else (1,)):
                    for sk in ("ones", "alternating", "nan_mix", "ramp"):
                        for ck in ("one", 7, 35, 100, "whole", "random"):
                            if tier == "quick" and sk in ("ramp",) and ck in (7, 35):
                                continue
                            out.append(dict(kind="bound", cls=name, budget=b, w=w, stream=sk, chunk=ck, n=n_long, sseed=seeds[0],
                                            key=[name, b, w, sk, ck]))
        for name, (fac, needs, inv, bk) in STRATEGIES.items():
            if bk is None:
                continue
            for b in (0.05, 0.1, 0.5, 1.0):
                for ck in ("one", 7, 100, "whole", "random"):
                    for s in seeds[:2]:
                        out.append(dict(kind="bound", cls=name, budget=b, w=100, stream="rand", chunk=ck,
                                        n=(n_long if needs == "none" else min(n_long, 400)), sseed=s, key=[name, b, ck, s]))
        return out
    n = 240 if tier == "quick" else 1200
    names = list(MANAGERS) + list(STRATEGIES)
    for name in names:
        if name.endswith("-default") and prop != "C10":
            continue      # their update may raise (known finding of C10); the other oracles need complete streams
        slow = name in STRATEGIES and STRATEGIES[name][1] == "clfXy"
        for b in (0.1, 0.5):
            for w in ((3, 20) if name in MANAGERS else (100,)):
                for sk in (("grid", "ones", "nan_mix", "rand") if name in MANAGERS else ("rand",)):
                    for s in seeds:
                        nn = min(n, 80) if slow else n
                        out.append(dict(kind=prop, cls=name, budget=b, w=w, stream=sk, n=nn, sseed=s, key=[name, b, w, sk, s, prop]))
    return out


def bound_of(kind, b, w, n):
    if kind == "window":
        return b * n + n / w + b * w + 1
    if kind == "window100":
        return b * n + n / 100 + b * 100 + 1
    if kind == "density":
        return b * n + 1
    if kind == "strict":
        return b * n
    return None


def run_stream(d, X, U, chunks, extra_query=None, record_state=False):
    """process the stream; returns (granted global indices, per-chunk results)"""
    granted = []
    i = 0
    log = []
    for ci, c in enumerate(chunks):
        cand, util = X[i:i + c], U[i:i + c]
        if extra_query is not None:
            for _ in range(extra_query(ci)):
                d.query(cand, util)
        q, ut = d.query(cand, util)
        log.append((i, c, q, ut))
        d.update(cand, q, ut)
        granted += [i + int(j) for j in q]
        i += c
    return granted, log


def check_indices(cls, q, ut, c):
    fails = []
    ql = [int(x) for x in np.asarray(q).ravel().tolist()]
    if any(not isinstance(x, (int, np.integer)) for x in list(q)):
        fails.append("non-integer index")
    if any(a >= b for a, b in zip(ql, ql[1:])):
        fails.append(f"indices not strictly increasing: {ql}")
    if any(x < 0 or x >= c for x in ql):
        fails.append(f"index out of range(len(candidates)={c}): {ql}")
    if ut is not None and len(np.asarray(ut)) != c:
        fails.append(f"utilities has {len(np.asarray(ut))} entries for {c} candidates")
    return fails


def run_case(prop, case):
    name = case["cls"]
    X, U = make_stream(case["stream"], case["n"], case["sseed"])
    fails = []

    def fail(what, detail):
        fails.append({"sig": f"{name}:{what}", "detail": detail, "replay": {"module": "bounded.stream_budget", "prop": prop, "case": case}})
    if case["kind"] == "bound":
        kind = MANAGERS[name][2] if name in MANAGERS else STRATEGIES[name][3]
        d = Driver(name, case["budget"], case["w"], case["sseed"])
        chunks = chunking(case["chunk"], case["n"], case["sseed"])
        granted, log = run_stream(d, X, U, chunks)
        g = np.zeros(case["n"] + 1)
        for i in granted:
            g[i + 1] += 1
        cum = np.cumsum(g)
        for n in range(1, case["n"] + 1):
            bnd = bound_of(kind, case["budget"], case["w"], n)
            if cum[n] > bnd + 1e-9:
                fail("C04.bound_exceeded", f"{int(cum[n])} labels among the first {n} instances > bound {bnd:.3f} "
                                           f"(budget={case['budget']}, w={case['w']}, stream={case['stream']}, chunking={case['chunk']})")
                break
        return fails
    inv = MANAGERS[name][1] if name in MANAGERS else STRATEGIES[name][2]
    if prop == "C10":
        ref = Driver(name, case["budget"], case["w"], case["sseed"])
        g_ref, log_ref = run_stream(ref, X, U, chunking("one", case["n"], 0))
        if name in STRATEGIES:
            # the same stream, one instance at a time, (a) handed over in ONE buffer that the caller refills for every instance and (b) as nested
            # lists: what the strategy does must not depend on where the caller keeps the instances / on the container type query accepts
            for variant in ("reused_buffer", "nested_lists"):
                d2 = Driver(name, case["budget"], case["w"], case["sseed"])
                buf = np.empty((1, X.shape[1]))
                g2 = []
                try:
                    for i in range(case["n"]):
                        if variant == "reused_buffer":
                            buf[0] = X[i]
                            cand_i = buf
                        else:
                            cand_i = X[i:i + 1].tolist()
                        q_i, ut_i = d2.query(cand_i, U[i:i + 1])
                        d2.update(cand_i, q_i, ut_i)
                        g2 += [i for _ in q_i]
                except Exception as e:
                    fail(f"C10.update_or_query_raised.{variant}", f"{type(e).__name__}: {str(e)[:120]}")
                    continue
                if g2 != g_ref:
                    diff = sorted(set(g2) ^ set(g_ref))[:5]
                    fail(f"C10.decisions_depend_on_the_callers_container.{variant}", f"granted differs from the run on fresh arrays at instances {diff}")
        for ck in (5, "random", "whole"):
            d = Driver(name, case["budget"], case["w"], case["sseed"])
            chunks = chunking(ck, case["n"], case["sseed"])
            try:
                g, log = run_stream(d, X, U, chunks)
            except Exception as e:
                fail("C10.update_or_query_raised", f"{type(e).__name__}: {e} (chunking={ck})")
                continue
            for (i, c, q, ut) in log:
                for f in check_indices(name, q, ut, c):
                    fail("C10.result_shape", f + f" (chunk at {i}, size {c})")
            if inv:
                # utilities computed by vectorised numerical code differ in the last bits between chunk shapes (observed:
                # 1.7e-16 vs 0.0); a decision that flips because of such a difference is floating-point noise, not a
                # chunking defect: compare only runs whose utilities are bitwise identical up to the first difference
                ut_ref = np.concatenate([np.asarray(l[3], dtype=float).ravel() for l in log_ref]) if log_ref else np.array([])
                ut_run = np.concatenate([np.asarray(l[3], dtype=float).ravel() for l in log]) if log else np.array([])
                first = min(sorted(set(g) ^ set(g_ref)) or [case["n"]])
                comparable = ut_ref.shape == ut_run.shape and np.array_equal(ut_ref[:first + 1], ut_run[:first + 1], equal_nan=True)
                if g != g_ref:
                    if comparable:
                        diff = sorted(set(g) ^ set(g_ref))[:5]
                        fail("C10.decisions_depend_on_chunking", f"chunking={ck}: granted differs from one-by-one run at instances {diff}")
                    continue
                ok, where = same(snapshot(d.obj), snapshot(ref.obj))
                if not ok and np.allclose(ut_ref, ut_run, rtol=0, atol=1e-12, equal_nan=True):
                    fail("C10.state_depends_on_chunking", f"chunking={ck}: final state differs at {where}")
        return fails
    if prop == "C03":
        chunks = chunking("random", case["n"], case["sseed"])
        a = Driver(name, case["budget"], case["w"], case["sseed"])
        b = Driver(name, case["budget"], case["w"], case["sseed"])
        rs = np.random.RandomState(case["sseed"])
        extra = [int(rs.randint(0, 3)) for _ in chunks]
        i = 0
        for ci, c in enumerate(chunks):
            cand, util = X[i:i + c], U[i:i + c]
            # b makes extra queries, the first two compared with each other (repeatability)
            first = None
            for r in range(extra[ci] + 1):
                before = snapshot(b.obj) if (r == 0 and ci > 0) else None
                q, ut = b.query(cand, util)
                if before is not None:
                    ok, where = same(before, snapshot(b.obj), tol=0.0)
                    if not ok:
                        fail("C03.query_changed_state", f"state differs after a query at {where} (chunk {ci})")
                if first is None:
                    first = (list(map(int, q)), np.array(ut, dtype=float))
                else:
                    if list(map(int, q)) != first[0] or not np.array_equal(np.array(ut, dtype=float), first[1], equal_nan=True):
                        fail("C03.repeated_query_differs", f"chunk {ci}: {list(map(int, q))} vs {first[0]}")
            qa, uta = a.query(cand, util)
            if list(map(int, qa)) != first[0]:
                fail("C03.extra_queries_changed_later_results", f"chunk {ci} at instance {i}: {list(map(int, qa))} vs {first[0]}")
            a.update(cand, qa, uta)
            b.update(cand, qa, uta)
            i += c
            if fails:
                break
        ok, where = same(snapshot(a.obj), snapshot(b.obj), tol=0.0)
        if not ok:
            fail("C03.final_state_differs", f"after the stream the state differs at {where}")
        return fails
    if prop == "C06":
        chunks = chunking("random", case["n"], case["sseed"])
        res = []
        for gseed in (1, 2, 3):
            np.random.seed(gseed)
            d = Driver(name, case["budget"], case["w"], case["sseed"])
            g, log = run_stream(d, X, U, chunks)
            res.append((g, [np.array(l[3], dtype=float) for l in log]))
        for g, uts in res[1:]:
            if g != res[0][0]:
                fail("C06.stream_not_reproducible", "twin objects / different global seeds give different decisions")
            elif any(not np.array_equal(x, y, equal_nan=True) for x, y in zip(uts, res[0][1])):
                fail("C06.stream_utilities_not_reproducible", "twin objects give different utilities")
        return fails
    if prop == "C13":
        d = Driver(name, case["budget"], case["w"], case["sseed"])
        p0 = snapshot(d.obj.get_params(deep=True))
        chunks = chunking("random", case["n"], case["sseed"])
        run_stream(d, X, U, chunks)
        ok, where = same(p0, snapshot(d.obj.get_params(deep=True)), tol=0.0)
        if not ok:
            fail("C13.params_changed", f"get_params() differs after query/update at {where}")
        return fails
    return fails


if __name__ == "__main__":
    sys.exit(runner.main(sys.modules[__name__]))
