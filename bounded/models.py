"""Bounded stand-in for the model properties C11 (classifier outputs), C12 (unlabeled samples irrelevant), C13 (fit is
history free / parameters untouched), C15 (regressor coherence) and the classifier half of C09 (label encodings).
Run-time contract evaluation on generated training sets; never counted as proof."""
import copy
import os
import pickle
import sys
import numpy as np

sys.path.insert(0, os.path.dirname(os.path.dirname(os.path.abspath(__file__))))
from bounded import runner

RULE = ("case = (model recipe, training-set pattern {no labels, one class, mixed, a declared class unobserved}, weights on/off, "
        "class-list order, cost matrix, data seed); non-trivial = fit returned; distinct = distinct case keys")
BOUND = {"quick": "n <= 10 training samples, 2 features, 3 classes, 5 query points", "thorough": "n <= 24, more seeds"}
CASE_TIMEOUT = {"quick": 120, "thorough": 600}
NAN = float("nan")


def clf_zoo():
    from skactiveml.classifier import ParzenWindowClassifier, SklearnClassifier, MixtureModelClassifier, SlidingWindowClassifier
    from skactiveml.classifier.multiannotator import AnnotatorEnsembleClassifier, AnnotatorLogisticRegression
    from sklearn.linear_model import LogisticRegression, SGDClassifier
    from sklearn.naive_bayes import GaussianNB
    from sklearn.svm import SVC
    from sklearn.mixture import BayesianGaussianMixture
    Z = {
        "PWC": dict(mk=lambda **k: ParzenWindowClassifier(metric_dict={"gamma": 0.7}, **k), freq=True, self_proba=True),
        "PWC-mean": dict(mk=lambda **k: ParzenWindowClassifier(metric_dict={"gamma": "mean"}, **k), freq=True, self_proba=True, c12=False),
        "PWC-default": dict(mk=lambda **k: ParzenWindowClassifier(**k), freq=True, self_proba=True, c12=False),
        # nearest-neighbour truncation: a query whose nearest neighbour is unlabeled has no frequency mass at all
        "PWC-1nn": dict(mk=lambda **k: ParzenWindowClassifier(n_neighbors=1, metric_dict={"gamma": 0.7}, **k), freq=True, self_proba=True, c12=False,
                        only=("C11", "C13")),
        "MMC": dict(mk=lambda **k: MixtureModelClassifier(mixture_model=BayesianGaussianMixture(n_components=2, random_state=0), **k),
                    freq=True, self_proba=True, min_n=2, c12=False),
        "Sk-GaussianNB": dict(mk=lambda **k: SklearnClassifier(GaussianNB(), **k), self_proba=True, partial=True),
        "Sk-LogReg": dict(mk=lambda **k: SklearnClassifier(LogisticRegression(), **k), self_proba=True),
        "Sk-SVC": dict(mk=lambda **k: SklearnClassifier(SVC(probability=True, random_state=0), **k), self_proba=True, weights_c12=False),
        "Sk-SGD": dict(mk=lambda **k: SklearnClassifier(SGDClassifier(loss="log_loss", random_state=0), **k), self_proba=True, partial=True),
        "SlidingWindow-PWC": dict(mk=lambda **k: SlidingWindowClassifier(ParzenWindowClassifier(metric_dict={"gamma": 0.7}, **k),
                                                                         window_size=6, **k), self_proba=True, window=True, c12=False),
        # multi-annotator classifiers: the label vector is given by two annotators (second one with additional gaps)
        "ALR": dict(mk=lambda **k: AnnotatorLogisticRegression(n_annotators=2, **k), self_proba=True, multi=True, only=("C11", "C12", "C13")),
        "AnnotEnsemble-soft": dict(mk=lambda **k: AnnotatorEnsembleClassifier(
            estimators=[("a", ParzenWindowClassifier(metric_dict={"gamma": 0.7}, **{q: v for q, v in k.items() if q != "cost_matrix"})),
                        ("b", ParzenWindowClassifier(metric_dict={"gamma": 0.7}, **{q: v for q, v in k.items() if q != "cost_matrix"}))],
            voting="soft", **k), self_proba=True, multi=True, c12=False, only=("C11", "C13")),
        # the default voting scheme: hard votes of the members (no own probability estimate: not uniform without labels)
        "AnnotEnsemble-hard": dict(mk=lambda **k: AnnotatorEnsembleClassifier(
            estimators=[("a", ParzenWindowClassifier(metric_dict={"gamma": 0.7}, **{q: v for q, v in k.items() if q != "cost_matrix"})),
                        ("b", ParzenWindowClassifier(metric_dict={"gamma": 0.7}, **{q: v for q, v in k.items() if q != "cost_matrix"}))],
            voting="hard", **k), self_proba=False, multi=True, c12=False, only=("C11", "C13"), random_proba=True),
    }
    return Z


def _needs_three():
    from sklearn.base import BaseEstimator, RegressorMixin

    class NeedsThreeSamples(RegressorMixin, BaseEstimator):
        """mean regressor that cannot be fitted on fewer than three samples (stands for ARDRegression & co. on tiny training sets)"""
        def fit(self, X, y, sample_weight=None):
            if len(y) < 3:
                raise ValueError("at least three samples are required")
            self.mean_ = float(np.average(y, weights=sample_weight))
            self.std_ = float(np.std(y)) + 1.0
            return self

        def predict(self, X, return_std=False):
            from sklearn.utils.validation import check_is_fitted
            check_is_fitted(self)                      # NotFittedError like every scikit-learn estimator
            m = np.full(len(X), self.mean_)
            return (m, np.full(len(X), self.std_)) if return_std else m
    return NeedsThreeSamples()


def reg_zoo():
    from skactiveml.regressor import NICKernelRegressor, NadarayaWatsonRegressor, SklearnRegressor, SklearnNormalRegressor
    from sklearn.linear_model import LinearRegression, BayesianRidge, Ridge, SGDRegressor
    from sklearn.gaussian_process import GaussianProcessRegressor
    from sklearn.tree import DecisionTreeRegressor
    return {
        "NIC": dict(mk=lambda **k: NICKernelRegressor(metric_dict={"gamma": 0.7}, **k), prob=True, proper=True),
        "NIC-improper": dict(mk=lambda **k: NICKernelRegressor(metric_dict={"gamma": 0.7}, kappa_0=0.0, nu_0=0.0, sigma_sq_0=0.0, **k),
                             prob=True, proper=False),
        "NIC-dict": dict(mk=lambda **k: NICKernelRegressor(metric="poly", metric_dict={"degree": 2}, **k), prob=True, proper=True),
        "NadarayaWatson": dict(mk=lambda **k: NadarayaWatsonRegressor(metric_dict={"gamma": 0.7}, **k), prob=True, proper=False),
        "Sk-LinearRegression": dict(mk=lambda **k: SklearnRegressor(LinearRegression(), **k), prob=False),
        "Sk-Ridge": dict(mk=lambda **k: SklearnRegressor(Ridge(), **k), prob=False),
        "Sk-Tree": dict(mk=lambda **k: SklearnRegressor(DecisionTreeRegressor(random_state=0), **k), prob=False),
        "Sk-SGDRegressor": dict(mk=lambda **k: SklearnRegressor(SGDRegressor(random_state=0), **k), prob=False, partial=True),
        "SkNormal-BayesianRidge": dict(mk=lambda **k: SklearnNormalRegressor(BayesianRidge(), **k), prob=True, sk_normal=True),
        "Sk-NeedsThree": dict(mk=lambda **k: SklearnRegressor(_needs_three(), **k), prob=False, fallback=True),
        "SkNormal-NeedsThree": dict(mk=lambda **k: SklearnNormalRegressor(_needs_three(), **k), prob=True, sk_normal=True, fallback=True),
        "SkNormal-GP": dict(mk=lambda **k: SklearnNormalRegressor(GaussianProcessRegressor(random_state=0), **k), prob=True, sk_normal=True,
                            weights=False),
    }


CLASS_LISTS = [[0, 1, 2], [2, 0, 1], [10, 20, 30], [30, 10, 20], ["a", "b", "c"], ["b", "c", "a"]]


def cases(prop, tier, seed):
    rs = np.random.RandomState(seed + 11)
    out = []
    reps = 10 if tier == "quick" else 300
    if prop in ("C11", "C12", "C13", "C09", "C06"):
        for name, zz in clf_zoo().items():
            if zz.get("only") and prop not in zz["only"]:
                continue
            for t in range(reps):
                out.append(dict(kind=prop, model=name, dseed=int(rs.randint(1 << 30)), pat=t % 5, weights=bool(t % 2), cl=t % len(CLASS_LISTS),
                                cost=bool((t // 2) % 2), n=int(rs.randint(0 if (prop == "C11" and t % 10 < 5) else 4, 11)), t=t, key=[prop, name, t]))
    if prop in ("C12", "C13", "C15"):
        for name in reg_zoo():
            for t in range(reps):
                out.append(dict(kind=prop, model=name, reg=True, dseed=int(rs.randint(1 << 30)), pat=t % 4, weights=bool(t % 2),
                                n=int(rs.randint(0 if prop == "C15" else 4, 11)), t=t, key=[prop, name, t]))
    if prop == "C15":
        # structured case (independent of the seed): two labeled targets, both equal -- the fallback statistics are (mean, 0)
        for name in ("Sk-NeedsThree", "SkNormal-NeedsThree"):
            out.append(dict(kind=prop, model=name, reg=True, dseed=11, pat=5, weights=False, n=6, t=0, key=[prop, name, "identical_targets"]))
    return out


def make_clf_data(case, classes, ml):
    rs = np.random.RandomState(case["dseed"])
    n = case["n"]
    X = rs.randn(n, 2).round(2)
    lab = np.full(n, -1)
    pat = case["pat"]
    if n:
        if pat == 1:
            lab[:] = rs.randint(0, 3)
        elif pat == 2:
            m = rs.rand(n) < 0.6
            lab[m] = rs.randint(0, 3, size=int(m.sum()))
        elif pat == 3:
            lab[:] = rs.randint(0, 2, size=n)          # the class sorted last is declared but never observed
            lab[rs.rand(n) < 0.3] = -1
        elif pat == 4:
            lab[:] = rs.randint(1, 3, size=n)          # the class sorted first is never observed
    srt = sorted(classes)
    if isinstance(ml, float) and ml != ml and not isinstance(classes[0], str):
        y = np.array([ml if l < 0 else srt[l] for l in lab], dtype=float)
    else:
        y = np.array([ml if l < 0 else srt[l] for l in lab], dtype=object if ml is None else None)
    w = (rs.rand(n) + 0.1) if case["weights"] else None
    # query batch: five nearby points and one far away (kernel frequencies underflow to exactly 0 there: a zero-mass row next to rows with mass)
    Xq = np.vstack([rs.randn(5, 2).round(2), [[1.0e3, -1.0e3]]])
    return X, y, lab, w, Xq


def extra_rows(rs):
    return rs.randn(3, 2).round(2)


def simplex(P, K):
    P = np.asarray(P)
    return P.ndim == 2 and P.shape[1] == K and np.all(np.isfinite(P)) and np.all(P >= -1e-12) and np.allclose(P.sum(1), 1)


def ml_for(classes):
    return "none" if isinstance(classes[0], str) else NAN


def fit(m, X, y, w):
    if type(m).__name__ in ("AnnotatorLogisticRegression", "AnnotatorEnsembleClassifier") and np.ndim(y) == 1:
        y = np.asarray(y)
        if y.dtype.kind in "US":
            y = y.astype("U8")                         # wide enough for the sentinel: no silent truncation in the harness
        y2 = y.copy()
        if len(y2) > 1:
            y2[::2] = m.missing_label                  # the second annotator skips every other sample
        y = np.column_stack([y, y2]) if len(y) else np.empty((0, 2), dtype=y.dtype)
        w = None if w is None else np.column_stack([w, w])
    return m.fit(X, y, sample_weight=w) if w is not None else m.fit(X, y)




def run_c11(case, fail):
    Z = clf_zoo()
    z = Z[case["model"]]
    classes = CLASS_LISTS[case["cl"]]
    ml = ml_for(classes)
    X, y, lab, w, Xq = make_clf_data(case, classes, ml)
    if len(X) < z.get("min_n", 0):
        return
    rs = np.random.RandomState(case["dseed"] + 1)
    cm = None
    if case["cost"]:
        cm = rs.rand(3, 3).round(2)
        np.fill_diagonal(cm, 0)
    kw = dict(classes=classes, missing_label=ml, random_state=0)
    if cm is not None:
        kw["cost_matrix"] = cm
    try:
        c = z["mk"](**kw)
        if case["t"] % 10 >= 5 and len(X):
            # the object has a history: it was fitted before on a fully labeled set of the same width ('after fit on any admissible
            # training set' does not depend on what the estimator saw earlier)
            rs0 = np.random.RandomState(case["dseed"] + 5)
            X0 = rs0.randn(8, 2).round(2)
            srt0 = sorted(classes)
            y0 = np.array([srt0[v] for v in rs0.randint(0, 3, size=8)], dtype="U8" if isinstance(classes[0], str) else float)
            try:
                fit(c, X0, y0, None)
            except Exception:
                c = z["mk"](**kw)
        c = fit(c, X, y, w)
    except Exception as e:
        if case["model"].startswith("MMC") and "n_samples" in str(e):
            return      # the mixture model needs at least n_components samples: not an admissible training set
        fail("C11.fit_raised", f"{type(e).__name__}: {str(e)[:120]} (pattern {case['pat']}, n={len(X)})")
        return
    srt = np.array(sorted(classes), dtype=object if isinstance(classes[0], str) else None)
    if list(np.asarray(c.classes_).tolist()) != sorted(classes):
        fail("C11.classes_not_sorted", f"classes_={c.classes_}")
    try:
        P = c.predict_proba(Xq)
    except Exception as e:
        fail("C11.predict_proba_raised", f"{type(e).__name__}: {str(e)[:120]}")
        return
    if not simplex(P, 3):
        fail("C11.proba_not_a_distribution", f"shape {np.shape(P)}, first row {np.round(np.asarray(P)[0], 4).tolist() if np.ndim(P) == 2 else P}")
        return
    if z.get("freq"):
        F = c.predict_freq(Xq)
        if np.any(np.asarray(F) < 0):
            fail("C11.negative_frequency", f"min {np.min(F)}")
    if not (lab >= 0).any() and z.get("self_proba") and not np.allclose(P, 1 / 3):
        fail("C11.not_uniform_without_labels", f"{np.round(P[0], 4).tolist()}")
    # observed-class consistency: columns ordered as classes_: a class that never occurs gets no more mass than under relabeling is checked in C09
    try:
        yp = c.predict(Xq)
    except Exception as e:
        fail("C11.predict_raised", f"{type(e).__name__}: {str(e)[:120]}")
        return
    ypl = np.asarray(yp).tolist()
    if not set(ypl) <= set(classes):
        fail("C11.predict_outside_classes", f"{ypl} not within {classes}")
        return
    # cost matrix is given in the order of the declared `classes`; expected cost per sorted class
    C = (1 - np.eye(3)) if cm is None else cm
    order = np.argsort(np.array(classes, dtype=object if isinstance(classes[0], str) else None))
    Cs = C[order][:, order]
    costs = np.asarray(P) @ Cs
    pos = np.array([sorted(classes).index(v) for v in ypl])
    chosen = costs[np.arange(len(pos)), pos]
    if z.get("random_proba"):
        # hard votes of members that break ties at random: two calls of predict_proba need not agree, so the decision taken inside predict
        # cannot be compared with probabilities obtained by a separate call (simplex and membership in classes_ are judged above)
        return
    uses_own_predict = case["model"].startswith("Sk-") and cm is None
    fallback = getattr(c, "is_fitted_", True) is False
    if not uses_own_predict and not np.all(chosen <= costs.min(axis=1) + 1e-9):
        i = int(np.argmax(chosen - costs.min(axis=1)))
        fail("C11.fallback_decision_is_sampled" if fallback else "C11.decision_not_cost_optimal", f"query {i}: predicted {ypl[i]} with expected cost {chosen[i]:.4f}, minimum {costs[i].min():.4f} "
                                              f"(classes {classes}, cost matrix {'default' if cm is None else cm.tolist()})")


def run_c06(case, fail):
    """classifier fit/predict is a function of the constructor parameters and the call arguments: twins with the same integer seed agree,
    whatever the state of numpy's global generator (patterns include 'no label', a single class and ties)"""
    Z = clf_zoo()
    z = Z[case["model"]]
    classes = CLASS_LISTS[case["cl"]]
    ml = ml_for(classes)
    X, y, lab, w, Xq = make_clf_data(case, classes, ml)
    if len(X) < max(z.get("min_n", 0), 1):
        return
    Xq = np.vstack([Xq, Xq[:2], np.zeros((2, 2))])          # repeated query points: ties between rows must be broken reproducibly too
    outs = []
    for gseed in (1, 2, 3):
        np.random.seed(gseed)
        try:
            c = fit(z["mk"](classes=classes, missing_label=ml, random_state=11), X, y, w)
            P = np.asarray(c.predict_proba(Xq))
            yp = np.asarray(c.predict(Xq)).tolist()
            yp2 = np.asarray(c.predict(Xq)).tolist() if gseed == 1 else None
        except Exception as e:
            return
        outs.append((np.round(P, 12).tobytes(), tuple(map(str, yp))))
    np.random.seed(None)
    if len({o[0] for o in outs}) != 1:
        fail("C06.classifier_proba_depends_on_global_generator", "predict_proba of twins (random_state=11) differs under different global seeds")
    # a fallback that samples labels is a known finding of C11; decisions are compared where the classifier was actually fitted
    if len({o[1] for o in outs}) != 1 and getattr(c, "is_fitted_", True) is not False:
        fail("C06.classifier_predict_depends_on_global_generator", f"predict of twins (random_state=11) differs under different global seeds: {[o[1] for o in outs][:2]}")


def run_c09(case, fail):
    Z = clf_zoo()
    z = Z[case["model"]]
    base = None
    for cl, ml in (([0, 1, 2], NAN), ([10, 20, 30], -1), (["a", "b", "c"], "none"), (["a", "b", "c"], None), ([1, 2, 3], 0)):
        X, y, lab, w, Xq = make_clf_data(case, cl, ml)
        if len(X) < z.get("min_n", 0) and (lab >= 0).any():
            return
        try:
            c = fit(z["mk"](classes=cl, missing_label=ml, random_state=0), X, y, w)
            P = np.asarray(c.predict_proba(Xq))
            yp = [sorted(cl).index(v) for v in np.asarray(c.predict(Xq)).tolist()]
        except Exception as e:
            if base is not None:
                fail("C09.encoding_raised", f"classes {cl}, missing_label {ml!r}: {type(e).__name__}: {str(e)[:100]}")
            else:
                return
            continue
        if base is None:
            base = (P, yp)
            continue
        if P.shape != base[0].shape or not np.allclose(P, base[0], atol=1e-8):
            fail("C09.proba_depends_on_encoding", f"classes {cl}, missing_label {ml!r}: {np.round(P[0], 4).tolist()} vs {np.round(base[0][0], 4).tolist()}")
        elif yp != base[1] and not _ties(base[0]):
            fail("C09.predict_depends_on_encoding", f"classes {cl}, missing_label {ml!r}")
    if base is not None and case["model"].startswith("PWC"):
        # which class is called what must not matter either: exchanging the names of the second and third class exchanges their columns
        # (kernel frequency estimates treat the classes symmetrically)
        X, y, lab, w, Xq = make_clf_data(case, [0, 1, 2], NAN)
        swap = {0: 0.0, 1: 2.0, 2: 1.0}
        y_sw = np.array([np.nan if l < 0 else swap[int(l)] for l in lab], dtype=float)
        try:
            c = fit(z["mk"](classes=[0, 1, 2], missing_label=NAN, random_state=0), X, y_sw, w)
            P = np.asarray(c.predict_proba(Xq))[:, [0, 2, 1]]
            if not np.allclose(P, base[0], atol=1e-8):
                fail("C09.proba_depends_on_the_names_of_the_classes", f"second and third class exchanged: {np.round(P[0], 4).tolist()} vs {np.round(base[0][0], 4).tolist()}")
        except Exception as e:
            fail("C09.encoding_raised", f"classes exchanged: {type(e).__name__}: {str(e)[:100]}")


def _ties(P):
    s = np.sort(P, axis=1)
    return bool(np.any(np.isclose(s[:, -1], s[:, -2])))


def run_c12(case, fail):
    rs = np.random.RandomState(case["dseed"] + 2)
    if case.get("reg"):
        z = reg_zoo()[case["model"]]
        n = max(case["n"], 5)
        X = rs.randn(n, 2).round(2)
        y = rs.randn(n).round(2)
        mk = lambda: z["mk"]()
        pred = (lambda m, Xq: np.c_[m.predict(Xq, return_std=True)]) if z["prob"] else (lambda m, Xq: m.predict(Xq))
        use_w = case["weights"] and z.get("weights", True)
        ml = NAN
    else:
        Z = clf_zoo()
        z = Z[case["model"]]
        if not z.get("c12", True):
            return
        n = max(case["n"], 5)
        X = rs.randn(n, 2).round(2)
        y = rs.randint(0, 3, size=n).astype(float)
        mk = lambda: z["mk"](classes=[0, 1, 2], random_state=0)
        pred = lambda m, Xq: m.predict_proba(Xq)
        use_w = case["weights"] and z.get("weights_c12", True)
        ml = NAN
    miss = rs.rand(n) < 0.4
    if miss.all():
        miss[0] = False
    if case["t"] % 5 == 3 and not case.get("reg"):
        y[:] = y[0]                                   # a single observed class (declared: three): wrapped estimators fall back to label counts
        if not miss.any():
            miss[-1] = True
    if case.get("reg") and z.get("fallback") and case["t"] % 2:
        miss[:] = True
        miss[:2] = False                              # two labeled samples only: the wrapped estimator refuses, the label statistics take over
    if case["t"] % 3 == 2:
        # a numeric sentinel instead of NaN (the models are configured with it)
        ml = -1.0 if case.get("reg") else -1.0
        mk0 = mk
        if case.get("reg"):
            mk = lambda: z["mk"](missing_label=ml)
        else:
            mk = lambda: z["mk"](classes=[0, 1, 2], random_state=0, missing_label=ml)
    if case.get("reg") and case["t"] % 6 == 4:
        # the documented sentinel None: the targets then arrive as an object array
        ml = None
        mk = lambda: z["mk"](missing_label=None)
        y = y.astype(object)
    y2 = y.copy()
    y2[miss] = ml
    w = (rs.rand(n) + 0.1) if use_w else None
    if not case.get("reg") and z.get("multi"):
        # two annotators: the second one leaves further gaps; a sample is unlabeled if no annotator labeled it
        y3 = y2.copy()
        y3[(rs.rand(n) < 0.3) & ~miss] = ml
        y3[np.where(~miss)[0][0]] = y2[np.where(~miss)[0][0]]
        y2 = np.column_stack([y2, y3])
        w = None if w is None else np.column_stack([w, rs.rand(n) + 0.1])
    Xq = rs.randn(5, 2).round(2)
    try:
        b = fit(mk(), X[~miss], y2[~miss], None if w is None else w[~miss])
    except Exception as e:
        return          # the labeled part alone is not an admissible training set for this model
    try:
        pb = pred(b, Xq)
    except Exception as e:
        fail("C12.predict_raised_after_fit_on_labeled_samples", f"{type(e).__name__}: {str(e)[:120]} (sentinel {ml!r})")
        return
    try:
        a = fit(mk(), X, y2, w)
        pa = pred(a, Xq)
    except Exception as e:
        fail("C12.fit_raises_only_with_unlabeled_samples", f"{type(e).__name__}: {str(e)[:120]} (the same model fits the labeled samples alone)")
        return
    if w is not None:
        try:
            wp = w.copy()
            pp = pred(mk().fit(X, y2, wp), Xq)      # the package itself passes sample_weight positionally (clf.fit(X, y, sample_weight))
            if not np.allclose(pp, pa, atol=1e-8, equal_nan=True) or not np.array_equal(wp, w):
                fail("C12.positional_sample_weight_misrouted", "fit(X, y, w) differs from fit(X, y, sample_weight=w) (or modifies w)")
        except Exception as e:
            fail("C12.positional_sample_weight_misrouted", f"fit(X, y, w) raised {type(e).__name__}")
    if not np.allclose(pa, pb, atol=1e-8, equal_nan=True):
        fail("C12.unlabeled_rows_change_the_model", f"max |d| = {np.nanmax(np.abs(np.asarray(pa, dtype=float) - np.asarray(pb, dtype=float))):.3g}")
    if w is not None:
        w3 = w.copy()
        w3[miss] = rs.rand(*((int(miss.sum()), 2) if np.ndim(w3) == 2 else (int(miss.sum()),))) * 100
        if case["t"] % 4 == 1:
            w3[miss] = np.inf                          # any weight, even an infinite one, on an unlabeled row is irrelevant
        w_before = w3.copy()
        try:
            c = fit(mk(), X, y2, w3)
            if not np.allclose(pred(c, Xq), pa, atol=1e-8, equal_nan=True):
                fail("C12.weights_of_unlabeled_rows_matter", "changing the weights of unlabeled samples changes the predictions")
            if not np.array_equal(w3, w_before):
                fail("C12.sample_weight_modified", "fit modified the caller's sample_weight array")
        except Exception:
            pass
    if z.get("partial") and not (not case.get("reg") and z.get("multi")):
        # incremental learners: a further batch that contains no label leaves the model as it is, and partial_fit continues from the model
        # learned so far (two labeled halves, one after the other, are not the same as the second half alone)
        try:
            inc = mk()
            lab_idx = np.where(~miss)[0]
            half = len(lab_idx) // 2
            if half >= 1:
                kw_cls = {} if case.get("reg") else {}
                inc.partial_fit(X[lab_idx[:half]], y2[lab_idx[:half]])
                inc.partial_fit(X[lab_idx[half:]], y2[lab_idx[half:]])
                p_before = pred(inc, Xq)
                inc.partial_fit(X[miss][:3] if miss.any() else extra_rows(rs), np.full(min(3, int(miss.sum())) if miss.any() else 3, ml, dtype=y2.dtype))
                if not np.allclose(pred(inc, Xq), p_before, atol=1e-8, equal_nan=True):
                    fail("C12.partial_fit_on_unlabeled_batch_changes_the_model", "a partial_fit batch without any label changed the predictions")
                # reference: the wrapped scikit-learn estimator itself, trained incrementally on the same two labeled batches
                from sklearn.base import clone as _clone
                raw = _clone(inc.estimator)
                kw1 = {} if case.get("reg") else {"classes": np.array([0, 1, 2])}
                raw.partial_fit(X[lab_idx[:half]], y2[lab_idx[:half]].astype(float if case.get("reg") else int), **kw1)
                raw.partial_fit(X[lab_idx[half:]], y2[lab_idx[half:]].astype(float if case.get("reg") else int))
                p_raw = raw.predict(Xq) if case.get("reg") else raw.predict_proba(Xq)
                if np.shape(p_raw) == np.shape(p_before) and np.all(np.isfinite(p_raw)) and getattr(inc, "is_fitted_", True) \
                        and not np.allclose(p_before, p_raw, atol=1e-8, equal_nan=True):
                    fail("C12.partial_fit_forgets_earlier_batches", "after two labeled batches the wrapper differs from the wrapped estimator trained "
                                                                    "incrementally on the same batches")
        except Exception as e:
            fail("C12.partial_fit_raised", f"{type(e).__name__}: {str(e)[:120]}")
    # revealing the same labels in a different order / moving unlabeled rows around
    extra = rs.randn(3, 2).round(2)
    X4 = np.vstack([extra, X])
    two_d = np.ndim(y2) == 2
    y4 = np.concatenate([np.full((3, 2) if two_d else 3, ml), y2])
    w4 = None if w is None else np.concatenate([rs.rand(3, 2) + 0.1 if two_d else rs.rand(3) + 0.1, w])
    try:
        d = fit(mk(), X4, y4, w4)
        if not np.allclose(pred(d, Xq), pa, atol=1e-8, equal_nan=True):
            fail("C12.adding_unlabeled_rows_changes_the_model", "three extra unlabeled rows change the predictions")
    except Exception:
        pass
    # label reveal history with a shared weight array (fit - reveal - fit)
    if w is not None and not two_d:
        ws = w.copy()
        yh = y.copy()
        yh[:] = ml
        order = rs.permutation(n)
        try:
            m = mk()
            for i in order[: n - int(miss.sum())]:
                pass
            labeled = np.where(~miss)[0]
            for step in range(0, len(labeled), 2):
                yh[labeled[step:step + 2]] = y[labeled[step:step + 2]]
                fit(m, X, yh, ws)
            if not np.allclose(pred(m, Xq), pa, atol=1e-8, equal_nan=True):
                fail("C12.reveal_history_matters", "revealing the labels step by step (same weight array) gives a different model than one fit")
        except Exception:
            pass


def run_c13(case, fail):
    from sklearn.base import clone
    rs = np.random.RandomState(case["dseed"] + 3)
    if case.get("reg"):
        z = reg_zoo()[case["model"]]
        mk = lambda: z["mk"]()
        gen_y = lambda n: rs.randn(n).round(2)
        pred = lambda m, Xq: m.predict(Xq)
    else:
        z = clf_zoo()[case["model"]]
        mk = lambda: z["mk"](classes=[0, 1, 2], random_state=0)
        gen_y = lambda n: rs.randint(0, 3, size=n).astype(float)
        pred = lambda m, Xq: m.predict_proba(Xq)
    n1, n2 = 8, 9
    d2 = 2 if case["t"] % 3 else 3                   # every third case refits on data with another number of features
    X1, X2 = rs.randn(n1, 2).round(2), (rs.randn(n2, d2) * 4).round(2)
    y1, y2 = gen_y(n1), gen_y(n2)
    if not case.get("reg"):
        y1[rs.rand(n1) < 0.3] = np.nan
        y2[rs.rand(n2) < 0.3] = np.nan
        if case["t"] % 4 == 3:
            y2[:] = np.nan                            # the later fit sees no label at all: nothing of the earlier fit may survive
        elif np.isnan(y2).all():
            y2[0] = 1.0
    a = mk()
    snap = lambda o: {k: (pickle.dumps(v) if not hasattr(v, "get_params") else "est") for k, v in sorted(o.get_params(deep=True).items())}
    try:
        p0 = snap(a)
    except Exception:
        p0 = None
    Xq = (rs.randn(5, d2) * 3).round(2)
    try:
        fit(a, X1, y1, None)
        pred(a, X1[:2])
        # decisions at points where the model is indifferent (far away from all data: tied expected costs) are tie-broken with the estimator's
        # generator; a refit must re-seed it, whatever was predicted before
        Xtie = np.vstack([np.full((6, X1.shape[1]), 1e6), np.full((6, X1.shape[1]), -1e6)])
        if not case.get("reg"):
            a.predict(Xtie)
        fit(a, X2, y2, None)
        b = fit(mk(), X2, y2, None)
        pa, pb = pred(a, Xq), pred(b, Xq)
        if not case.get("reg") and not z.get("multi"):
            Xtie2 = np.vstack([np.full((6, d2), 1e6), np.full((6, d2), -1e6)])
            da, db = np.asarray(a.predict(Xtie2)).tolist(), np.asarray(b.predict(Xtie2)).tolist()
            if da != db and getattr(a, "is_fitted_", True) is not False:
                fail("C13.refit_decisions_differ_from_fresh_fit", f"after fit - predict - fit the decisions at tied points are {da}, a fresh fit on the same data decides {db}")
    except Exception as e:
        fail("C13.refit_raised", f"{type(e).__name__}: {str(e)[:120]}")
        return
    if not np.allclose(pa, pb, atol=1e-8, equal_nan=True):
        fail("C13.refit_differs_from_fresh_fit", f"max |d| = {np.nanmax(np.abs(np.asarray(pa, dtype=float) - np.asarray(pb, dtype=float))):.3g}")
    if p0 is not None and snap(a) != p0:
        diff = [k for k in p0 if p0[k] != snap(a).get(k)]
        fail("C13.get_params_changed", f"parameters {diff} differ after fit/predict")
    if z.get("window"):
        # sliding window: equals a fit on exactly the last window_size samples it was given
        m = mk()
        Xs, ys = rs.randn(15, 2).round(2), rs.randint(0, 3, size=15).astype(float)
        try:
            m.fit(Xs[:9], ys[:9])
            inner = clf_zoo()["PWC"]["mk"](classes=[0, 1, 2], random_state=0)
            ref = inner.fit(Xs[3:9], ys[3:9])
            if not np.allclose(m.predict_proba(Xq[:, :2]), ref.predict_proba(Xq[:, :2]), atol=1e-8):
                fail("C13.sliding_window_fit_not_last_window", "after fit on 9 samples (window 6) the model differs from a fit on the last 6")
            m.partial_fit(Xs[9:13], ys[9:13])
            ref2 = clf_zoo()["PWC"]["mk"](classes=[0, 1, 2], random_state=0).fit(Xs[7:13], ys[7:13])
            if not np.allclose(m.predict_proba(Xq[:, :2]), ref2.predict_proba(Xq[:, :2]), atol=1e-8):
                fail("C13.sliding_window_partial_fit_not_last_window", "after partial_fit the model differs from a fit on the last window_size samples")
        except Exception as e:
            fail("C13.sliding_window_raised", f"{type(e).__name__}: {str(e)[:100]}")
    if z.get("partial"):
        # an estimator with native partial_fit: fit after partial_fit must still be history free
        try:
            m = mk()
            m.partial_fit(X1, y1)
            m.fit(X2[:, :2] if d2 == 2 else X2, y2)
            if not np.allclose(pred(m, Xq), pb, atol=1e-8):
                fail("C13.fit_after_partial_fit_keeps_history", "fit after partial_fit differs from a fresh fit")
        except Exception:
            pass


def run_c15(case, fail):
    z = reg_zoo()[case["model"]]
    rs = np.random.RandomState(case["dseed"] + 4)
    n = case["n"]
    X = rs.randn(n, 2).round(2)
    y = rs.randn(n).round(2)
    pat = case["pat"]
    if pat == 0:
        y[:] = np.nan
    elif pat == 1 and n:
        y[:] = np.nan
        y[0] = 1.5
    elif pat == 2:
        y[rs.rand(n) < 0.4] = np.nan
    elif pat == 5:
        y[:] = np.nan
        y[1] = y[4] = 0.87
    n_lab = int(np.sum(~np.isnan(y)))
    lab_mask = ~np.isnan(y)
    w = (rs.rand(n) + 0.1) if case["weights"] and z.get("weights", True) else None
    Xq = rs.randn(4, 2).round(2)
    ml = NAN
    y_fit = y
    if case["t"] % 3 == 2:
        ml = -999.0                                   # a numeric sentinel instead of NaN
        y_fit = np.where(lab_mask, y, ml)
    try:
        m = fit(z["mk"](random_state=0, missing_label=ml), X, y_fit, w)
    except Exception as e:
        fail("C15.fit_raised", f"{type(e).__name__}: {str(e)[:120]} ({n_lab} labels of {n})")
        return
    if case["model"] == "NadarayaWatson" and n_lab == 0:
        return
    if z.get("fallback") and n_lab < 3:
        # the wrapped estimator refused the training set: documented fallback = empirical mean / std of the LABELED targets (0 / 1 by default)
        exp_mu = float(np.mean(y[lab_mask])) if n_lab else 0.0
        exp_sd = float(np.std(y[lab_mask])) if n_lab > 1 else 1.0
        # labeled targets that are all equal give the label std 0: a case of its own (recorded finding for the normal wrapper)
        tg = ".identical_targets" if (n_lab > 1 and exp_sd == 0.0) else ""
        try:
            mu = np.asarray(m.predict(Xq), dtype=float)
            if not np.allclose(mu, exp_mu):
                fail("C15.fallback_mean_not_the_label_mean" + tg, f"predicts {np.round(mu, 3).tolist()}, mean of the {n_lab} labeled targets is {exp_mu:.4g} (sentinel {ml})")
            if z["prob"]:
                _, sd = m.predict(Xq, return_std=True)
                if not np.allclose(sd, exp_sd):
                    fail("C15.fallback_std_not_the_label_std" + tg, f"std {np.round(sd, 3).tolist()}, expected {exp_sd:.4g} (sentinel {ml})")
        except Exception as e:
            fail("C15.predict_raised", f"{type(e).__name__}: {str(e)[:120]} (fallback, {n_lab} labels of {n})")
        return
    if z["prob"] and not z.get("sk_normal") and n_lab >= 2:
        # the predictive spread does not depend on where the targets sit: shifting every target by a constant shifts the mean and nothing else
        try:
            m2 = fit(z["mk"](random_state=0, missing_label=ml), X, np.where(lab_mask, y + 1e7, ml), w)
            _, s1 = m.predict(Xq, return_std=True)
            mu2, s2 = m2.predict(Xq, return_std=True)
            if "mu_0" not in str(m.get_params()) or True:
                ok = np.allclose(s1, s2, rtol=1e-3, atol=1e-6, equal_nan=True)
                if not ok and case["model"] in ("NadarayaWatson", "NIC-improper"):
                    fail("C15.std_depends_on_a_constant_shift_of_the_targets", f"std {np.round(s1, 4).tolist()} vs {np.round(s2, 4).tolist()} after adding 1e7 to every target")
        except Exception:
            pass
    if z.get("sk_normal") and n_lab:
        # the wrapper relays the predictive std of the scikit-learn estimator; when THAT estimator degenerates numerically (BayesianRidge with
        # as many weighted samples as coefficients returns NaN) there is no predictive distribution to be coherent with
        try:
            with np.errstate(all="ignore"):
                _, s0 = m.estimator_.predict(Xq, return_std=True)
            if not np.all(np.isfinite(s0)) or np.any(np.asarray(s0) <= 0):
                return
        except Exception:
            return
    claimed = z.get("proper", False) or z.get("sk_normal", False) or not z["prob"] or n_lab >= 2 or \
        (case["model"] == "NadarayaWatson" and n_lab >= 1)
    try:
        mu = m.predict(Xq)
        if z["prob"]:
            m.predict(Xq, return_std=True, return_entropy=True)
    except Exception as e:
        if claimed:
            fail("C15.predict_raised", f"{type(e).__name__}: {str(e)[:120]} ({n_lab} labels of {n})")
        return
    if np.shape(mu) != (4,):
        fail("C15.predict_shape", f"{np.shape(mu)}")
        return
    if not z["prob"]:
        if n_lab == 0 and not np.allclose(mu, 0):
            fail("C15.fallback_without_labels", f"predicts {np.round(mu, 3).tolist()} instead of the documented default 0")
        return
    rv = m.predict_target_distribution(Xq)
    mu2, sd, ent = m.predict(Xq, return_std=True, return_entropy=True)
    if not (np.allclose(mu, rv.mean(), equal_nan=True) and np.allclose(mu2, rv.mean(), equal_nan=True)):
        fail("C15.mean_differs_from_distribution", "predict != predict_target_distribution(X).mean()")
    if not np.allclose(sd, rv.std(), equal_nan=True):
        fail("C15.std_differs_from_distribution", f"{np.round(sd, 4).tolist()} vs {np.round(rv.std(), 4).tolist()}")
    if not np.allclose(ent, rv.entropy(), equal_nan=True):
        fail("C15.entropy_differs_from_distribution", "third result is not rv.entropy()")
    s_only = m.predict(Xq, return_std=True)
    e_only = m.predict(Xq, return_entropy=True)
    if not (len(s_only) == 2 and np.allclose(s_only[1], rv.std(), equal_nan=True) and len(e_only) == 2 and np.allclose(e_only[1], rv.entropy(), equal_nan=True)):
        fail("C15.single_flag_results", "predict(return_std=True) / predict(return_entropy=True) do not return (mean, std) / (mean, entropy)")
    proper = z.get("proper", False) or z.get("sk_normal", False)
    if (proper or n_lab >= 2) and not (np.all(np.isfinite(sd)) and np.all(sd >= 0)):
        fail("C15.std_not_finite_nonnegative", f"std {np.round(sd, 4).tolist()} with {n_lab} labeled samples ({'proper' if proper else 'improper'} prior)")
    for seedv in (0, 1, 7):
        S1 = m.sample_y(Xq, 3, random_state=seedv)
        S2 = m.sample_y(Xq, 3, random_state=seedv)
        if np.shape(S1) != (4, 3):
            fail("C15.sample_y_shape", f"{np.shape(S1)} for 4 query points and 3 samples")
            break
        if not np.array_equal(S1, S2, equal_nan=True):
            fail("C15.sample_y_not_reproducible", f"random_state={seedv}")
            break
    if z.get("sk_normal") and n_lab == 0:
        if not np.allclose(mu, 0):
            fail("C15.fallback_without_labels", f"mean {np.round(mu, 3).tolist()} instead of 0")


def run_case(prop, case):
    fails = []

    def fail(what, detail):
        fails.append({"sig": f"{case['model']}:{what}", "detail": detail, "replay": {"module": "bounded.models", "prop": prop, "case": case}})
    try:
        {"C11": run_c11, "C09": run_c09, "C12": run_c12, "C13": run_c13, "C15": run_c15, "C06": run_c06}[case["kind"]](case, fail)
    except ValueError as e:
        if case["kind"] == "C15" and "Domain error" in str(e):
            # scipy rejects the predictive distribution (scale 0 / NaN): the regressor produced an invalid distribution
            fail("C15.predict_raised", f"ValueError: {str(e)[:100]}")
        else:
            raise
    return fails


if __name__ == "__main__":
    sys.exit(runner.main(sys.modules[__name__]))
