"""Bounded stand-in for C19 (IndexClassifierWrapper), C20 (wrapper strategies) and C07 (multi-annotator queries).
Run-time contract evaluation on generated operation sequences / inputs; never counted as proof."""
import os
import sys
import numpy as np

sys.path.insert(0, os.path.dirname(os.path.dirname(os.path.abspath(__file__))))
from bounded import runner
from bounded.poolzoo import ZOO, make_strategy, make_data, pwc, NAN

RULE = ("C19: random operation sequences (fit / partial_fit from current or base / base updates) x flags x wrapped classifier; "
        "C20: wrapped vs unwrapped queries for every compatible inner strategy; C07: wrapper x 5 candidate/annotator modes x missing patterns; "
        "non-trivial = oracle evaluated; distinct = distinct case keys")
BOUND = {"quick": "sequences <= 6 operations on 10 samples; n <= 9 samples, <= 4 annotators", "thorough": "sequences <= 10, more seeds"}
CASE_TIMEOUT = {"quick": 60, "thorough": 300}
TIMEOUT_IS_VIOLATION = True
QUERY_TIMER_S = 8        # a multi-annotator query on <= 9 samples that needs longer does not terminate (C07)


def cases(prop, tier, seed):
    rs = np.random.RandomState(seed + 5)
    out = []
    reps = 1 if tier == "quick" else 12
    if prop == "C19":
        for clfname in ("PWC", "GaussianNB", "SGD", "PWC-speedup"):
            for t in range(30 * reps):
                out.append(dict(kind="C19", clf=clfname, dseed=int(rs.randint(1 << 30)), unique=bool(t % 2), ignore_pf=bool((t // 2) % 2),
                                weights=bool((t // 4) % 2), nops=int(rs.randint(2, 7 if tier == "quick" else 11)), t=t,
                                cls=f"IndexClassifierWrapper[{clfname}{',weights' if (t // 4) % 2 else ''}]",
                                key=["C19", clfname, t]))
    elif prop == "C20":
        # (TypiClust, BatchBALD and US-eap used to be left out because of C01 findings of their own; those are repaired: aebbe27d, 889558da, 7e343c4b)
        inner = [n for n, z in ZOO.items() if not n.startswith(("SubSampling", "Parallel")) and z["kind"] == "clf"
                 and not z["slow"]]
        for name in inner:
            for t in range(4 * reps):
                out.append(dict(kind="C20", inner=name, dseed=int(rs.randint(1 << 30)), n=int(rs.randint(6, 11)), nl=int(rs.choice([0, 2, 3])),
                                mode=("none", "idx", "rows")[t % 3], excl=bool(t % 2), mc=(0.5, 3, 0.3, 100)[t % 4], b=int(rs.randint(1, 4)),
                                jobs=(1, 2, 3, -1)[t % 4], sseed=int(rs.randint(0, 30)), t=t, cls=name, key=["C20", name, t]))
    if prop == "C20":
        # third clause of C20: the single-annotator wrapper chooses samples in the order the wrapped strategy ranks them
        for name in ("US-least_confident", "US-margin", "US-entropy", "ProbabilisticAL", "QBC-KL", "EpistemicUS", "RandomSampling"):
            for t in range(6 * reps):
                out.append(dict(kind="C20rank", inner=name, dseed=int(rs.randint(1 << 30)), n=int(rs.randint(5, 10)), a=int(rs.randint(2, 5)),
                                mode=t % 3, b=int(rs.randint(1, 5)), sseed=int(rs.randint(0, 30)), t=t, cls="SingleAnnotatorWrapper[" + name + "]",
                                key=["C20rank", name, t]))
    if prop == "C06":
        # reproducibility of the multi-annotator strategies (the single-annotator ones are swept by bounded/pool.py)
        for name in ("IntervalEstimationThreshold", "RandomSampling", "US-margin"):
            for t in range(8 * reps):
                out.append(dict(kind="C06multi", inner=name, dseed=int(rs.randint(1 << 30)), n=int(rs.randint(4, 9)), a=int(rs.randint(2, 5)),
                                b=int(rs.randint(1, 6)), sseed=int(rs.randint(0, 30)), t=t, cls=name + "[multi-annotator]", key=["C06multi", name, t]))
    if prop == "C05":
        # the multi-annotator strategies (the single-annotator ones are swept by bounded/pool.py)
        for name in ("RandomSampling", "US-margin", "ProbabilisticAL", "IntervalEstimationThreshold"):
            for t in range(10 * reps):
                out.append(dict(kind="C05", inner=name, dseed=int(rs.randint(1 << 30)), n=int(rs.randint(3, 9)), a=int(rs.randint(1, 5)),
                                mode=t % 5, b=int(rs.randint(1, 6)), naps=int(rs.randint(1, 4)), sseed=int(rs.randint(0, 30)), t=t, cls=name,
                                key=["C05", name, t]))
    elif prop == "C07":
        # modes 1-3 offer labeled samples as candidates as well: inner strategies must accept arbitrary index sets (sample-wise scoring)
        inner = ["RandomSampling", "US-least_confident", "US-margin", "US-entropy", "ProbabilisticAL", "QBC-KL", "QBC-vote_entropy", "GreedyBALD",
                 "EpistemicUS", "TypiClust"]          # TypiClust: utilities of -inf for samples outside the chosen cluster
        for name in inner + ["IntervalEstimationThreshold"]:
            for t in range(25 * reps):
                out.append(dict(kind="C07", inner=name, dseed=int(rs.randint(1 << 30)), n=int(rs.randint(3, 9)), a=int(rs.randint(1, 5)),
                                mode=t % 5, b=int(rs.randint(1, 8)) + (4 if t % 3 == 2 else 0), naps=int(rs.randint(1, 4)), sseed=int(rs.randint(0, 30)), t=t, cls=name,
                                key=["C07", name, t]))
            if name != "IntervalEstimationThreshold":
                # structured cases (the same in every run): unequal availability, a request larger than some rows can take, batch = capacity
                for j, (rows_av, naps_, b_) in enumerate((((1, 3, 2, 3), 2, 7), ((2, 1, 3), 3, 6), ((1, 1, 2, 2), 2, 6))):
                    out.append(dict(kind="C07", inner=name, dseed=1000 + j, n=len(rows_av) + 1, a=3, mode=3, b=b_, naps=naps_, sseed=j, t=3 * j,
                                    structured=list(rows_av), cls=name, key=["C07", name, "structured", j]))
    return out


# ---------------------------------------------------------------------------------------------------------- C19
def mk_clf(name):
    from skactiveml.classifier import ParzenWindowClassifier, SklearnClassifier
    from sklearn.naive_bayes import GaussianNB
    from sklearn.linear_model import SGDClassifier
    if name.startswith("PWC"):
        return ParzenWindowClassifier(classes=[0, 1], metric_dict={"gamma": 0.6}, random_state=0)
    if name == "GaussianNB":
        return SklearnClassifier(GaussianNB(), classes=[0, 1], random_state=0)
    return SklearnClassifier(SGDClassifier(loss="log_loss", random_state=0, tol=None, max_iter=5, shuffle=False), classes=[0, 1], random_state=0)


def run_c19(case, fail):
    from skactiveml.pool.utils import IndexClassifierWrapper
    from sklearn.base import clone
    rs = np.random.RandomState(case["dseed"])
    n = 10
    X = rs.randn(n, 2).round(2)
    y = rs.randint(0, 2, size=n).astype(float)
    y[rs.rand(n) < 0.2] = np.nan
    w = (rs.rand(n) + 0.2).round(2) if case["weights"] else None
    speed = case["clf"] == "PWC-speedup"
    clf = mk_clf(case["clf"])
    native = hasattr(clf, "partial_fit") and not case["ignore_pf"]
    if case["clf"].startswith("PWC") and case["t"] % 2 == 0:
        # a wrapper around a classifier that is fitted already: before the first fit through the wrapper its predictions are those of the
        # given classifier (labels from predict, probabilities from predict_proba, frequencies from predict_freq), with or without speed-up
        pre = mk_clf(case["clf"])
        lab = ~np.isnan(y)
        if lab.sum() >= 2:
            pre.fit(X, y)
            import warnings as _w
            with _w.catch_warnings():
                _w.simplefilter("ignore")
                iw0 = IndexClassifierWrapper(pre, X, y, use_speed_up=speed)
                qi = rs.permutation(n)[:5]
                for meth in ("predict", "predict_proba", "predict_freq"):
                    try:
                        got = np.asarray(getattr(iw0, meth)(qi))
                        want = np.asarray(getattr(pre, meth)(X[qi]))
                    except Exception as e:
                        fail("C19.prefitted_predict_raised", f"{meth}: {type(e).__name__}: {str(e)[:100]}")
                        break
                    if got.shape != want.shape or not np.allclose(got.astype(float), want.astype(float), equal_nan=True):
                        fail("C19.prefitted_wrapper_differs_from_the_classifier", f"{meth} of the wrapper has shape {got.shape}, the classifier's own {meth} "
                                                                                 f"{want.shape} (use_speed_up={speed})")
                        break
    iw = IndexClassifierWrapper(clf, X, y, sample_weight=w, ignore_partial_fit=case["ignore_pf"], enforce_unique_samples=case["unique"],
                                use_speed_up=speed)
    if speed:
        iw.precompute(np.arange(n), np.arange(n))
    # reference bookkeeping: the implied multiset of (index, label, weight) triples, and for native partial_fit the call history
    cur, base = None, None
    ops = []
    q_idx = rs.permutation(n)[:6]          # unsorted prediction indices
    for step in range(case["nops"]):
        fitted = cur is not None
        kind = "fit" if not fitted else str(rs.choice(["fit", "partial", "partial_base"] if base is not None else ["fit", "partial"]))
        k = int(rs.randint(1, 5))
        idx = rs.choice(n, k, replace=False)
        yo = None
        if rs.rand() < 0.4:
            yo = rs.randint(0, 2, size=k).astype(float)          # label override
        wo = (rs.rand(k) + 0.2).round(2) if (w is not None and rs.rand() < 0.4) else None
        set_base = bool(rs.rand() < 0.5)
        ops.append((kind, idx.tolist(), None if yo is None else yo.tolist(), set_base))
        yy = y[idx] if yo is None else yo
        ww = (None if w is None else w[idx]) if wo is None else wo
        if np.isnan(yy).all() and kind == "fit":
            yy = yy.copy()
            yo = np.where(np.isnan(yy), 1.0, yy)
            yy = yo
        try:
            if kind == "fit":
                iw.fit(idx, y=yo, sample_weight=wo, set_base_clf=set_base)
                cur = [("fit", idx, yy, ww)] if native else (idx, yy, ww)
            else:
                use_base = kind == "partial_base"
                iw.partial_fit(idx, y=yo, sample_weight=wo, use_base_clf=use_base, set_base_clf=set_base)
                src = base if use_base else cur
                if native:
                    cur = list(src) + [("partial", idx, yy, ww)]
                else:
                    I, Y, W = src
                    keep = np.array([i not in idx for i in I], dtype=bool) if case["unique"] else np.ones(len(I), dtype=bool)
                    cur = (np.concatenate([I[keep], idx]), np.concatenate([Y[keep], yy]),
                           None if W is None else np.concatenate([W[keep], ww]))
            if set_base:
                base = list(cur) if native else tuple(None if c is None else c.copy() for c in cur)
        except Exception as e:
            fail("C19.operation_raised", f"{type(e).__name__}: {str(e)[:100]} after {ops}")
            return
        # independently retrained reference
        ref = clone(mk_clf(case["clf"]))
        try:
            if native:
                for j, (kd, I, Y, W) in enumerate(cur):
                    if kd == "fit":
                        ref = clone(mk_clf(case["clf"]))
                        ref.fit(X[I], Y, sample_weight=W) if W is not None else ref.fit(X[I], Y)
                    else:
                        ref.partial_fit(X[I], Y, sample_weight=W) if W is not None else ref.partial_fit(X[I], Y)
            else:
                I, Y, W = cur
                ref.fit(X[I], Y, sample_weight=W) if W is not None else ref.fit(X[I], Y)
            P_ref = ref.predict_proba(X[q_idx])
            P = iw.predict_proba(q_idx)
        except Exception as e:
            fail("C19.predict_raised", f"{type(e).__name__}: {str(e)[:100]} after {ops}")
            return
        if np.shape(P) != np.shape(P_ref) or not np.allclose(P, P_ref, atol=1e-9):
            fail("C19.differs_from_retrained_copy", f"after {ops}: max |d| = {np.max(np.abs(np.asarray(P) - P_ref)) if np.shape(P) == np.shape(P_ref) else 'shape ' + str(np.shape(P))}")
            return
        if case["clf"].startswith("PWC"):
            if not np.allclose(iw.predict_freq(q_idx), ref.predict_freq(X[q_idx]), atol=1e-9):
                fail("C19.predict_freq_differs", f"after {ops}")
                return
            if list(iw.predict(q_idx)) != list(ref.predict(X[q_idx])) and not np.any(np.isclose(P_ref[:, 0], P_ref[:, 1])):
                fail("C19.predict_differs", f"after {ops}")
                return


# ---------------------------------------------------------------------------------------------------------- C20
def run_c20(case, fail):
    from skactiveml.pool import SubSamplingWrapper, ParallelUtilityEstimationWrapper
    from math import ceil
    name = case["inner"]
    z = ZOO[name]
    X, y = make_data(case["dseed"], case["n"], case["nl"], "clf", "rand")
    unl = np.where(np.isnan(y))[0]
    rs = np.random.RandomState(case["dseed"] + 1)
    mode = case["mode"] if (case["mode"] != "rows" or z["rows"]) else "none"
    if mode == "none":
        cand, cset, ncols = None, unl.tolist(), len(X)
    elif mode == "idx":
        pool_ = np.arange(len(X)) if (z["arbitrary_idx"] and case["dseed"] % 2 == 0) else unl     # index candidates may be labeled already
        cand = rs.choice(pool_, int(rs.randint(2, len(pool_) + 1)), replace=False)
        cset, ncols = sorted(cand.tolist()), len(X)
    else:
        cand = rs.randn(int(rs.randint(2, 6)), 2).round(2)
        cset, ncols = list(range(len(cand))), len(cand)
    kw = lambda: z["kwargs"](NAN, (0, 1), case["sseed"])
    # --- parallel wrapper: same utilities, same selection for equal seeds
    try:
        inner = make_strategy(name, case["sseed"])
        qi, Ui = inner.query(X, y, candidates=cand, batch_size=1, return_utilities=True, **kw())
        par = ParallelUtilityEstimationWrapper(make_strategy(name, case["sseed"]), n_jobs=case["jobs"], parallel_dict={"backend": "threading"},
                                               random_state=case["sseed"])
        qp, Up = par.query(X, y, candidates=cand, batch_size=1, return_utilities=True, **kw())
    except Exception as e:
        qi = None
        if z["samplewise"][0] and z["rows"]:
            fail("C20.parallel_raised", f"{type(e).__name__}: {str(e)[:100]}")
    # the parallel wrapper documents: the inner strategy must score candidate rows independently and deterministically
    # (RandomSampling draws its utilities, vote entropy uses randomly tie-broken hard votes)
    if qi is not None and z["samplewise"][0] and z["rows"] and name not in ("RandomSampling", "QBC-vote_entropy"):
        if np.shape(Up) != np.shape(Ui) or not np.allclose(Up, Ui, equal_nan=True, atol=1e-9):
            fail("C20.parallel_utilities_differ", f"n_jobs={case['jobs']}: utilities differ from the wrapped strategy's")
        elif list(np.asarray(qp).ravel()) != list(np.asarray(qi).ravel()):
            fail("C20.parallel_selection_differs", f"n_jobs={case['jobs']}: {qp} vs {qi} for equal seeds")
    # --- sub-sampling wrapper
    mc = case["mc"]
    sub_n = min(ceil(len(cset) * mc) if isinstance(mc, float) else mc, len(cset))
    try:
        ss = SubSamplingWrapper(make_strategy(name, case["sseed"]), max_candidates=mc, exclude_non_subsample=case["excl"], random_state=case["sseed"])
        q, U = ss.query(X, y, candidates=cand, batch_size=case["b"], return_utilities=True, **kw())
    except Exception as e:
        if case["excl"] and (mode == "rows" and case["nl"] == 0):
            return      # known finding of C01 (cold start, rows, exclude)
        if case["excl"] and not z["arbitrary_idx"] and name not in ("RandomSampling",):
            return      # inner strategies that need their own neighbourhood of unlabeled data may reject the reduced pool
        fail("C20.subsampling_raised", f"{type(e).__name__}: {str(e)[:100]} (mode {mode}, exclude {case['excl']}, max_candidates {mc})")
        return
    q = np.asarray(q).ravel()
    U = np.asarray(U, dtype=float)
    # the selection must not depend on whether the utilities are requested
    try:
        ss2 = SubSamplingWrapper(make_strategy(name, case["sseed"]), max_candidates=mc, exclude_non_subsample=case["excl"], random_state=case["sseed"])
        q2 = np.asarray(ss2.query(X, y, candidates=cand, batch_size=case["b"], return_utilities=False, **kw())).ravel()
        if q2.tolist() != q.tolist():
            fail("C20.subsampling_selection_depends_on_return_utilities", f"{q2.tolist()} without utilities vs {q.tolist()} with utilities (equal seeds)")
    except Exception as e:
        fail("C20.subsampling_raised_without_utilities", f"{type(e).__name__}: {str(e)[:100]}")
    k = min(case["b"], sub_n)
    if len(q) != k or len(set(q.tolist())) != len(q) or not set(q.tolist()) <= set(cset):
        fail("C20.subsampling_selection", f"selected {q.tolist()}, expected {k} distinct candidates out of {cset}")
        return
    if U.ndim != 2 or U.shape[1] != ncols:
        fail("C20.subsampling_utilities_shape", f"{U.shape}")
        return
    row = U[0]
    finite = set(np.where(np.isfinite(row))[0].tolist())
    neginf = set(np.where(np.isneginf(row))[0].tolist())
    nan = set(np.where(np.isnan(row))[0].tolist())
    if nan != set(range(ncols)) - set(cset):
        fail("C20.subsampling_nan_at_non_candidates", f"NaN positions {sorted(nan)}, non-candidates {sorted(set(range(ncols)) - set(cset))}")
    if z["samplewise"][0] and (len(finite) != sub_n or not finite <= set(cset)):
        fail("C20.subsampling_subset_size", f"{len(finite)} candidates carry a utility, documented size {sub_n} (max_candidates={mc}, {len(cset)} candidates)")
    if (finite | neginf) != set(cset):
        fail("C20.subsampling_minus_inf_for_other_candidates", f"-inf at {sorted(neginf)}, finite at {sorted(finite)}, candidates {cset}")
    if z["samplewise"][0] and not set(q.tolist()) <= finite:
        fail("C20.subsampling_selected_outside_subset", f"{q.tolist()} not within the sub-sample {sorted(finite)}")
    # the reported utilities are the wrapped strategy's for that subset (sample-wise strategies, no exclusion)
    if z["samplewise"][0] and not case["excl"] and qi is not None and mode != "rows" and finite:
        f = sorted(finite)
        try:
            _, Uref = make_strategy(name, case["sseed"]).query(X, y, candidates=np.array(f), batch_size=1, return_utilities=True, **kw())
            if not np.allclose(row[f], np.asarray(Uref)[0][f], atol=1e-9):
                fail("C20.subsampling_utilities_not_inner", "utilities of the sub-sample differ from the wrapped strategy's utilities")
        except Exception:
            pass


def run_c06_multi(case, fail):
    """twins with equal seeds (int and RandomState instances), a repeated call on one object and different global seeds: identical pairs and
    utilities; the data are full of ties (duplicated rows, tied votes, annotators with equal performance)"""
    from skactiveml.pool.multiannotator import SingleAnnotatorWrapper, IntervalEstimationThreshold
    from skactiveml.classifier.multiannotator import AnnotatorEnsembleClassifier
    rs = np.random.RandomState(case["dseed"])
    n, a, name = case["n"], case["a"], case["inner"]
    X = rs.randint(0, 2, size=(n, 2)).astype(float)                 # duplicated points
    Y = rs.randint(0, 2, size=(n, a)).astype(float)
    Y[:, 1:] = 1 - Y[:, :1] if a == 2 else Y[:, 1:]               # two annotators: always tied votes
    Y[rs.rand(n, a) < 0.4] = np.nan
    Y[0, :] = np.nan

    def run(seed_obj, gseed):
        np.random.seed(gseed)
        if name == "IntervalEstimationThreshold":
            qs = IntervalEstimationThreshold(random_state=seed_obj)
            clf = AnnotatorEnsembleClassifier(estimators=[(f"p{j}", pwc(seed=3)) for j in range(a)], classes=[0, 1], voting="soft", random_state=3)
            return qs, lambda: qs.query(X, Y, clf=clf, batch_size=case["b"], return_utilities=True)
        z = ZOO[name]
        qs = SingleAnnotatorWrapper(make_strategy(name, case["sseed"]), random_state=seed_obj)
        return qs, lambda: qs.query(X, Y, batch_size=case["b"], return_utilities=True, **z["kwargs"](NAN, (0, 1), case["sseed"]))
    import signal

    class _T(Exception):
        pass

    def _al(*_a):
        raise _T()
    old = signal.signal(signal.SIGALRM, _al)
    signal.alarm(6)
    try:
        outs = {}
        for tag, mk in (("int", lambda: case["sseed"]), ("RandomState", lambda: np.random.RandomState(case["sseed"]))):
            res = []
            for g in (1, 2):
                _, call = run(mk(), g)
                q, U = call()
                res.append((np.asarray(q).tolist(), np.round(np.asarray(U, dtype=float), 12).tobytes()))
            if res[0] != res[1]:
                fail(f"C06.multiannotator_twins_differ.{tag}", f"two fresh objects with equal seeds ({tag}) return {res[0][0]} and {res[1][0]} under different global seeds")
            outs[tag] = res[0]
        for tag, mk in (("int", lambda: case["sseed"]), ("RandomState", lambda: np.random.RandomState(case["sseed"]))):
            qs, call = run(mk(), 5)
            r1 = call()
            r2 = call()
            if np.asarray(r1[0]).tolist() != np.asarray(r2[0]).tolist() or \
                    not np.array_equal(np.asarray(r1[1], dtype=float), np.asarray(r2[1], dtype=float), equal_nan=True):
                fail(f"C06.multiannotator_repeated_call_differs.{tag}", f"{np.asarray(r1[0]).tolist()} then {np.asarray(r2[0]).tolist()} for the same call "
                                                                         f"on one object (random_state given as {tag})")
    except _T:
        return
    except Exception:
        return          # raising / non-termination is C07's business
    finally:
        signal.alarm(0)
        signal.signal(signal.SIGALRM, old)
        np.random.seed(None)


def run_c20_rank(case, fail):
    """SingleAnnotatorWrapper: with one annotator per sample the samples of the returned pairs are, in order, the wrapped strategy's own
    ranking for the same (X, aggregated y, selectable samples, batch size) — twin inner strategy with the same seed"""
    from skactiveml.pool.multiannotator import SingleAnnotatorWrapper
    rs = np.random.RandomState(case["dseed"])
    n, a, name = case["n"], case["a"], case["inner"]
    z = ZOO[name]
    X = rs.randn(n, 2).round(2)
    Y = rs.randint(0, 2, size=(n, a)).astype(float)
    Y[rs.rand(n, a) < 0.5] = np.nan
    Y[0, :] = np.nan
    Y[1, 0], Y[2, 0] = 0.0, 1.0                     # both classes observed
    agg = lambda yy: np.array([r[~np.isnan(r)][0] if (~np.isnan(r)).any() else np.nan for r in np.asarray(yy, dtype=float)])
    mode = case["mode"]
    cand = annot = None
    if mode == 0:
        rows = [i for i in range(n) if np.isnan(Y[i]).any()]
    elif mode == 1:
        annot = np.sort(rs.choice(a, int(rs.randint(1, a + 1)), replace=False))
        rows = list(range(n))
    else:
        cand = np.sort(rs.choice(n, int(rs.randint(2, n + 1)), replace=False))
        rows = cand.tolist()
    b = min(case["b"], len(rows))
    if b < 1:
        return
    kw = lambda: z["kwargs"](NAN, (0, 1), case["sseed"])
    try:
        ranking = np.asarray(make_strategy(name, case["sseed"]).query(X, agg(Y), candidates=np.array(rows), batch_size=b, **kw())).ravel().tolist()
        qs = SingleAnnotatorWrapper(make_strategy(name, case["sseed"]), y_aggregate=agg, random_state=case["sseed"])
        q = np.asarray(qs.query(X, Y, candidates=cand, annotators=annot, batch_size=b, n_annotators_per_sample=1, **kw()))
    except Exception as e:
        return          # raising is judged by C07
    order = []
    for s_ in q[:, 0].tolist():
        if s_ not in order:
            order.append(int(s_))
    if order != [int(v) for v in ranking][:len(order)] or len(order) != b:
        fail("C20.single_annotator_wrapper_ignores_the_ranking", f"samples of the selected pairs in order {order}, the wrapped strategy ranks {ranking} "
                                                                 f"(mode {mode}, batch {b}, one annotator per sample)")
        return
    if mode != 2 or a < 2:
        return
    # several annotators per sample with explicit annotator performances that include the extreme values 0.0 and 1.0: every annotator is available
    # for every candidate, so the pairs must come sample by sample in the wrapped strategy's order, k pairs per sample (the last block may be cut)
    k = int(rs.randint(2, a + 1))
    perf = np.concatenate([[0.0, 1.0], rs.uniform(0.1, 0.9, size=a - 2)])[rs.permutation(a)]
    b2 = min(len(rows) * k, 2 * k + 1)
    try:
        ranking2 = np.asarray(make_strategy(name, case["sseed"]).query(X, agg(Y), candidates=np.array(rows), batch_size=min(b2, len(rows)), **kw())).ravel().tolist()
    except Exception:
        return
    expected = np.repeat(ranking2, k)[:b2].tolist()
    for ws in range(3):
        try:
            qs = SingleAnnotatorWrapper(make_strategy(name, case["sseed"]), y_aggregate=agg, random_state=case["sseed"] + ws)
            q2 = np.asarray(qs.query(X, Y, candidates=cand, annotators=None, batch_size=b2, n_annotators_per_sample=k, A_perf=perf, **kw()))
        except Exception:
            return
        got = [int(v) for v in q2[:, 0]]
        if got != [int(v) for v in expected]:
            fail("C20.single_annotator_wrapper_leaves_a_sample_before_its_annotators_are_used", f"samples of the selected pairs {got}, expected {expected}: the wrapped "
                 f"strategy ranks {ranking2}, {k} annotators per sample, annotator performances {np.round(perf, 2).tolist()} (wrapper seed +{ws})")
            return


# ---------------------------------------------------------------------------------------------------------- C07
def run_c07(case, fail):
    from skactiveml.pool.multiannotator import SingleAnnotatorWrapper, IntervalEstimationThreshold
    rs = np.random.RandomState(case["dseed"])
    n, a = case["n"], case["a"]
    X = rs.randn(n, 2).round(2)
    Y = rs.randint(0, 2, size=(n, a)).astype(float)
    Y[rs.rand(n, a) < 0.6] = np.nan
    if not np.isnan(Y).any():
        Y[0, 0] = np.nan
    mode = case["mode"]
    unl_pairs = np.isnan(Y)
    cand = annot = None
    if mode == 0:
        avail = {(i, j) for i in range(n) for j in range(a) if unl_pairs[i, j]}
        ncand_rows = n
    elif mode == 1:      # candidates None, annotator indices
        annot = rs.choice(a, int(rs.randint(1, a + 1)), replace=False)
        avail = {(i, int(j)) for i in range(n) for j in annot}
        ncand_rows = n
    elif mode == 2:      # candidate indices, annotators None
        cand = rs.choice(n, int(rs.randint(1, n + 1)), replace=False)
        avail = {(int(i), j) for i in cand for j in range(a)}
        ncand_rows = n
    elif mode == 3:      # candidate indices + boolean availability matrix
        cand = rs.choice(n, int(rs.randint(1, n + 1)), replace=False)      # caller order, not sorted: matrix rows follow it
        A = rs.rand(len(cand), a) < 0.6
        if case.get("structured"):
            cand = np.arange(len(case["structured"]))[::-1].copy()
            A = np.array([[j < v for j in range(a)] for v in case["structured"]])
        if case["t"] % 2:
            A = A.astype(int)            # 0/1 integer availability matrix
        annot = A
        avail = {(int(cand[r]), j) for r in range(len(cand)) for j in range(a) if A[r, j]}
        ncand_rows = n
    else:                # feature-row candidates + boolean matrix
        m = int(rs.randint(1, 6))
        cand = rs.randn(m, 2).round(2)
        A = rs.rand(m, a) < 0.7
        annot = A
        avail = {(r, j) for r in range(m) for j in range(a) if A[r, j]}
        ncand_rows = m
    if not avail:
        return
    k = min(case["b"], len(avail))
    name = case["inner"]
    import signal

    class _NoTermination(Exception):
        pass

    def _alarm(*a_):
        raise _NoTermination()
    import copy, pickle
    frozen = copy.deepcopy((X, Y, cand, annot))          # C05 for the multi-annotator strategies: the caller's data survive the query
    old = signal.signal(signal.SIGALRM, _alarm)
    signal.alarm(QUERY_TIMER_S if case["kind"] == "C07" else 3)
    try:
        if name == "IntervalEstimationThreshold":
            if mode == 4:
                return
            qs = IntervalEstimationThreshold(random_state=case["sseed"])
            from skactiveml.classifier.multiannotator import AnnotatorEnsembleClassifier
            mclf = AnnotatorEnsembleClassifier(estimators=[(f"pwc{j}", pwc(seed=case["sseed"])) for j in range(a)], classes=[0, 1],
                                               voting="soft", random_state=case["sseed"])
            q, U = qs.query(X, Y, clf=mclf, candidates=cand, annotators=annot, batch_size=case["b"], return_utilities=True)
            naps = None
        else:
            z = ZOO[name]
            if mode == 4 and not z["rows"]:
                return
            # every fourth case re-encodes the labels: -1 as sentinel, or strings with the sentinel 'none' (the availability of a pair
            # and everything judged below is the same; the wrapper aggregates with its own missing_label)
            ml_q, classes_q, Yq = NAN, (0, 1), Y
            if case["t"] % 8 == 3:
                ml_q, Yq = -1, np.where(np.isnan(Y), -1.0, Y)
            elif case["t"] % 8 == 7:
                ml_q, classes_q = "none", ("a", "b")
                Yq = np.where(np.isnan(Y), "none", np.where(Y == 0, "a", "b")).astype("U4")
            qs = SingleAnnotatorWrapper(make_strategy(name, case["sseed"], ml_q, classes_q), missing_label=ml_q, random_state=case["sseed"])
            naps = case["naps"]
            if case["t"] % 3 == 2:
                # array-valued request: entry i for the i-th sample of the ranking, the last entry for all later samples (documented)
                rs_n = np.random.RandomState(case["dseed"] + 7)
                naps = [int(v) for v in rs_n.randint(1, 4, size=int(rs_n.randint(1, 4)))]
                if len(naps) >= 2 and len(set(naps)) == 1:
                    naps[0] = naps[0] % 3 + 1            # non-constant requests are the interesting ones
            q, U = qs.query(X, Yq, candidates=cand, annotators=annot, batch_size=case["b"], n_annotators_per_sample=naps,
                            return_utilities=True, **z["kwargs"](ml_q, classes_q, case["sseed"]))
    except _NoTermination:
        if case["kind"] == "C05":
            return          # termination is C07's business (known finding there)
        fail("C07.query_does_not_terminate", f"no result within {QUERY_TIMER_S}s (mode {mode}, batch {case['b']}, n_annotators_per_sample {case.get('naps')}, "
                                             f"availability rows {[int(sum(1 for p in avail if p[0] == r)) for r in sorted({p[0] for p in avail})]})")
        return
    except Exception as e:
        if case["kind"] == "C05":
            return
        fail(f"C07.query_raised[{type(e).__name__}]", f"{str(e)[:120]} (mode {mode}, batch {case['b']}, n_annotators_per_sample {case.get('naps')})")
        return
    finally:
        signal.alarm(0)
        signal.signal(signal.SIGALRM, old)
    if case["kind"] == "C05":
        same = lambda u, v: (u is None and v is None) or (u is not None and v is not None and np.shape(u) == np.shape(v)
                                                         and np.array_equal(np.asarray(u, dtype=float), np.asarray(v, dtype=float), equal_nan=True))
        for nm, before, after in zip(("X", "y", "candidates", "annotators"), frozen, (X, Y, cand, annot)):
            if not same(before, after):
                fail("C05.multiannotator_query_changed_caller_data", f"`{nm}` was modified in place by the query (mode {mode})")
        return
    q = np.asarray(q)
    if q.ndim != 2 or q.shape[1] != 2 or not np.issubdtype(q.dtype, np.integer):
        fail("C07.result_shape", f"shape {q.shape}, dtype {q.dtype}")
        return
    pairs = [tuple(int(v) for v in r) for r in q.tolist()]
    if len(pairs) != k:
        fail("C07.wrong_size", f"{len(pairs)} pairs, expected min(batch_size, #available pairs) = {k}")
    if len(set(pairs)) != len(pairs):
        fail("C07.duplicate_pairs", f"{pairs}")
    bad = [p for p in pairs if p not in avail]
    if bad:
        fail("C07.unavailable_pair_selected", f"{bad} (mode {mode})")
    U = np.asarray(U, dtype=float)
    if U.shape != (len(pairs), ncand_rows, a):
        fail("C07.utilities_shape", f"{U.shape}, expected {(len(pairs), ncand_rows, a)}")
        return
    for i in range(len(pairs)):
        nn = {(int(r), int(c)) for r, c in np.argwhere(~np.isnan(U[i])).tolist()}
        if not nn <= avail:
            fail("C07.utility_at_unavailable_pair", f"step {i}: {sorted(nn - avail)[:4]}")
            break
        if nn & set(pairs[:i]):
            fail("C07.utility_at_selected_pair", f"step {i}: {sorted(nn & set(pairs[:i]))}")
            break
    if isinstance(naps, list) and not fails_in(fail):
        # array-valued request, judged only when every offered sample has the same number of available annotators and the requests can take
        # the whole batch (then the assignment is determined): the i-th sample of the batch receives min(request_i, #available) pairs
        rows = sorted({p[0] for p in avail})
        n_rows_offered = ncand_rows if mode in (0, 1, 4) else len(set(np.asarray(cand).tolist()))
        avs = {sum(1 for p in avail if p[0] == r) for r in rows}
        full = len(rows) == n_rows_offered and len(avs) == 1          # every offered sample has the same number of available annotators
        av = min(avs) if avs else 0
        want = lambda i: min(naps[min(i, len(naps) - 1)], av)
        order = []
        for s_, _ in pairs:
            if s_ not in order:
                order.append(s_)
        capacity = sum(want(i) for i in range(n_rows_offered))
        if full and capacity >= case["b"]:
            counts = [sum(1 for p in pairs if p[0] == s_) for s_ in order]
            expected, rem, i = [], len(pairs), 0
            while rem > 0:
                expected.append(min(want(i), rem))
                rem -= expected[-1]
                i += 1
            if counts != expected:
                fail("C07.array_request_not_respected", f"annotators per sample in batch order {counts}, requested {naps} "
                                                        f"(entry i for the i-th sample, last entry for the rest), {av} annotators available for each sample")
        naps = None
    if naps is not None and not fails_in(fail):
        # a requested number of annotators per sample is respected whenever enough annotators are available
        per = {}
        for s, an in pairs:
            per[s] = per.get(s, 0) + 1
        # quota rule: as long as the candidate rows can take the whole batch with at most `naps` annotators each, no sample
        # may receive more than `naps`. Rows without any available annotator belong to the known non-termination / quota
        # findings (KF-C07-n-to-assign-annotators-loop) and are not judged here.
        rows = sorted({p[0] for p in avail})
        n_rows_offered = ncand_rows if mode in (0, 1, 4) else len(set(np.asarray(cand).tolist()))
        av_all = {r: sum(1 for p in avail if p[0] == r) for r in rows}
        could_fit = len(rows) == n_rows_offered and sum(min(naps, v) for v in av_all.values()) >= len(pairs)
        for s, c in per.items():
            if c > max(naps, 1) and could_fit:
                fail("C07.too_many_annotators_for_a_sample", f"sample {s} received {c} annotators, requested {naps} per sample ({pairs})")
                break


def fails_in(fail):
    return bool(getattr(fail, "_count", 0))


def run_case(prop, case):
    fails = []

    def fail(what, detail):
        fail._count = getattr(fail, "_count", 0) + 1
        fails.append({"sig": f"{case['cls']}:{what}", "detail": detail, "replay": {"module": "bounded.wrappers", "prop": prop, "case": case}})
    {"C19": run_c19, "C20": run_c20, "C07": run_c07, "C05": run_c07, "C20rank": run_c20_rank, "C06multi": run_c06_multi}[case["kind"]](case, fail)
    return fails


if __name__ == "__main__":
    sys.exit(runner.main(sys.modules[__name__]))
