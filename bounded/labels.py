"""Bounded-exhaustive stand-in for C16 (label predicates / encoder round trip) and C17 (annotation aggregation).

C16: finite enumeration dtype x sentinel x shape x pattern (numpy's dtype promotion / casting is not expressible in SMT).
C17: random label matrices against a triple-loop counting oracle."""
import itertools
import os
import sys
import numpy as np

sys.path.insert(0, os.path.dirname(os.path.dirname(os.path.abspath(__file__))))
from bounded import runner

RULE = ("C16: every combination of label dtype {float,int,str,object} x sentinel {NaN,None,-1,-1.0,0,np.int64(-1),'', 'nan','x','unknown'} x "
        "shape {empty,1-D,2-D} x pattern {all missing, none missing, mixed} x container {ndarray,list} x classes given/inferred; "
        "C17: label matrices <= 6x4, <= 4 classes, weights, 4 encodings, 4 normalisations; non-trivial = the oracle was evaluated")
BOUND = {"quick": "arrays up to length 5 / 3x2", "thorough": "same grid, all value permutations up to length 4"}
CASE_TIMEOUT = {"quick": 60, "thorough": 300}
NAN = float("nan")
SENTINELS = [NAN, None, -1, -1.0, 0, 0.0, np.int64(-1), np.float64(-1), "", "nan", "x", "unknown"]
VALUES = {"float": [0.0, 1.0, 2.5], "int": [0, 1, 3], "str": ["a", "b", "no"], "object": ["a", "b", 3]}


def is_missing(v, ml):
    if isinstance(ml, float) and ml != ml:
        return isinstance(v, float) and v != v
    if ml is None:
        return v is None
    if v is None:
        return False
    if isinstance(v, float) and v != v:
        return False
    try:
        return bool(v == ml) and (isinstance(v, str) == isinstance(ml, str))
    except Exception:
        return False


def cases(prop, tier, seed):
    out = []
    rs = np.random.RandomState(seed)
    if prop == "C16":
        t = 0
        for dt in VALUES:
            for si, ml in enumerate(SENTINELS):
                for shape in ("empty", "1d", "2d", "empty2d"):
                    for pat in ("all", "none", "mixed"):
                        for cont in ("array", "list"):
                            for with_classes in (False, True):
                                t += 1
                                out.append(dict(kind="C16", dt=dt, si=si, shape=shape, pat=pat, cont=cont, wc=with_classes, t=t,
                                                key=[dt, si, shape, pat, cont, with_classes]))
        return out
    reps = 120 if tier == "quick" else 4000
    for t in range(reps):
        out.append(dict(kind="C17", dseed=int(rs.randint(1 << 30)), n=int(rs.randint(1, 7)), a=int(rs.randint(1, 5)), k=int(rs.randint(2, 5)),
                        enc=t % 4, weights=t % 3, t=t, key=["C17", t]))
    return out


def build_y(case):
    ml = SENTINELS[case["si"]]
    vals = VALUES[case["dt"]]
    n = {"empty": 0, "1d": 4, "2d": 3, "empty2d": 0}[case["shape"]]
    rs = np.random.RandomState(case["t"])
    def cell(i):
        if case["pat"] == "all":
            return ml
        if case["pat"] == "none":
            return vals[i % len(vals)]
        return ml if rs.rand() < 0.4 else vals[i % len(vals)]
    if case["shape"] == "2d":
        data = [[cell(2 * i + j) for j in range(2)] for i in range(n)]
    else:
        data = [cell(i) for i in range(n)]
    return data, ml, vals


def to_container(data, case, ml):
    if case["shape"] == "empty2d":
        # an empty label MATRIX (0 samples, 2 annotators): only an ndarray can carry that shape
        kind = {"float": float, "int": int, "str": "U5", "object": object}.get(case["dt"], object)
        return np.empty((0, 2), dtype=object if ml is None else kind)
    if case["cont"] == "list":
        return data
    dt = case["dt"]
    if dt == "object" or ml is None:
        return np.array(data, dtype=object) if len(data) else np.array(data, dtype=object).reshape((0,) if case["shape"] != "2d" else (0, 2))
    try:
        return np.array(data)
    except Exception:
        return np.array(data, dtype=object)


def flat(data):
    return [x for row in data for x in row] if data and isinstance(data[0], list) else list(data)


def run_c16(case, fail):
    from skactiveml.utils import is_labeled, is_unlabeled, labeled_indices, unlabeled_indices, ExtLabelEncoder
    data, ml, vals = build_y(case)
    y = to_container(data, case, ml)
    exp = [is_missing(v, ml) for v in flat(data)]
    try:
        u = is_unlabeled(y, missing_label=ml)
    except TypeError as e:
        # an incomparable sentinel/dtype combination must be rejected consistently by both predicates
        try:
            is_labeled(y, missing_label=ml)
            fail("C16.predicates_disagree_on_rejection", f"is_unlabeled raised TypeError, is_labeled did not (dtype {case['dt']}, sentinel {ml!r})")
        except TypeError:
            pass
        return
    except Exception as e:
        fail("C16.is_unlabeled_raised", f"{type(e).__name__}: {str(e)[:100]} (dtype {case['dt']}, sentinel {ml!r}, {case['shape']})")
        return
    l = is_labeled(y, missing_label=ml)
    u, l = np.asarray(u), np.asarray(l)
    # numpy casts the sentinel to the common dtype before comparing: expected = equality after that cast
    arr = np.asarray(y)
    if not (isinstance(ml, float) and ml != ml) and len(exp):
        tt = np.append(arr.ravel(), ml).dtype
        exp2 = (arr.astype(tt) == ml).ravel().tolist()
    else:
        exp2 = exp
    if (u.shape != np.asarray(y, dtype=object).shape or l.shape != u.shape) and (len(exp) or case["shape"] == "empty2d"):
        fail("C16.mask_shape", f"{u.shape} / {l.shape} for labels of shape {np.asarray(y, dtype=object).shape}")
        return
    if u.dtype != bool or l.dtype != bool:
        fail("C16.mask_not_boolean", f"{u.dtype}, {l.dtype}")
    if not np.array_equal(l, ~u):
        fail("C16.is_labeled_not_complement", f"{l.tolist()} vs {u.tolist()}")
    if u.ravel().tolist() != exp2:
        fail("C16.mask_wrong", f"is_unlabeled={u.ravel().tolist()} expected {exp2} (labels {flat(data)}, sentinel {ml!r})")
    # python-level meaning (exact type-aware equality) must agree for sentinels of the label's own kind
    same_kind = (case["dt"] in ("float", "int") and isinstance(ml, (int, float, np.integer, np.floating)) and not isinstance(ml, bool)) or \
                (case["dt"] == "str" and isinstance(ml, str)) or ml is None or (isinstance(ml, float) and ml != ml)
    if same_kind and case["dt"] != "object" and u.ravel().tolist() != exp:
        fail("C16.mask_differs_from_elementwise_equality", f"is_unlabeled={u.ravel().tolist()} expected {exp} (labels {flat(data)}, sentinel {ml!r})")
    ui, li = unlabeled_indices(y, missing_label=ml), labeled_indices(y, missing_label=ml)
    if u.ndim == 1:
        if np.asarray(ui).tolist() != np.where(u)[0].tolist() or np.asarray(li).tolist() != np.where(~u)[0].tolist():
            fail("C16.indices_wrong", f"unlabeled_indices={np.asarray(ui).tolist()} labeled_indices={np.asarray(li).tolist()} mask={u.tolist()}")
    elif u.ndim == 2 and u.size:
        if np.asarray(ui).tolist() != np.argwhere(u).tolist() or np.asarray(li).tolist() != np.argwhere(~u).tolist():
            fail("C16.indices_wrong", "2-D index pairs are not the row-major positions of the mask")
    elif case["shape"] == "empty2d":
        if np.shape(ui) != (0, 2) or np.shape(li) != (0, 2):
            fail("C16.indices_shape_empty_matrix", f"index arrays of shape {np.shape(ui)} / {np.shape(li)} for an empty (0, 2) label matrix, expected (0, 2)")
    if not same_kind:
        return      # a sentinel of another kind than the labels is not a supported combination: only predicate consistency is required
    # encoder
    lab_vals = sorted({v for v, m in zip(flat(data), exp2) if not m}, key=lambda v: (str(type(v)), v)) if case["dt"] != "object" else None
    if case["dt"] == "object" and ml is not None:
        return
    classes = None
    if case["wc"]:
        classes = [v for v in vals if not is_missing(v, ml)]
        if case["dt"] == "object":
            classes = [v for v in classes if isinstance(v, str)]
            if any(not isinstance(v, str) and v is not None for v in flat(data)):
                return
    elif not any(not m for m in exp2):
        return          # neither classes nor labels: the encoder has nothing to fit (documented error)
    try:
        le = ExtLabelEncoder(classes=classes, missing_label=ml)
        enc = le.fit_transform(y)
        dec = le.inverse_transform(enc)
    except (TypeError, ValueError) as e:
        if case["dt"] == "object" or "uniformly" in str(e) or "not compatible" in str(e):
            return
        fail("C16.encoder_raised", f"{type(e).__name__}: {str(e)[:100]} (labels {flat(data)}, sentinel {ml!r}, classes {classes})")
        return
    enc, dec = np.asarray(enc), np.asarray(dec)
    cl = list(np.asarray(le.classes_).tolist())
    if cl != sorted(cl):
        fail("C16.classes_not_sorted", f"{cl}")
    if enc.shape != np.asarray(y, dtype=object).shape and (len(exp) or case["shape"] == "empty2d"):
        fail("C16.encoded_shape", f"{enc.shape}")
        return
    if case["shape"] == "empty2d" and dec.shape != (0, 2):
        fail("C16.decoded_shape", f"{dec.shape}")
        return
    for v, m, e in zip(flat(data), exp2, enc.ravel().tolist()):
        if m and e != -1:
            fail("C16.missing_not_encoded_as_minus_one", f"{v!r} -> {e} (sentinel {ml!r}, classes_ {cl})")
            break
        if not m and (e < 0 or e >= len(cl) or not (cl[e] == v)):
            fail("C16.label_not_encoded_as_rank", f"{v!r} -> {e} with classes_ {cl}")
            break
    if len(exp):
        back = dec.ravel().tolist()
        ok = all((is_missing(b, ml) or (m and (b == ml or (b != b and ml != ml)))) if m else (b == v) for v, m, b in zip(flat(data), exp2, back))
        if not ok:
            fail("C16.round_trip", f"inverse_transform(transform(y)) = {back} for y = {flat(data)} (sentinel {ml!r}, classes {classes})")
        # with an explicit class list the encoder must not depend on the array it was fitted on: fit on ONE label (the one with the
        # shortest representation), then encode and decode the full array
        labeled_vals = [v for v, m in zip(flat(data), exp2) if not m]
        if classes is not None and labeled_vals:
            short = min(labeled_vals, key=lambda v: len(str(v)))
            sub = np.asarray(y).ravel()[[i for i, (v, m) in enumerate(zip(flat(data), exp2)) if not m and v == short][:1]]
            if sub.dtype != object:
                sub = np.array(sub.tolist())        # the narrowest dtype that holds this one label (e.g. '<U1')
            try:
                le2 = ExtLabelEncoder(classes=classes, missing_label=ml).fit(sub)
                back2 = np.asarray(le2.inverse_transform(le2.transform(y))).ravel().tolist()
            except Exception as e:
                fail("C16.encoder_fitted_elsewhere_raised", f"{type(e).__name__}: {str(e)[:100]} (fitted on {sub.tolist()}, classes {classes}, y = {flat(data)})")
                return
            if len(back2) != len(back) or not all(a == b or (a != a and b != b) for a, b in zip(back2, back)):
                fail("C16.round_trip_depends_on_the_fitted_array", f"encoder with classes {classes} fitted on {sub.tolist()}: inverse_transform(transform(y)) = "
                     f"{back2}, fitted on y itself: {back} (y = {flat(data)}, sentinel {ml!r})")


def run_c17(case, fail):
    from skactiveml.utils import compute_vote_vectors, majority_vote, ext_confusion_matrix
    rs = np.random.RandomState(case["dseed"])
    n, a, k = case["n"], case["a"], case["k"]
    lab = rs.randint(-1, k, size=(n, a))           # -1 = missing
    encs = [(NAN, [float(c) for c in range(k)], float), (-1, list(range(k)), int), ("none", [chr(97 + c) for c in range(k)], str),
            (None, [chr(97 + c) for c in range(k)], object)]
    ml, classes, dt = encs[case["enc"]]
    y = np.array([[ml if v < 0 else classes[v] for v in row] for row in lab], dtype=object if dt in (object,) else None)
    w = None
    if case["weights"] == 1:
        w = rs.rand(n, a).round(2)
    elif case["weights"] == 2:
        w = rs.randint(0, 3, size=(n, a)).astype(float)
    if case["t"] % 4 == 1:
        w = 1.0 + 1e-7 * rs.randint(0, 3, size=(n, a))       # near ties: vote totals that differ in the 7th digit are NOT ties
    w0 = None if w is None else w.copy()
    try:
        V = compute_vote_vectors(y, w=w, classes=classes, missing_label=ml)
    except Exception as e:
        fail("C17.compute_vote_vectors_raised", f"{type(e).__name__}: {str(e)[:100]}")
        return
    exp = np.zeros((n, k))
    for i in range(n):
        for j in range(a):
            if lab[i, j] >= 0:
                exp[i, lab[i, j]] += 1.0 if w is None else w[i, j]
    if np.shape(V) != (n, k) or not np.allclose(V, exp):
        fail("C17.vote_vectors_wrong", f"{np.asarray(V).tolist()} expected {exp.tolist()} (labels {lab.tolist()}, weights {None if w is None else w.tolist()})")
    if w is not None and not np.array_equal(w, w0):
        fail("C17.weights_modified", "compute_vote_vectors changed the caller's weight matrix")
    for seedv in (0, 1, 2):
        try:
            mv = majority_vote(y, w=w, classes=classes, missing_label=ml, random_state=seedv)
        except Exception as e:
            fail("C17.majority_vote_raised", f"{type(e).__name__}: {str(e)[:100]}")
            return
        mv = np.asarray(mv).tolist()
        for i in range(n):
            if exp[i].sum() == 0 and not (lab[i] >= 0).any():
                if not is_missing(mv[i], ml):
                    fail("C17.majority_vote_no_label_row", f"row {i} without labels -> {mv[i]!r} instead of the sentinel {ml!r}")
            elif (lab[i] >= 0).any():
                if is_missing(mv[i], ml) or mv[i] not in classes or exp[i][classes.index(mv[i])] < exp[i].max() - 1e-12:
                    fail("C17.majority_vote_not_maximal", f"row {i}: votes {exp[i].tolist()} -> {mv[i]!r}")
    # confusion matrices
    y_true = np.array([classes[v] for v in rs.randint(0, k, size=n)], dtype=object if dt is object else None)
    tl = [classes.index(v) for v in y_true.tolist()]
    for norm in (None, "true", "pred", "all"):
        try:
            C = ext_confusion_matrix(y_true, y, classes=classes, missing_label=ml, normalize=norm)
        except Exception as e:
            fail("C17.ext_confusion_matrix_raised", f"{type(e).__name__}: {str(e)[:100]}")
            return
        for j in range(a):
            cnt = np.zeros((k, k))
            for i in range(n):
                if lab[i, j] >= 0:
                    cnt[tl[i], lab[i, j]] += 1
            with np.errstate(all="ignore"):
                if norm == "true":
                    e2 = np.nan_to_num(cnt / cnt.sum(axis=1, keepdims=True), nan=1 / k)
                elif norm == "pred":
                    e2 = np.nan_to_num(cnt / cnt.sum(axis=0, keepdims=True), nan=1 / k)
                elif norm == "all":
                    e2 = np.nan_to_num(cnt / cnt.sum(), nan=1 / cnt.size)
                else:
                    e2 = cnt
            if np.shape(C) != (a, k, k) or not np.allclose(C[j], e2):
                fail(f"C17.confusion_matrix_wrong.normalize={norm}", f"annotator {j}: {np.asarray(C)[j].tolist() if np.ndim(C) == 3 else C} expected {e2.tolist()}")
                break


def run_case(prop, case):
    fails = []

    def fail(what, detail):
        fails.append({"sig": f"labels:{what}", "detail": detail, "replay": {"module": "bounded.labels", "prop": prop, "case": case}})
    (run_c16 if case["kind"] == "C16" else run_c17)(case, fail)
    return fails


if __name__ == "__main__":
    sys.exit(runner.main(sys.modules[__name__]))
