"""Recipes for every exported pool strategy (test code; proves nothing).

ZOO[name] = dict(kind 'clf'|'reg', make(seed, ml) -> strategy, kwargs(ml, classes, seed) -> model arguments,
                 rows: feature-row candidates supported, sel: 'max'|'sampling', samplewise: (restriction, permutation),
                 arbitrary_idx: index sets may contain labeled samples)
"""
import numpy as np

from skactiveml.pool import *   # noqa
from skactiveml.classifier import ParzenWindowClassifier, SklearnClassifier, MixtureModelClassifier
from skactiveml.regressor import NICKernelRegressor, SklearnRegressor
from sklearn.linear_model import LinearRegression
from sklearn.tree import DecisionTreeRegressor, DecisionTreeClassifier
from sklearn.naive_bayes import GaussianNB
from sklearn.mixture import BayesianGaussianMixture

NAN = float("nan")


def pwc(ml=NAN, classes=(0, 1), seed=0, **kw):
    return ParzenWindowClassifier(classes=list(classes), random_state=seed, missing_label=ml, metric_dict={"gamma": 0.5}, **kw)


def ens(ml=NAN, classes=(0, 1), seed=0):
    return [ParzenWindowClassifier(classes=list(classes), missing_label=ml, random_state=seed + i, metric_dict={"gamma": g})
            for i, g in enumerate((0.2, 1.0, 3.0))]


def tree_clf(ml=NAN, classes=(0, 1), seed=0):
    """alternative model with hard (one-hot) probabilities"""
    return SklearnClassifier(DecisionTreeClassifier(random_state=0), classes=list(classes), missing_label=ml, random_state=seed)


def forest_clf(ml=NAN, classes=(0, 1), seed=0):
    """alternative model: a tiny forest gives one-hot probabilities for most and fractions for a few candidates"""
    from sklearn.ensemble import RandomForestClassifier
    return SklearnClassifier(RandomForestClassifier(n_estimators=3, random_state=0), classes=list(classes), missing_label=ml, random_state=seed)


def nb_clf(ml=NAN, classes=(0, 1), seed=0):
    return SklearnClassifier(GaussianNB(), classes=list(classes), missing_label=ml, random_state=seed)


def nic():
    return NICKernelRegressor(metric_dict={"gamma": 0.5})


def tree_reg():
    return SklearnRegressor(DecisionTreeRegressor(min_samples_leaf=2, random_state=0))


def mmc(ml=NAN, classes=(0, 1), seed=0):
    return MixtureModelClassifier(classes=list(classes), missing_label=ml, random_state=seed,
                                  mixture_model=BayesianGaussianMixture(n_components=2, random_state=0))


KD = {"random_state": 0, "n_init": 1}


def Z(kind, make, kwargs, rows=True, sel="max", samplewise=(False, False), arbitrary_idx=False, slow=False, needs_classes=False,
      min_n=1):
    return dict(kind=kind, make=make, kwargs=kwargs, rows=rows, sel=sel, samplewise=samplewise, arbitrary_idx=arbitrary_idx,
                slow=slow, needs_classes=needs_classes, min_n=min_n)


def clf_kw(ml, cl, s):
    return dict(clf=pwc(ml, cl, s))


def ens_kw(ml, cl, s):
    return dict(ensemble=ens(ml, cl, s))


def none_kw(ml, cl, s):
    return {}


ZOO = {
    "RandomSampling": Z("clf", lambda s, ml: RandomSampling(random_state=s, missing_label=ml), none_kw, sel="sampling",
                        samplewise=(True, True), arbitrary_idx=True),
    "US-least_confident": Z("clf", lambda s, ml: UncertaintySampling(random_state=s, missing_label=ml), clf_kw,
                            samplewise=(True, True), arbitrary_idx=True),
    "US-margin": Z("clf", lambda s, ml: UncertaintySampling(method="margin_sampling", random_state=s, missing_label=ml), clf_kw,
                   samplewise=(True, True), arbitrary_idx=True),
    "US-entropy": Z("clf", lambda s, ml: UncertaintySampling(method="entropy", random_state=s, missing_label=ml), clf_kw,
                    samplewise=(True, True), arbitrary_idx=True),
    "US-eap": Z("clf", lambda s, ml: UncertaintySampling(method="expected_average_precision", random_state=s, missing_label=ml), clf_kw),
    "EpistemicUS": Z("clf", lambda s, ml: EpistemicUncertaintySampling(random_state=s, missing_label=ml), clf_kw,
                     samplewise=(True, True), arbitrary_idx=True),
    # non-default configurations of the same strategies (the property quantifies over their flags as well)
    # precompute=True interpolates the utilities on a lookup table whose size follows the largest frequency among the samples scored
    # TOGETHER: a sample's utility depends on its companions, so it is not classified sample-wise (no restriction / parallel comparison)
    "EpistemicUS-precompute": Z("clf", lambda s, ml: EpistemicUncertaintySampling(precompute=True, random_state=s, missing_label=ml), clf_kw,
                                samplewise=(False, False), arbitrary_idx=True),
    "QBC-variation_ratios": Z("clf", lambda s, ml: QueryByCommittee(method="variation_ratios", random_state=s, missing_label=ml), ens_kw,
                              samplewise=(False, False), arbitrary_idx=True),
    "ProbabilisticAL-m_max2": Z("clf", lambda s, ml: ProbabilisticAL(m_max=2, prior=0.5, random_state=s, missing_label=ml), clf_kw,
                                samplewise=(True, True), arbitrary_idx=True),
    "MonteCarloEER-log_loss": Z("clf", lambda s, ml: MonteCarloEER(method="log_loss", subtract_current=True, random_state=s, missing_label=ml), clf_kw,
                                samplewise=(True, True), slow=True),
    "ProbabilisticAL": Z("clf", lambda s, ml: ProbabilisticAL(random_state=s, missing_label=ml), clf_kw, samplewise=(True, True),
                         arbitrary_idx=True),
    "ProbabilisticAL-metric": Z("clf", lambda s, ml: ProbabilisticAL(random_state=s, missing_label=ml, metric="rbf"), clf_kw),
    "QBC-KL": Z("clf", lambda s, ml: QueryByCommittee(random_state=s, missing_label=ml), ens_kw, samplewise=(True, True),
                arbitrary_idx=True),
    # hard votes: a member's predict breaks exact probability ties with its own generator in row order, so a row permutation
    # may change the votes of tied rows, and so may restricting the candidates; neither is claimed for hard votes
    "QBC-vote_entropy": Z("clf", lambda s, ml: QueryByCommittee(method="vote_entropy", random_state=s, missing_label=ml), ens_kw,
                          samplewise=(False, False), arbitrary_idx=True),
    "GreedyBALD": Z("clf", lambda s, ml: GreedyBALD(random_state=s, missing_label=ml), ens_kw, samplewise=(True, True), arbitrary_idx=True),
    "BatchBALD": Z("clf", lambda s, ml: BatchBALD(random_state=s, missing_label=ml), ens_kw, slow=True),
    "MonteCarloEER": Z("clf", lambda s, ml: MonteCarloEER(random_state=s, missing_label=ml), clf_kw, samplewise=(True, True), slow=True),
    "ValueOfInformationEER": Z("clf", lambda s, ml: ValueOfInformationEER(random_state=s, missing_label=ml), clf_kw, rows=False,
                               samplewise=(True, True), slow=True),
    "Quire": Z("clf", lambda s, ml, cl=(0, 1): Quire(classes=list(cl), random_state=s, missing_label=ml), none_kw, rows=False,
               needs_classes=True, samplewise=(True, False)),
    "CostEmbeddingAL": Z("clf", lambda s, ml, cl=(0, 1): CostEmbeddingAL(classes=list(cl), random_state=s, missing_label=ml), none_kw,
                         samplewise=(True, False), slow=True, needs_classes=True),
    "ContrastiveAL": Z("clf", lambda s, ml: ContrastiveAL(random_state=s, missing_label=ml), clf_kw, samplewise=(True, True)),
    "DiscriminativeAL": Z("clf", lambda s, ml: DiscriminativeAL(random_state=s, missing_label=ml),
                          lambda ml, cl, s: dict(discriminator=ParzenWindowClassifier(random_state=s, metric_dict={"gamma": 0.5})), rows=False),
    "DiscriminativeAL-greedy": Z("clf", lambda s, ml: DiscriminativeAL(greedy_selection=True, random_state=s, missing_label=ml),
                                 lambda ml, cl, s: dict(discriminator=ParzenWindowClassifier(random_state=s, metric_dict={"gamma": 0.5})),
                                 rows=False, samplewise=(True, True)),
    "CoreSet": Z("clf", lambda s, ml: CoreSet(random_state=s, missing_label=ml), none_kw),
    "TypiClust": Z("clf", lambda s, ml: TypiClust(random_state=s, missing_label=ml, cluster_algo_dict=dict(KD)), none_kw, rows=False),
    # clustering configured WITHOUT a random_state entry (and with random initialisation): the strategy has to forward its own generator
    "TypiClust-nors": Z("clf", lambda s, ml: TypiClust(random_state=s, missing_label=ml, cluster_algo_dict={"n_init": 1, "init": "random"}), none_kw, rows=False),
    "ProbCover-nors": Z("clf", lambda s, ml: ProbCover(random_state=s, missing_label=ml, cluster_algo_dict={"n_init": 1, "init": "random"}), none_kw, rows=False),
    "Clue-nors": Z("clf", lambda s, ml: Clue(random_state=s, missing_label=ml, cluster_algo_dict={"n_init": 1, "init": "random"}), clf_kw, rows=False),
    "DropQuery-nors": Z("clf", lambda s, ml: DropQuery(random_state=s, missing_label=ml, cluster_algo_dict={"n_init": 1, "init": "random"}), clf_kw, rows=False),
    "ProbCover": Z("clf", lambda s, ml: ProbCover(random_state=s, missing_label=ml, cluster_algo_dict=dict(KD)), none_kw, rows=False),
    "Clue": Z("clf", lambda s, ml: Clue(random_state=s, missing_label=ml, cluster_algo_dict=dict(KD)), clf_kw, rows=False),
    "DropQuery": Z("clf", lambda s, ml: DropQuery(random_state=s, missing_label=ml, cluster_algo_dict=dict(KD)), clf_kw, rows=False),
    "Falcun": Z("clf", lambda s, ml: Falcun(random_state=s, missing_label=ml), clf_kw, sel="sampling"),
    "Falcun-tree": Z("clf", lambda s, ml: Falcun(random_state=s, missing_label=ml), lambda ml, cl, s: dict(clf=tree_clf(ml, cl, s)), sel="sampling"),
    "Falcun-forest": Z("clf", lambda s, ml: Falcun(random_state=s, missing_label=ml), lambda ml, cl, s: dict(clf=forest_clf(ml, cl, s)), sel="sampling"),
    "US-margin-tree": Z("clf", lambda s, ml: UncertaintySampling(method="margin_sampling", random_state=s, missing_label=ml),
                        lambda ml, cl, s: dict(clf=tree_clf(ml, cl, s)), samplewise=(True, True), arbitrary_idx=True),
    "US-entropy-nb": Z("clf", lambda s, ml: UncertaintySampling(method="entropy", random_state=s, missing_label=ml),
                       lambda ml, cl, s: dict(clf=nb_clf(ml, cl, s)), samplewise=(True, True), arbitrary_idx=True),
    "Contrastive-tree": Z("clf", lambda s, ml: ContrastiveAL(random_state=s, missing_label=ml), lambda ml, cl, s: dict(clf=tree_clf(ml, cl, s))),
    "Badge": Z("clf", lambda s, ml: Badge(random_state=s, missing_label=ml), clf_kw, sel="sampling"),
    "FourDs": Z("clf", lambda s, ml: FourDs(random_state=s, missing_label=ml), lambda ml, cl, s: dict(clf=mmc(ml, cl, s)), min_n=3),
    "EMCM": Z("reg", lambda s, ml: ExpectedModelChangeMaximization(random_state=s),
              lambda ml, cl, s: dict(reg=SklearnRegressor(LinearRegression())), samplewise=(True, False)),
    "EMOC": Z("reg", lambda s, ml: ExpectedModelOutputChange(random_state=s), lambda ml, cl, s: dict(reg=nic()), samplewise=(True, True)),
    "EMVR": Z("reg", lambda s, ml: ExpectedModelVarianceReduction(random_state=s), lambda ml, cl, s: dict(reg=nic()), samplewise=(True, True)),
    "KLDivergenceMaximization": Z("reg", lambda s, ml: KLDivergenceMaximization(random_state=s), lambda ml, cl, s: dict(reg=nic()),
                                  samplewise=(True, True), slow=True),
    "GreedySamplingX": Z("reg", lambda s, ml: GreedySamplingX(random_state=s), none_kw, samplewise=(True, True)),
    "GreedySamplingTarget": Z("reg", lambda s, ml: GreedySamplingTarget(random_state=s), lambda ml, cl, s: dict(reg=nic()), samplewise=(True, True)),
    "GreedySamplingTarget-GSy": Z("reg", lambda s, ml: GreedySamplingTarget(method="GSy", random_state=s), lambda ml, cl, s: dict(reg=nic()), samplewise=(True, True)),
    "RegressionTree-random": Z("reg", lambda s, ml: RegressionTreeBasedAL(method="random", random_state=s),
                               lambda ml, cl, s: dict(reg=tree_reg()), sel="sampling"),
    "RegressionTree-diversity": Z("reg", lambda s, ml: RegressionTreeBasedAL(method="diversity", random_state=s),
                                  lambda ml, cl, s: dict(reg=tree_reg())),
    "RegressionTree-representativity": Z("reg", lambda s, ml: RegressionTreeBasedAL(method="representativity", random_state=s),
                                         lambda ml, cl, s: dict(reg=tree_reg())),
    "SubSamplingWrapper": Z("clf", lambda s, ml: SubSamplingWrapper(UncertaintySampling(random_state=s, missing_label=ml), max_candidates=0.5,
                                                                     random_state=s, missing_label=ml), clf_kw),
    "SubSamplingWrapper-exclude": Z("clf", lambda s, ml: SubSamplingWrapper(UncertaintySampling(random_state=s, missing_label=ml), max_candidates=3,
                                                                             exclude_non_subsample=True, random_state=s, missing_label=ml), clf_kw),
    "ParallelUtilityEstimationWrapper": Z("clf", lambda s, ml: ParallelUtilityEstimationWrapper(UncertaintySampling(random_state=s, missing_label=ml),
                                                                                                 n_jobs=2, parallel_dict={"backend": "threading"}, random_state=s, missing_label=ml), clf_kw),
}


def make_strategy(name, seed, ml=NAN, classes=(0, 1)):
    z = ZOO[name]
    if z["needs_classes"]:
        return z["make"](seed, ml, classes)
    return z["make"](seed, ml)


def make_data(seed, n, n_labeled, kind, dup, n_features=2):
    """(X, y) with y float NaN-missing: classification labels in {0,1}, regression targets real."""
    rs = np.random.RandomState(seed)
    if dup == "grid":
        X = rs.randint(0, 3, size=(n, n_features)).astype(float)
    elif dup == "const":
        X = np.ones((n, n_features))
        X[:, 0] = rs.randint(0, 2, size=n)
    else:
        X = rs.randn(n, n_features).round(2)
    y = np.full(n, np.nan)
    lab = rs.choice(n, min(n_labeled, n), replace=False) if n_labeled else []
    for i in lab:
        y[i] = float(rs.randint(0, 2)) if kind == "clf" else float(np.round(rs.randn(), 2))
    if kind == "clf" and len(lab) >= 2 and seed % 4 != 0:
        # usually both classes are observed (a single observed class makes most utilities constant); one data set in four stays as drawn
        y[lab[0]], y[lab[1]] = 0.0, 1.0
    return X, y
