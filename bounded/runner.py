"""bounded.runner — common driver of the bounded stand-ins (run under /venv/bin/python, cwd=/repo).

A stand-in module defines
    cases(prop, tier, seed)  -> iterable of JSON-able case dicts (each has a 'key' used for distinctness)
    run_case(prop, case)     -> list of failures [{sig, detail, replay}] (empty = oracle held), may raise
    RULE, BOUND              -> text
The runner maps run_case over the cases in a process pool with a per-case alarm, and writes the result JSON.
Bounded stand-ins evaluate the contract of a property at run time on generated inputs; they are never counted as proof.
"""
import argparse
import json
import multiprocessing as mp
import os
import signal
import sys
import time
import traceback
import warnings

warnings.filterwarnings("ignore")


class CaseTimeout(Exception):
    pass


def _alarm(signum, frame):
    raise CaseTimeout()


_MOD = None


def _work(arg):
    prop, case, tmo = arg
    import numpy as np
    signal.signal(signal.SIGALRM, _alarm)
    signal.alarm(tmo)
    t0 = time.time()
    try:
        with warnings.catch_warnings():
            warnings.simplefilter("ignore")
            with np.errstate(all="ignore"):
                fails = _MOD.run_case(prop, case)
        return {"key": case.get("key"), "fails": fails, "t": time.time() - t0, "nontrivial": case.get("nontrivial", True)}
    except CaseTimeout:
        if getattr(_MOD, "TIMEOUT_IS_VIOLATION", False):
            return {"key": case.get("key"), "fails": [{"sig": f"{case.get('cls', '?')}:timeout", "detail": f"no result within {tmo}s",
                                                        "replay": {"module": _MOD.__name__, "prop": prop, "case": case}}], "t": tmo}
        return {"key": case.get("key"), "fails": [], "timeout": True, "t": tmo}
    except Exception as e:
        tb = traceback.extract_tb(e.__traceback__)
        in_pkg = [f for f in tb if "/skactiveml/" in f.filename.replace("\\", "/") and "/tests/" not in f.filename]
        if in_pkg:
            # an exception thrown by the code under test at a point where the harness expects none (on the validated tree none occurs):
            # the operation the property talks about failed - a violation with a replayable input, not an error of the harness
            where = f"{os.path.basename(in_pkg[-1].filename)}:{in_pkg[-1].lineno} in {in_pkg[-1].name}"
            return {"key": case.get("key"), "t": time.time() - t0,
                    "fails": [{"sig": f"{case.get('cls', '?')}:{prop}.unexpected_exception[{type(e).__name__}]",
                               "detail": f"{type(e).__name__}: {str(e)[:160]} raised at {where}",
                               "replay": {"module": _MOD.__name__, "prop": prop, "case": case}}]}
        return {"key": case.get("key"), "fails": [], "error": f"{type(e).__name__}: {e}", "trace": traceback.format_exc()[-1500:],
                "t": time.time() - t0}
    finally:
        signal.alarm(0)


def main(mod):
    global _MOD
    _MOD = mod
    ap = argparse.ArgumentParser()
    ap.add_argument("--prop", required=True)
    ap.add_argument("--tier", default="quick")
    ap.add_argument("--seed", type=int, default=0)
    ap.add_argument("--out", required=True)
    ap.add_argument("--jobs", type=int, default=int(os.environ.get("VERIF_JOBS", "16")))
    ap.add_argument("--only", default=None)
    a = ap.parse_args()
    t0 = time.time()
    cases = list(mod.cases(a.prop, a.tier, a.seed))
    # structured cases, independent of the seed: one recorded input behind every known finding (bounded/structured_cases.json, written by
    # tools/find_structured_cases.py), so that a listed finding is re-established on every run and not only when the seed happens to hit it
    try:
        sc = json.load(open(os.path.join(os.path.dirname(os.path.abspath(__file__)), "structured_cases.json")))
        have = {json.dumps(c.get("key"), sort_keys=True, default=str) for c in cases}
        for c in sc.get(os.path.basename(getattr(mod, "__file__", "")), {}).get(a.prop, []):
            if json.dumps(c.get("key"), sort_keys=True, default=str) not in have:
                cases.append(c)
    except FileNotFoundError:
        pass
    if a.only:
        cases = [c for c in cases if a.only in str(c.get("key"))]
    tmo = getattr(mod, "CASE_TIMEOUT", {"quick": 60, "thorough": 300})[a.tier]
    args = [(a.prop, c, tmo) for c in cases]
    if a.jobs > 1 and len(args) > 1:
        with mp.get_context("fork").Pool(a.jobs) as pool:
            res = pool.map(_work, args, chunksize=max(1, len(args) // (a.jobs * 8)))
    else:
        res = [_work(x) for x in args]
    failures, errors, timeouts = [], [], 0
    keys = set()
    for r in res:
        if r.get("error"):
            errors.append({"key": r["key"], "error": r["error"], "trace": r.get("trace")})
        if r.get("timeout"):
            timeouts += 1
        if r.get("nontrivial", True) and not r.get("error") and not r.get("timeout"):
            keys.add(json.dumps(r["key"], sort_keys=True, default=str))
        failures.extend(r["fails"])
    # de-duplicate failures by signature, keep the first (smallest) witness
    seen, uniq = set(), []
    for f in failures:
        if f["sig"] in seen:
            continue
        seen.add(f["sig"])
        uniq.append(f)
    out = {"evaluations": len(res), "distinct_nontrivial": len(keys), "rule": mod.RULE, "bound": mod.BOUND.get(a.tier, ""),
           "samples": [c for c in cases[:3]], "failures": uniq, "n_failures_total": len(failures),
           "errors": errors[:10], "n_errors": len(errors), "timeouts": timeouts, "wall_s": round(time.time() - t0, 2)}
    max_err = getattr(mod, "MAX_ERROR_FRACTION", 0.0)
    if len(errors) > max_err * max(1, len(res)):
        out["crash"] = f"{len(errors)} of {len(res)} cases raised inside the harness, e.g. {errors[0]['key']}: {errors[0]['error']}"
    json.dump(out, open(a.out, "w"), indent=1, default=str)
    return 0
