"""Replay of verifier counter-models against the real code (run by bounded/replay.py under /venv/bin/python, cwd = repository).

run_case(prop, case) -> list of failures {sig, detail}; case["family"] selects how the concrete input recorded by the unit's concretizer
(pyvc/cex.py) is turned into a call of the real function and which clause of the contract is evaluated on the result.
A counter-model that does not reproduce returns [] (the driver then reports the failed obligation with no-failing-input-found).
"""
import warnings

import numpy as np

warnings.filterwarnings("ignore")
NAN = float("nan")


def _labels_from_tokens(tokens, missing, sentinel=NAN):
    """opaque label tokens -> floats (equal tokens -> equal numbers), sentinel where the model says 'missing'"""
    flat_t = np.asarray(tokens, dtype=object)
    flat_m = np.asarray(missing, dtype=bool)
    codes = {}
    out = np.empty(flat_t.shape, dtype=float)
    for idx in np.ndindex(flat_t.shape):
        if flat_m[idx]:
            out[idx] = sentinel
        else:
            out[idx] = codes.setdefault(flat_t[idx], float(len(codes)))
    return out


def fam_labels(case):
    from skactiveml.utils import is_labeled, is_unlabeled, labeled_indices, unlabeled_indices
    fails = []
    if "y_float" in case:
        y = np.array(case["y_float"], dtype=float).reshape(case.get("shape", (-1,)))
        miss = np.isnan(y)
    else:
        y = _labels_from_tokens(case["y"], case["missing"])
        miss = np.asarray(case["missing"], dtype=bool)
    fn = case["fn"]
    got = {"is_labeled": is_labeled, "is_unlabeled": is_unlabeled, "labeled_indices": labeled_indices, "unlabeled_indices": unlabeled_indices}[fn](y, missing_label=NAN)
    got = np.asarray(got)
    if fn in ("is_labeled", "is_unlabeled"):
        want = ~miss if fn == "is_labeled" else miss
        if got.shape != want.shape or got.dtype != bool or not np.array_equal(got, want):
            fails.append({"sig": case["sig"], "detail": f"{fn}({y.tolist()}) = {got.tolist()} (shape {got.shape}), expected {want.tolist()} (shape {want.shape})"})
    else:
        want = np.where(miss if fn == "unlabeled_indices" else ~miss)[0]
        if got.tolist() != want.tolist():
            fails.append({"sig": case["sig"], "detail": f"{fn}({y.tolist()}) = {got.tolist()}, expected {want.tolist()}"})
    return fails


def fam_rand_arg(case):
    from skactiveml.utils import rand_argmax, rand_argmin
    a = np.array(case["a"], dtype=float)
    f = rand_argmax if case["fn"] == "rand_argmax" else rand_argmin
    ext = np.nanmax if case["fn"] == "rand_argmax" else np.nanmin
    fails = []
    for seed in range(8):
        if case.get("axis") == 1:
            r = np.asarray(f(a, axis=1, random_state=seed))
            for i in range(a.shape[0]):
                if not np.isnan(a[i]).all() and not (a[i, int(r[i])] == ext(a[i])):
                    fails.append({"sig": case["sig"], "detail": f"{case['fn']}(axis=1) row {i} of {a.tolist()} -> {int(r[i])} (value {a[i, int(r[i])]}), optimum {ext(a[i])} (seed {seed})"})
                    return fails
        else:
            r = np.asarray(f(a, random_state=seed)).ravel()
            if not np.isnan(a).all() and not (a[int(r[0])] == ext(a)):
                fails.append({"sig": case["sig"], "detail": f"{case['fn']}({a.tolist()}) -> {int(r[0])} (value {a[int(r[0])]}), optimum {ext(a)} (seed {seed})"})
                return fails
    return fails


FAMILIES = {"labels": fam_labels, "rand_arg": fam_rand_arg}


def run_case(prop, case):
    with np.errstate(all="ignore"):
        try:
            return FAMILIES[case["family"]](case)
        except Exception as e:      # the real code rejects the input of the counter-model: nothing reproduced
            return [] if not case.get("raise_is_failure") else [{"sig": case["sig"], "detail": f"{type(e).__name__}: {str(e)[:200]}"}]
