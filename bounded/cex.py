"""Replay of verifier counter-models against the real code (run by bounded/replay.py under /venv/bin/python, cwd = repository).

run_case(prop, case) -> list of failures {sig, detail}; case["family"] selects how the concrete input recorded by the unit's concretizer
(pyvc/cex.py) is turned into a call of the real function and which clause of the contract is evaluated on the result.
A counter-model that does not reproduce returns [] (the driver then reports the failed obligation with no-failing-input-found).
"""
import warnings

import numpy as np

warnings.filterwarnings("ignore")
NAN = float("nan")


def _labels_from_tokens(tokens, missing, sentinel=NAN):
    """opaque label tokens -> floats (equal tokens -> equal numbers), sentinel where the model says 'missing'"""
    flat_t = np.asarray(tokens, dtype=object)
    flat_m = np.asarray(missing, dtype=bool)
    codes = {}
    out = np.empty(flat_t.shape, dtype=float)
    for idx in np.ndindex(flat_t.shape):
        if flat_m[idx]:
            out[idx] = sentinel
        else:
            out[idx] = codes.setdefault(flat_t[idx], float(len(codes)))
    return out


def fam_labels(case):
    from skactiveml.utils import is_labeled, is_unlabeled, labeled_indices, unlabeled_indices
    fails = []
    if "y_float" in case:
        y = np.array(case["y_float"], dtype=float).reshape(case.get("shape", (-1,)))
        miss = np.isnan(y) if "missing_label" not in case else (y == float(case["missing_label"]))
    else:
        y = _labels_from_tokens(case["y"], case["missing"])
        miss = np.asarray(case["missing"], dtype=bool)
    fn = case["fn"]
    got = {"is_labeled": is_labeled, "is_unlabeled": is_unlabeled, "labeled_indices": labeled_indices, "unlabeled_indices": unlabeled_indices}[fn](y, missing_label=float(case["missing_label"]) if "missing_label" in case else NAN)
    got = np.asarray(got)
    if fn in ("is_labeled", "is_unlabeled"):
        want = ~miss if fn == "is_labeled" else miss
        if got.shape != want.shape or got.dtype != bool or not np.array_equal(got, want):
            fails.append({"sig": case["sig"], "detail": f"{fn}({y.tolist()}) = {got.tolist()} (shape {got.shape}), expected {want.tolist()} (shape {want.shape})"})
    else:
        want = np.where(miss if fn == "unlabeled_indices" else ~miss)[0]
        if got.tolist() != want.tolist():
            fails.append({"sig": case["sig"], "detail": f"{fn}({y.tolist()}) = {got.tolist()}, expected {want.tolist()}"})
    return fails


def fam_rand_arg(case):
    from skactiveml.utils import rand_argmax, rand_argmin
    a = np.array(case["a"], dtype=float)
    f = rand_argmax if case["fn"] == "rand_argmax" else rand_argmin
    ext = np.nanmax if case["fn"] == "rand_argmax" else np.nanmin
    fails = []
    for seed in range(8):
        if case.get("axis") == 1:
            r = np.asarray(f(a, axis=1, random_state=seed))
            for i in range(a.shape[0]):
                if not np.isnan(a[i]).all() and not (a[i, int(r[i])] == ext(a[i])):
                    fails.append({"sig": case["sig"], "detail": f"{case['fn']}(axis=1) row {i} of {a.tolist()} -> {int(r[i])} (value {a[i, int(r[i])]}), optimum {ext(a[i])} (seed {seed})"})
                    return fails
        elif case.get("axis") in ("none", "explicit_none"):
            r = np.asarray(f(a, random_state=seed) if case["axis"] == "none" else f(a, random_state=seed, axis=None))
            if np.isnan(a).all():
                continue
            ok = r.shape == (a.ndim,) and all(0 <= int(r[k]) < a.shape[k] for k in range(a.ndim)) and a[tuple(int(v) for v in r)] == ext(a)
            if not ok:
                fails.append({"sig": case["sig"], "detail": f"{case['fn']}({a.tolist()}{', axis=None' if case['axis'] == 'explicit_none' else ''}) -> {r.tolist()}: "
                                                            f"not one index per dimension pointing at the optimum {ext(a)} (seed {seed})"})
                return fails
        else:
            r = np.asarray(f(a, random_state=seed)).ravel()
            if not np.isnan(a).all() and not (a[int(r[0])] == ext(a)):
                fails.append({"sig": case["sig"], "detail": f"{case['fn']}({a.tolist()}) -> {int(r[0])} (value {a[int(r[0])]}), optimum {ext(a)} (seed {seed})"})
                return fails
    return fails




def _mk_multi(ml=NAN):
    from skactiveml.base import MultiAnnotatorPoolQueryStrategy

    class _Probe(MultiAnnotatorPoolQueryStrategy):
        def query(self, *a, **k):
            raise NotImplementedError
    o = _Probe(missing_label=ml, random_state=0)
    o.missing_label_ = ml
    return o


def fam_transform_cand_annot(case):
    """MultiAnnotatorPoolQueryStrategy._transform_cand_annot on the concrete (candidates, annotators, y): boolean mask true exactly at the
    available pairs"""
    y = _labels_from_tokens(case["y"], case["missing"])
    n, na = y.shape
    X = np.arange(2.0 * n).reshape(n, 2)
    cand = None if case["cand"] is None else np.array(case["cand"], dtype=int if case["cmode"] == "idx" else float)
    ann = None if case["ann"] is None else np.array(case["ann"], dtype=int if case["amode"] == "idx" else bool)
    if case["cmode"] == "idx" and (len(set(cand.tolist())) != len(cand) or (len(cand) and (cand.min() < 0 or cand.max() >= n))):
        return []
    if case["amode"] == "idx" and len(ann) and (ann.min() < 0 or ann.max() >= na):
        return []
    Xc, mp, A = _mk_multi()._transform_cand_annot(cand, ann, X, y)
    A = np.asarray(A)
    if A.dtype != bool:
        return [{"sig": case["sig"], "detail": f"A_cand has dtype {A.dtype} (candidates {case['cand']}, annotators {case['ann']})"}]
    rows = list(range(n)) if cand is None else (cand.tolist() if case["cmode"] == "idx" else list(range(len(cand))))
    if cand is None and ann is None:
        rows = [i for i in range(n) if np.isnan(y[i]).any()]
    exp = np.zeros((len(rows), na), dtype=bool)
    for r, i in enumerate(rows):
        for j in range(na):
            if ann is None:
                exp[r, j] = np.isnan(y[i, j]) if cand is None else True
            elif case["amode"] == "idx":
                exp[r, j] = j in ann.tolist()
            else:
                exp[r, j] = bool(ann[r, j])
    if A.shape != exp.shape or not np.array_equal(A, exp):
        return [{"sig": case["sig"], "detail": f"A_cand = {A.astype(int).tolist()}, expected {exp.astype(int).tolist()} (y missing {np.isnan(y).astype(int).tolist()}, "
                                               f"candidates {case['cand']}, annotators {case['ann']})"}]
    if case["cmode"] != "rows" and (mp is None or np.asarray(mp).tolist() != rows):
        return [{"sig": case["sig"], "detail": f"mapping {None if mp is None else np.asarray(mp).tolist()}, expected {rows}"}]
    return []


def fam_label_encoder(case):
    from skactiveml.utils import ExtLabelEncoder
    fails = []
    if case["fn"] == "transform":
        y = _labels_from_tokens(case["y"], case["missing"])
        classes = sorted({v for v in y.tolist() if v == v}) or [0.0]
        le = ExtLabelEncoder(classes=classes, missing_label=NAN).fit(np.array(classes))
        enc = np.asarray(le.transform(y))
        exp = [-1 if v != v else classes.index(v) for v in y.tolist()]
        if enc.dtype.kind != "i" or enc.tolist() != exp:
            fails.append({"sig": case["sig"], "detail": f"transform({y.tolist()}) = {enc.tolist()} ({enc.dtype}), expected {exp}"})
    else:
        codes = np.array(case["codes"], dtype=int)
        K = max(int(codes.max()) + 1 if len(codes) else 1, 1)
        if len(codes) and codes.min() < -1:
            return []
        classes = [float(10 * (c + 1)) for c in range(K)]
        le = ExtLabelEncoder(classes=classes, missing_label=NAN).fit(np.array(classes))
        dec = np.asarray(le.inverse_transform(codes), dtype=float)
        exp = [NAN if c == -1 else classes[c] for c in codes.tolist()]
        if not np.array_equal(dec, np.array(exp, dtype=float), equal_nan=True):
            fails.append({"sig": case["sig"], "detail": f"inverse_transform({codes.tolist()}) = {dec.tolist()}, expected {exp}"})
    return fails


def fam_class_prior(case):
    from skactiveml.utils._validation import check_class_prior
    K = int(case["K"])
    cp = case["cp"] if case["scalar"] else np.array(case["cp"], dtype=float)
    try:
        r = np.asarray(check_class_prior(cp, K), dtype=float)
    except Exception:
        return []
    ok = r.shape == (K,) and np.all(np.isfinite(r)) and np.all(r >= 0) and (not case["scalar"] or np.all(r == cp))
    return [] if ok else [{"sig": case["sig"], "detail": f"check_class_prior({case['cp']}, {K}) = {r.tolist()}"}]


def fam_predict_proba(case):
    from skactiveml.base import ClassFrequencyEstimator
    F = np.array(case["F"], dtype=float).reshape(case["n"], case["K"])
    prior = np.array(case["prior"], dtype=float)

    class _Stub(ClassFrequencyEstimator):
        def fit(self, X, y, sample_weight=None):
            return self

        def predict_freq(self, X):
            return F.copy()
    c = _Stub(classes=list(range(case["K"])))
    c.classes_ = np.arange(case["K"])
    c.class_prior_ = prior
    P = np.asarray(c.predict_proba(np.zeros((case["n"], 1))))
    P0 = F + prior
    s_ = P0.sum(axis=1)
    exp = np.where(s_[:, None] > 0, P0 / np.where(s_ > 0, s_, 1)[:, None], 1.0 / case["K"])
    if P.shape != exp.shape or not np.allclose(P, exp, atol=1e-12) or np.any(P < 0) or np.any(P > 1 + 1e-12) or not np.all(np.isfinite(P)):
        return [{"sig": case["sig"], "detail": f"predict_proba = {np.round(P, 6).tolist()} for freq {F.tolist()} + prior {prior.tolist()}, expected {np.round(exp, 6).tolist()}"}]
    return []


FAMILIES = {"labels": fam_labels, "rand_arg": fam_rand_arg, "transform_cand_annot": fam_transform_cand_annot, "label_encoder": fam_label_encoder,
            "class_prior": fam_class_prior, "predict_proba": fam_predict_proba}


def fam_index_wrapper(case):
    """IndexClassifierWrapper.fit / partial_fit on a concrete wrapper state with a recording stub classifier: the view afterwards, the data
    of the last (partial) fit and the base copies are compared with 'keep(start) ++ new' computed independently"""
    import copy
    from sklearn.base import BaseEstimator
    from skactiveml.pool.utils import IndexClassifierWrapper
    LOG = []

    class Rec(BaseEstimator):
        def __init__(self, tag=0):
            self.tag = tag

        def fit(self, X, y, sample_weight=None):
            self.classes_ = [0]
            self.seen_ = [("fit", np.asarray(X)[:, 0].tolist(), list(np.asarray(y, dtype=float).tolist()), None if sample_weight is None else np.asarray(sample_weight, dtype=float).tolist())]
            LOG.append((id(self), "fit"))
            return self

        def partial_fit(self, X, y, sample_weight=None):
            self.classes_ = [0]
            self.seen_ = list(getattr(self, "seen_", [])) + [("partial_fit", np.asarray(X)[:, 0].tolist(), list(np.asarray(y, dtype=float).tolist()),
                                                              None if sample_weight is None else np.asarray(sample_weight, dtype=float).tolist())]
            LOG.append((id(self), "partial_fit"))
            return self
    N = case["N"]
    tokens = {}
    lab = lambda t: tokens.setdefault(t, float(len(tokens)))
    X = np.arange(float(N)).reshape(N, 1)
    own_y = np.array([lab(t) for t in case["own_y"]], dtype=float)
    own_w = None if case["own_w"] is None else np.array(case["own_w"], dtype=float)
    if own_w is not None and np.isnan(own_w).any():
        return []
    w = object.__new__(IndexClassifierWrapper)
    w.clf = Rec()
    w.X, w.y, w.sample_weight = X, own_y, own_w
    w.missing_label_ = NAN
    w.enforce_unique_samples = "check_unique" if case["unique"] else False
    w.use_partial_fit = bool(case["native"])
    w.use_speed_up = False
    stt = case["state"]
    arr = lambda v, f=float: None if v is None else np.array(v, dtype=f)
    w.clf_ = Rec(tag=1)
    w.clf_.classes_ = [0]
    w.clf_.seen_ = [("prior", [], [], None)]
    w.base_clf_ = Rec(tag=2)
    w.base_clf_.classes_ = [0]
    w.base_clf_.seen_ = [("base", [], [], None)]
    if not case["native"]:
        w.idx_ = arr(stt["idx_"], int)
        w.y_ = np.array([lab(t) for t in stt["y_"]], dtype=float)
        w.sample_weight_ = arr(stt["sample_weight_"])
        w.base_idx_ = arr(stt["base_idx_"], int)
        w.base_y_ = np.array([lab(t) for t in stt["base_y_"]], dtype=float)
        w.base_sample_weight_ = arr(stt["base_sample_weight_"])
        for v in (w.sample_weight_, w.base_sample_weight_):
            if v is not None and np.isnan(v).any():
                return []
    add_idx = np.array(case["add_idx"], dtype=int)
    add_y = None if case["add_y"] is None else np.array([lab(t) for t in case["add_y"]], dtype=float)
    add_w = arr(case["add_w"])
    if add_w is not None and np.isnan(add_w).any():
        return []
    before = copy.deepcopy({k: getattr(w, k, None) for k in ("idx_", "y_", "sample_weight_", "base_idx_", "base_y_", "base_sample_weight_")})
    base_seen_before = list(w.base_clf_.seen_)
    same = lambda a_, b_: (a_ is None and b_ is None) or (a_ is not None and b_ is not None and np.array_equal(np.asarray(a_, dtype=float), np.asarray(b_, dtype=float), equal_nan=True))
    new_y = own_y[add_idx] if add_y is None else add_y
    new_w = add_w if add_w is not None else (None if own_w is None else own_w[add_idx])
    out = []
    bad = lambda msg: out.append({"sig": case["sig"], "detail": msg + f" (op {case['op']}, flags unique={case['unique']} native={case['native']} "
                                                                     f"use_base={case.get('use_base')} set_base={case.get('set_base')}, add_idx {add_idx.tolist()})"})
    if case["op"] == "fit":
        w.fit(add_idx, y=add_y, sample_weight=add_w, set_base_clf=case["set_base"])
        exp = (add_idx, new_y, new_w)
    else:
        w.partial_fit(add_idx, y=add_y, sample_weight=add_w, use_base_clf=case["use_base"], set_base_clf=case["set_base"])
        if case["native"]:
            last = w.clf_.seen_[-1]
            if last[0] != "partial_fit" or last[1] != X[add_idx][:, 0].tolist() or not same(last[2], new_y) or not same(last[3], new_w):
                bad(f"native partial_fit received {last}")
            prefix = w.clf_.seen_[:-1]
            want_prefix = base_seen_before if case["use_base"] else [("prior", [], [], None)]
            if prefix != want_prefix:
                bad(f"the updated classifier has history {prefix}, expected {want_prefix}")
            if not case["set_base"] and w.base_clf_.seen_ != base_seen_before:
                bad(f"the base classifier changed: {w.base_clf_.seen_}")
            if case["set_base"] and (w.base_clf_ is w.clf_ or w.base_clf_.seen_ != w.clf_.seen_):
                bad("base_clf_ is not a copy of the updated classifier")
            return out
        s_idx, s_y, s_w = (before["base_idx_"], before["base_y_"], before["base_sample_weight_"]) if case["use_base"] else \
            (before["idx_"], before["y_"], before["sample_weight_"])
        keep = [p_ for p_ in range(len(s_idx)) if not case["unique"] or s_idx[p_] not in add_idx.tolist()]
        exp = (np.concatenate([s_idx[keep], add_idx]), np.concatenate([s_y[keep], new_y]),
               None if new_w is None else np.concatenate([s_w[keep], new_w]))
    for nm, e_ in zip(("idx_", "y_", "sample_weight_"), exp):
        if not same(getattr(w, nm), e_):
            bad(f"{nm} = {None if getattr(w, nm) is None else np.asarray(getattr(w, nm)).tolist()}, expected {None if e_ is None else np.asarray(e_).tolist()}")
    last = w.clf_.seen_[-1]
    if last[0] != "fit" or last[1] != X[exp[0]][:, 0].tolist() or not same(last[2], exp[1]) or not same(last[3], exp[2]):
        bad(f"the classifier was last fitted on {last}, expected X{np.asarray(exp[0]).tolist()}, y {np.asarray(exp[1]).tolist()}, w {None if exp[2] is None else np.asarray(exp[2]).tolist()}")
    for nm, e_ in zip(("base_idx_", "base_y_", "base_sample_weight_"), exp if case["set_base"] else (before["base_idx_"], before["base_y_"], before["base_sample_weight_"])):
        if not same(getattr(w, nm), e_):
            bad(f"{nm} = {None if getattr(w, nm) is None else np.asarray(getattr(w, nm)).tolist()}, expected {None if e_ is None else np.asarray(e_).tolist()}")
    if case["set_base"] and (w.base_clf_ is w.clf_ or w.base_clf_.seen_ != w.clf_.seen_):
        bad("base_clf_ is not a copy of the classifier after the fit")
    if not case["set_base"] and w.base_clf_.seen_ != base_seen_before:
        bad("the base classifier changed")
    return out


FAMILIES["index_wrapper"] = fam_index_wrapper


def fam_multi_validate(case):
    """MultiAnnotatorPoolQueryStrategy._validate_data on concrete arguments: batch size = min(base-class batch size, #candidate pairs), a boolean
    availability matrix given with index candidates comes back with its rows in the order of the sorted candidates"""
    from skactiveml.base import PoolQueryStrategy
    y = _labels_from_tokens(case["y"], case["missing"])
    n, na = y.shape
    X = np.arange(2.0 * n).reshape(n, 2)
    cand = None if case["cand"] is None else np.array(case["cand"], dtype=int)
    ann = None if case["ann"] is None else np.array(case["ann"], dtype=int if case["amode"] in ("idx", "matrix_int") else bool)
    if cand is not None and (len(set(cand.tolist())) != len(cand) or cand.min() < 0 or cand.max() >= n):
        return []
    if case["amode"] == "idx" and (ann.min() < 0 or ann.max() >= na):
        return []
    bs = int(case["bs"])
    o = _mk_multi()
    base = PoolQueryStrategy._validate_data(_mk_multi(), X, y, None if cand is None else cand.copy(), bs, True, True, None)
    bs_s = int(base[3])
    X2, y2, c2, a2, bs2, ru2 = o._validate_data(X, y, None if cand is None else cand.copy(), None if ann is None else ann.copy(), bs, True, True)
    nrows = n if cand is None else len(c2)
    if case["amode"] == "none":
        pairs = int(np.isnan(y).sum()) if cand is None else nrows * na
    elif case["amode"] == "idx":
        pairs = nrows * len(set(ann.tolist()))
    else:
        pairs = int(np.asarray(a2).sum())
    out = []
    if int(bs2) != min(bs_s, pairs):
        out.append({"sig": case["sig"], "detail": f"batch size {bs2}, expected min({bs_s}, {pairs} candidate pairs) (candidates {case['cand']}, annotators {case['ann']}, batch_size {bs})"})
    if case["amode"] in ("matrix", "matrix_int"):
        a2 = np.asarray(a2)
        ann = ann.astype(bool)
        want = ann if cand is None else np.array([ann[cand.tolist().index(int(v))] for v in np.asarray(c2).tolist()])
        if a2.dtype != bool or a2.shape != want.shape or not np.array_equal(a2, want):
            out.append({"sig": case["sig"], "detail": f"availability matrix returned as {a2.astype(int).tolist()} for validated candidates {np.asarray(c2).tolist() if c2 is not None else None}, "
                                                      f"given {ann.astype(int).tolist()} for candidates {case['cand']}"})
    return out


FAMILIES["multi_validate"] = fam_multi_validate


def fam_classifier_validate(case):
    """SkactivemlClassifier._validate_data through ParzenWindowClassifier.fit: classes_ are the declared classes in ascending order and
    cost_matrix_[i, j] is the user's cost for (classes_[i], classes_[j]); without a user matrix the 0/1 loss; after a refit random_state_ is
    the generator check_random_state(random_state) gives (no state left over from the earlier fit)"""
    from skactiveml.classifier import ParzenWindowClassifier
    K = int(case["K"])
    out = []
    for as_str in (False, True):
        if case["class_keys"] is not None:
            ranks = np.argsort(np.argsort(case["class_keys"]))
            classes = [f"c{r:02d}" for r in ranks] if as_str else [int(r) for r in ranks]
        else:
            classes = None
        labels = sorted(classes) if classes is not None else ([f"c{r:02d}" for r in range(K)] if as_str else list(range(K)))
        cost = None if case["cost"] is None else np.array(case["cost"], dtype=float)
        ml = "none" if as_str else -1
        X = np.arange(2.0 * (K + 2)).reshape(K + 2, 2)
        y = np.array(labels + [ml, labels[0]], dtype="U8" if as_str else int)
        clf = ParzenWindowClassifier(classes=classes, missing_label=ml, cost_matrix=cost, random_state=7)
        if case["refit"]:
            clf.fit(X, np.array([ml] * len(y), dtype=y.dtype) if classes is not None else y)
            clf.predict(X)                               # tie-breaks draw from random_state_
        clf.fit(X, y)
        got = np.asarray(clf.cost_matrix_, dtype=float)
        if classes is not None and list(clf.classes_) != sorted(classes):
            out.append({"sig": case["sig"], "detail": f"classes_ {list(clf.classes_)} for declared classes {classes}"})
        if cost is None:
            want = 1.0 - np.eye(K)
        elif classes is None:
            want = cost
        else:
            order = [classes.index(c) for c in sorted(classes)]
            want = cost[np.ix_(order, order)]
        if got.shape != want.shape or not np.array_equal(got, want):
            out.append({"sig": case["sig"], "detail": f"cost_matrix_ {got.tolist()} but the user's costs in the order of classes_ {list(clf.classes_)} are "
                                                      f"{want.tolist()} (classes={classes}, cost_matrix={None if cost is None else cost.tolist()})"})
        if case["refit"]:
            fresh = np.random.RandomState(7).get_state()
            st = clf.random_state_.get_state()
            if not (st[0] == fresh[0] and np.array_equal(st[1], fresh[1]) and st[2:] == fresh[2:]):
                out.append({"sig": case["sig"], "detail": "after fit, predict, fit the generator random_state_ is not the one check_random_state(random_state=7) "
                                                          "returns: the second fit depends on the history of the object"})
    return out


FAMILIES["classifier_validate"] = fam_classifier_validate


def fam_sliding_window(case):
    """SlidingWindowClassifier.fit / partial_fit with a recording estimator: the estimator is fitted on exactly the last window_size samples
    handed over since the last fit (after the only_labeled filter), oldest first, whatever the object held before"""
    from skactiveml.base import SkactivemlClassifier
    from skactiveml.classifier import SlidingWindowClassifier

    class Rec(SkactivemlClassifier):
        def fit(self, X, y, sample_weight=None):
            self.seen_ = (np.asarray(X).tolist(), np.asarray(y).tolist(), None if sample_weight is None else np.asarray(sample_weight).tolist())
            self.n_fits_ = getattr(self, "n_fits_", 0) + 1
            return self

        def predict_proba(self, X):
            return np.ones((len(X), 2)) / 2
    n, ws = int(case["n"]), case["window_size"]
    ol, wg = case["only_labeled"], case["weights"]
    if case["w"] is not None and any(not np.isfinite(v) for v in case["w"]):
        return []
    X = np.arange(n, dtype=float).reshape(n, 1) + 1
    y = np.array([np.nan if m else float(i % 2) for i, m in enumerate(case["missing"])], dtype=float)
    w = None if not wg else np.array(case["w"], dtype=float)
    clf = SlidingWindowClassifier(Rec(classes=[0, 1]), window_size=ws, only_labeled=ol, classes=[0, 1])
    old = []
    if case["history"] is not None:
        T = int(case["history"])
        Xo = -(np.arange(T, dtype=float).reshape(T, 1) + 1)
        yo = np.array([float(i % 2) for i in range(T)])
        wo = None if not wg else np.arange(T, dtype=float) + 0.5
        clf.fit(Xo, yo, sample_weight=wo)
        old = [(Xo[i].tolist(), yo[i], None if wo is None else wo[i]) for i in range(T)]
    getattr(clf, case["which"])(X, y, sample_weight=w)
    new = [(X[i].tolist(), y[i], None if w is None else w[i]) for i in range(n) if not (ol and case["missing"][i])]
    H = (old if case["which"] == "partial_fit" else []) + new
    win = H if ws is None else H[-int(ws):] if len(H) > 0 else []
    seen = getattr(clf.estimator_, "seen_", None)
    out = []
    same = lambda a, b: (a is None and b is None) or (a is not None and b is not None and np.array_equal(np.asarray(a, dtype=float), np.asarray(b, dtype=float), equal_nan=True))
    if seen is None or getattr(clf.estimator_, "n_fits_", 0) != 1:
        out.append({"sig": case["sig"], "detail": "the copy of the estimator was not fitted exactly once"})
    else:
        wantX, wanty = [t[0] for t in win], [t[1] for t in win]
        wantw = [t[2] for t in win] if wg else None
        if not same(np.asarray(seen[0]).reshape(-1), np.asarray(wantX).reshape(-1)) or not same(seen[1], wanty) or not same(seen[2], wantw):
            out.append({"sig": case["sig"], "detail": f"{case['which']} with window_size={ws}, only_labeled={ol}: estimator fitted on samples "
                                                      f"{np.asarray(seen[0]).reshape(-1).tolist()} (labels {seen[1]}, weights {seen[2]}) but the last window of the "
                                                      f"samples given is {np.asarray(wantX).reshape(-1).tolist()} (labels {wanty}, weights {wantw}); "
                                                      f"negative ids = samples of an earlier fit"})
    return out


FAMILIES["sliding_window"] = fam_sliding_window


def fam_combine_params(case):
    """_combine_params on concrete scalars: the postconditions of unit regressors._combine_params.<prior>, evaluated in float64"""
    from skactiveml.regressor._nic_kernel_regressor import _combine_params
    v = {k: np.float64(x) for k, x in case["values"].items()}
    k, n, m, s2 = _combine_params((v["kappa_1"], v["nu_1"], v["mu_1"], v["sigma_sq_1"]), (v["kappa_2"], v["nu_2"], v["mu_2"], v["sigma_sq_2"]))
    tol = 1e-9 * (1 + max(abs(float(x)) for x in v.values()))
    bad = []
    if not all(np.isfinite(x) for x in (k, n, m, s2)):
        bad.append(f"not all finite: {(k, n, m, s2)}")
    else:
        if abs(k - (v["kappa_1"] + v["kappa_2"])) > tol or k <= 0:
            bad.append(f"kappa_post {k}")
        if abs(n - (v["nu_1"] + v["nu_2"])) > tol or n <= 0:
            bad.append(f"nu_post {n}")
        if s2 <= 0:
            bad.append(f"sigma_sq_post {s2} is not positive")
        if case["prior"] == "nadaraya_watson" and (n <= 2 or abs(m - v["mu_2"]) > tol):
            bad.append(f"nu_post {n}, mu_post {m} (kernel-weighted mean {v['mu_2']})")
        if case["prior"] == "proper" and not (min(v["mu_1"], v["mu_2"]) - tol <= m <= max(v["mu_1"], v["mu_2"]) + tol):
            bad.append(f"mu_post {m} outside [{min(v['mu_1'], v['mu_2'])}, {max(v['mu_1'], v['mu_2'])}]")
        if case["prior"] == "neutral" and max(abs(k - v["kappa_1"]), abs(n - v["nu_1"]), abs(m - v["mu_1"]), abs(s2 - v["sigma_sq_1"])) > tol:
            bad.append(f"posterior {(k, n, m, s2)} differs from the prior without labels")
        if k > 0 and not ((1 + k) / k * s2 > 0):
            bad.append("predictive scale^2 is not positive")
    return [{"sig": case["sig"], "detail": f"_combine_params with {case['values']}: " + "; ".join(bad)}] if bad else []


FAMILIES["combine_params"] = fam_combine_params


def run_case(prop, case):
    with np.errstate(all="ignore"):
        try:
            return FAMILIES[case["family"]](case)
        except Exception as e:      # the real code rejects the input of the counter-model: nothing reproduced
            return [] if not case.get("raise_is_failure") else [{"sig": case["sig"], "detail": f"{type(e).__name__}: {str(e)[:200]}"}]
