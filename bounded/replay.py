"""Replay a recorded failing case against the real code: /venv/bin/python bounded/replay.py <replay.json>  (cwd=/repo).
Exit 1 and the oracle's message if the violation reproduces, exit 0 if the real code now satisfies the contract."""
import importlib
import json
import os
import sys
import warnings

warnings.filterwarnings("ignore")
sys.path.insert(0, os.path.dirname(os.path.dirname(os.path.abspath(__file__))))


def main():
    d = json.load(open(sys.argv[1]))
    rp = d.get("replay") or d
    mod = importlib.import_module(rp["module"])
    import numpy as np
    with np.errstate(all="ignore"):
        fails = mod.run_case(rp["prop"], rp["case"])
    want = d.get("signature")
    hit = [f for f in fails if want is None or f["sig"] == want] or fails
    if hit:
        for f in hit[:5]:
            print(f"REPRODUCED {f['sig']}: {f['detail']}")
        print("input:", json.dumps(rp["case"]))
        return 1
    print("not reproduced: the real code satisfies the contract on this input")
    return 0


if __name__ == "__main__":
    sys.exit(main())
