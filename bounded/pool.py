"""Bounded stand-in for the pool properties C01, C02, C05, C06, C08, C09, C14 (run-time contract evaluation; never proof).

case = (strategy recipe, data seed, n, #labeled, duplicated-points flag, candidate mode, batch size)
"""
import copy
import os
import pickle
import sys
import numpy as np

sys.path.insert(0, os.path.dirname(os.path.dirname(os.path.abspath(__file__))))
from bounded import runner
from bounded.poolzoo import ZOO, make_strategy, make_data, NAN

RULE = ("case = (strategy recipe, data seed, n samples, #labeled, point layout {random, grid with duplicates, constant feature}, "
        "candidate mode {None, indices, feature rows}, batch size); non-trivial = the query returned and the oracle was evaluated; "
        "distinct = distinct case keys")
BOUND = {"quick": "n <= 10 samples, 2 features, batch 1..n+2, 2 classes; C14 loops n <= 8",
         "thorough": "n <= 24 samples, batch 1..n+2, more seeds; C14 loops n <= 14"}
CASE_TIMEOUT = {"quick": 120, "thorough": 600}
MAX_ERROR_FRACTION = 0.0
TIMEOUT_IS_VIOLATION = False


def modes_of(z):
    return ["none", "idx"] + (["rows"] if z["rows"] else [])


def cases(prop, tier, seed):
    out = []
    rs = np.random.RandomState(seed + 7)
    names = list(ZOO)
    if prop in ("C01", "C02"):
        per = 24 if tier == "quick" else 120
        nmax = 10 if tier == "quick" else 24
        for name in names:
            z = ZOO[name]
            k = per // 3 if z["slow"] else per
            for t in range(k):
                n = int(rs.randint(max(2, z["min_n"]), (7 if z["slow"] else nmax) + 1))
                mode = modes_of(z)[t % len(modes_of(z))]
                dup = ("rand", "grid", "const")[t % 3] if t % 5 else "grid"
                nl = int(rs.choice([0, 0, 1, 2, max(0, n - 1), max(0, n - 2)]))
                b = int(rs.randint(1, n + 3))
                if name == "ParallelUtilityEstimationWrapper":
                    b = 1
                out.append(dict(kind="query", cls=name, dseed=int(rs.randint(1 << 30)), n=n, nl=min(nl, n - 1),
                                dup=dup, mode=mode, b=b, sseed=int(rs.randint(0, 50)), key=[name, n, nl, dup, mode, b, t]))
        # a structured case (independent of the seed) behind the recorded finding KF-C02-labeled-index-candidates-others
        out.append({"kind": "query", "cls": "Badge", "dseed": 195584138, "n": 9, "nl": 1, "dup": "grid", "mode": "idx", "b": 2, "sseed": 13,
                    "key": ["Badge", 9, 1, "grid", "idx", 2, "labeled-candidates"]})
        # ... and behind KF-C01-labeled-index-candidates-badge
        out.append({"kind": "query", "cls": "Badge", "dseed": 128237792, "n": 7, "nl": 2, "dup": "grid", "mode": "idx", "b": 5, "sseed": 39,
                    "key": ["Badge", 7, 2, "grid", "idx", 5, "labeled-candidates-raises"]})
        return out
    if prop == "C14":
        per = 10 if tier == "quick" else 80
        nmax = 9 if tier == "quick" else 14
        for name in names:
            z = ZOO[name]
            if name == "ParallelUtilityEstimationWrapper":
                bs = [1]
            else:
                bs = [2, 3, 1, 5, 4]
            for t in range(per if not z["slow"] else max(2, per // 2)):
                n = int(rs.randint(max(3, z["min_n"]), (6 if z["slow"] else nmax) + 1))
                nl = int(rs.choice([0, 0, 1, 2, n - 1]))
                out.append(dict(kind="loop", cls=name, dseed=int(rs.randint(1 << 30)), n=n, nl=min(nl, n - 1), dup=("rand", "grid")[t % 2],
                                b=int(bs[t % len(bs)]), sseed=int(rs.randint(0, 50)), key=[name, n, nl, t]))
        return out
    if prop in ("C05", "C06", "C08", "C09"):
        per = 6 if tier == "quick" else 90
        for name in names:
            z = ZOO[name]
            for t in range(per if not z["slow"] else max(2, per // 3)):
                n = int(rs.randint(max(5, z["min_n"]), 8 if z["slow"] else 11))
                nl = (0, 2, 3)[(t + rs.randint(3) * 0) % 3]      # every recipe gets cold starts (nl = 0) in every tier, whatever the seed
                out.append(dict(kind=prop, cls=name, dseed=int(rs.randint(1 << 30)), n=n, nl=nl, dup=("grid", "rand")[t % 2],
                                b=1 if name == "ParallelUtilityEstimationWrapper" else int(rs.randint(1, 4)),
                                sseed=int(rs.randint(0, 50)), t=t, key=[name, n, nl, t, prop]))
        return out
    return out


# ------------------------------------------------------------------------------------------------- oracles
def c01_errors(q, cand_set, k_expected):
    errs = []
    if not isinstance(q, np.ndarray):
        errs.append(("not_ndarray", f"type {type(q).__name__}"))
        q = np.asarray(q)
    if q.ndim != 1:
        errs.append(("not_1d", f"shape {q.shape} for batch size {k_expected}"))
    q1 = q.ravel()
    if len(q1) != k_expected:
        errs.append(("wrong_size", f"{len(q1)} indices returned, expected min(batch_size, #candidates) = {k_expected}"))
    if q1.size and not np.issubdtype(q1.dtype, np.integer):
        errs.append(("not_integer", f"dtype {q1.dtype}"))
    ql = [int(i) for i in q1.tolist()]
    if len(set(ql)) != len(ql):
        errs.append(("duplicates", f"{ql}"))
    bad = [i for i in ql if i not in cand_set]
    if bad:
        errs.append(("non_candidate", f"{bad} not among the candidates {sorted(cand_set)}"))
    return errs


def c02_errors(q, U, cand_positions, ncols, sel):
    q = np.asarray(q).ravel()
    U = np.asarray(U)
    if U.ndim != 2 or U.shape[0] != len(q) or U.shape[1] != ncols:
        return [("utilities_shape", f"{U.shape}, expected ({len(q)}, {ncols})")]
    for i in range(len(q)):
        selectable = set(cand_positions) - set(int(x) for x in q[:i].tolist())
        nn = set(np.where(~np.isnan(U[i]))[0].tolist())
        if nn != selectable:
            return [("nan_pattern", f"row {i}: non-NaN positions {sorted(nn)} != selectable positions {sorted(selectable)}")]
        c = U[i, int(q[i])]
        if np.isnan(c):
            return [("chosen_is_nan", f"row {i}")]
        if sel == "sampling":
            if not c > 0:
                return [("chosen_has_no_mass", f"row {i}: utility {c}")]
        elif c < np.nanmax(U[i]):
            return [("chosen_not_maximal", f"row {i}: utility {c!r} < row maximum {np.nanmax(U[i])!r}")]
    return []


# recipes with a recorded finding about labeled index candidates (known_findings.jsonl): they get such candidates too, with a tagged signature.
# The remaining recipes without z["arbitrary_idx"] are exercised with unlabeled index candidates only (stated in the evidence as a bound).
LABELED_CANDIDATES_RECORDED = {"CoreSet", "Quire", "Badge", "TypiClust", "TypiClust-nors", "RegressionTree-random", "RegressionTree-diversity",
                               "RegressionTree-representativity"}


def build_case(case, ml=NAN, classes=(0, 1), relabel=None):
    z = ZOO[case["cls"]]
    X, y = make_data(case["dseed"], case["n"], case["nl"], z["kind"], case["dup"])
    rs = np.random.RandomState(case["dseed"] + 1)
    unl = np.where(np.isnan(y))[0]
    mode = case.get("mode", "none")
    if mode == "none":
        cand, cset, ncols = None, unl.tolist(), len(X)
    elif mode == "idx":
        if len(unl) == 0:
            return None
        if (z["arbitrary_idx"] or case["cls"] in LABELED_CANDIDATES_RECORDED) and rs.rand() < 0.4:
            # arbitrary index sets: labeled samples may be offered as candidates too (documented: `candidates` are indices of samples in (X, y)).
            # Recipes that are known to cope (z["arbitrary_idx"]) keep their plain signature; for the others a failure in such a case is tagged,
            # so that a recorded finding about labeled candidates cannot hide a different failure of the same strategy.
            k = int(rs.randint(1, len(X) + 1))
            cand = rs.choice(len(X), k, replace=False)
            if not z["arbitrary_idx"] and not np.isnan(y[cand]).all():
                case["_tag"] = "[labeled index candidates]"
        else:
            cand = rs.choice(unl, int(rs.randint(1, len(unl) + 1)), replace=False)
        if rs.rand() < 0.3:
            cand = np.concatenate([cand, cand[:1]])       # a repeated index designates the same candidate
        cset, ncols = sorted(set(int(i) for i in cand)), len(X)
    else:
        m = int(rs.randint(1, 6))
        cand = X[rs.choice(len(X), m, replace=True)] if case["dup"] != "rand" else rs.randn(m, X.shape[1]).round(2)
        cset, ncols = list(range(m)), m
    return X, y, cand, cset, ncols


def subsample_domain(name, z, case, cset):
    return cset


def run_query_case(prop, case, fail):
    name = case["cls"]
    z = ZOO[name]
    built = build_case(case)
    if built is None:
        return
    X, y, cand, cset, ncols = built
    if not cset:
        return
    qs = make_strategy(name, case["sseed"])
    kw = z["kwargs"](NAN, (0, 1), case["sseed"])
    k = min(case["b"], len(cset))
    if name.startswith("SubSamplingWrapper"):
        # documented domain: selects from a random subset of the candidates of size ceil(ratio*n) resp. max_candidates
        from math import ceil
        mc = qs.max_candidates
        sub = min(ceil(len(cset) * mc) if isinstance(mc, float) else mc, len(cset))
        if case.get("mode") == "idx" and len(cand) != len(cset):
            return      # the wrapper counts repeated indices; outside the documented domain
        k = min(case["b"], sub)
    try:
        q, U = qs.query(X, y, candidates=cand, batch_size=case["b"], return_utilities=True, **kw)
    except Exception as e:
        if prop == "C01":
            fail(f"C01.query_raised[{type(e).__name__}]", f"{type(e).__name__}: {str(e)[:160]}")
        return
    e1 = c01_errors(q, set(cset), k)
    if prop == "C01":
        for s, d in e1:
            fail("C01." + s, d)
        return
    if any(s_ in ("not_ndarray", "not_1d", "wrong_size", "not_integer") for s_, _ in e1):
        return      # a malformed batch cannot be compared with the utility rows; the C01 check reports it
    # duplicates / non-candidates in the batch are C01's business, but the rows can still be compared with the selection as returned
    if name.startswith("SubSamplingWrapper"):
        # non-subsample candidates carry -inf: selectable positions are those with a finite-or-inf number; check NaN pattern on candidates
        U2 = np.asarray(U)
        if U2.ndim == 2 and U2.shape == (len(np.asarray(q).ravel()), ncols):
            for i in range(U2.shape[0]):
                nn = set(np.where(~np.isnan(U2[i]))[0].tolist())
                if not nn <= set(cset):
                    fail("C02.nan_pattern", f"row {i}: non-NaN at non-candidates {sorted(nn - set(cset))}")
                if np.isnan(U2[i, int(q[i])]) or U2[i, int(q[i])] < np.nanmax(U2[i]):
                    fail("C02.chosen_not_maximal", f"row {i}")
        else:
            fail("C02.utilities_shape", f"{U2.shape}")
        return
    for s, d in c02_errors(q, U, cset, ncols, z["sel"]):
        fail("C02." + s, d)


def run_loop_case(case, fail):
    name = case["cls"]
    z = ZOO[name]
    X, y = make_data(case["dseed"], case["n"], case["nl"], z["kind"], case["dup"])
    rs = np.random.RandomState(case["dseed"] + 2)
    u = int(np.isnan(y).sum())
    qs = make_strategy(name, case["sseed"])
    rounds = 0
    ever = set()
    b = case["b"]
    while np.isnan(y).any():
        unl = set(np.where(np.isnan(y))[0].tolist())
        kw = z["kwargs"](NAN, (0, 1), case["sseed"])
        try:
            q = qs.query(X, y, batch_size=b, **kw)
        except Exception as e:
            fail(f"C14.query_failed[{type(e).__name__}]", f"cycle {rounds} with {len(unl)} unlabeled of {len(y)}: {type(e).__name__}: {str(e)[:140]}")
            return
        ql = [int(i) for i in np.asarray(q).ravel().tolist()]
        k = min(b, len(unl))
        if name.startswith("SubSamplingWrapper"):
            from math import ceil
            mc = qs.max_candidates
            k = min(b, min(ceil(len(unl) * mc) if isinstance(mc, float) else mc, len(unl)))
        if len(ql) != k or len(set(ql)) != len(ql):
            fail("C14.wrong_batch", f"cycle {rounds}: returned {ql}, expected {k} distinct unlabeled samples")
            return
        if not set(ql) <= unl:
            fail("C14.labeled_sample_returned", f"cycle {rounds}: {sorted(set(ql) - unl)} already labeled")
            return
        if set(ql) & ever:
            fail("C14.queried_twice", f"cycle {rounds}: {sorted(set(ql) & ever)}")
            return
        ever |= set(ql)
        for i in ql:
            y[i] = float(rs.randint(0, 2)) if z["kind"] == "clf" else float(np.round(rs.randn(), 2))
        rounds += 1
        if rounds > len(y) + 2:
            fail("C14.no_progress", f"{rounds} cycles")
            return
    if not name.startswith("SubSamplingWrapper"):
        exp = -(-u // b)
        if rounds != exp:
            fail("C14.wrong_number_of_cycles", f"{rounds} cycles, expected ceil({u}/{b}) = {exp}")


def params_image(o):
    out = {}
    for k, v in sorted(o.get_params(deep=True).items()):
        if hasattr(v, "get_params"):
            out[k] = "estimator:" + type(v).__name__
            continue
        try:
            out[k] = pickle.dumps(v)
        except Exception:
            out[k] = repr(v)
    return out


def model_image(v):
    if isinstance(v, (list, tuple)):
        return [model_image(x) for x in v]
    try:
        return pickle.dumps(v)
    except Exception:
        return repr(sorted((k, repr(x)[:60]) for k, x in vars(v).items()))


def run_c05(case, fail):
    name = case["cls"]
    z = ZOO[name]
    X, y = make_data(case["dseed"], case["n"], case["nl"], z["kind"], case["dup"])
    rs = np.random.RandomState(case["dseed"] + 3)
    qs = make_strategy(name, case["sseed"])
    kw = z["kwargs"](NAN, (0, 1), case["sseed"])
    import inspect
    try:
        sig = inspect.signature(type(qs).query).parameters
    except (TypeError, ValueError):
        sig = {}
    unl = np.where(np.isnan(y))[0]
    extra = {}
    if "sample_weight" in sig and case["t"] % 2:
        extra["sample_weight"] = rs.rand(len(X)) + 0.5
    if "utility_weight" in sig and case["t"] % 3 == 0:
        extra["utility_weight"] = rs.rand(len(unl)) + 0.5
    cand = None
    if case["t"] % 3 == 1 and len(unl):
        cand = unl.copy()
        if "utility_weight" in extra:
            extra.pop("utility_weight")
    arrays = {"X": X, "y": y, **extra}
    if cand is not None:
        arrays["candidates"] = cand
    before = {k: v.copy() for k, v in arrays.items()}
    p0 = params_image(qs)
    m0 = {k: model_image(v) for k, v in kw.items()}
    try:
        for b in (case["b"], 1):
            qs.query(X, y, candidates=cand, batch_size=b, **kw, **extra)
    except Exception as e:
        return      # outside this oracle (C01/C14 report failing queries)
    for k, v in arrays.items():
        if not np.array_equal(v, before[k], equal_nan=True):
            fail(f"C05.argument_modified.{k}", f"{k} differs after query")
    p1 = params_image(qs)
    if p1 != p0:
        diff = [k for k in p0 if p0[k] != p1.get(k)]
        fail("C05.get_params_changed", f"parameters {diff} differ after query")
    for k, v in kw.items():
        if model_image(v) != m0[k]:
            fail(f"C05.model_modified.{k}", f"the {k} object passed by the caller was altered (fitted or attributes changed)")
    try:
        pickle.dumps(qs)
    except Exception as e:
        fail("C05.unpicklable_after_query", f"{type(e).__name__}: {str(e)[:80]}")


def result_image(q, U):
    return (tuple(int(i) for i in np.asarray(q).ravel().tolist()),
            tuple(np.nan_to_num(np.asarray(U, dtype=float), nan=-9e9, posinf=9e9, neginf=-8e9).ravel().round(9).tolist()))


def run_c06(case, fail):
    name = case["cls"]
    z = ZOO[name]
    X, y = make_data(case["dseed"], case["n"], case["nl"], z["kind"], "grid")     # tie-rich
    outs = []
    for gs in (11, 22, 33):
        np.random.seed(gs)
        qs = make_strategy(name, case["sseed"])
        kw = z["kwargs"](NAN, (0, 1), case["sseed"])
        try:
            q, U = qs.query(X, y, batch_size=case["b"], return_utilities=True, **kw)
        except Exception:
            return
        outs.append(result_image(q, U))
    if len(set(outs)) > 1:
        fail("C06.depends_on_global_generator_or_twins_differ", f"{len(set(outs))} distinct results for equal parameters under 3 global seeds")
    # repeated call on one object, int seed and RandomState instance
    for seedval, tag in ((case["sseed"], "int"), (np.random.RandomState(case["sseed"]), "RandomState")):
        try:
            qs = make_strategy(name, seedval)
            kw = z["kwargs"](NAN, (0, 1), case["sseed"])
            a = result_image(*qs.query(X, y, batch_size=case["b"], return_utilities=True, **kw))
            b = result_image(*qs.query(X, y, batch_size=case["b"], return_utilities=True, **kw))
        except Exception:
            continue
        if a != b:
            fail(f"C06.repeated_call_differs.{tag}", "the same call on the same object returned a different result")


def run_c08(case, fail):
    name = case["cls"]
    z = ZOO[name]
    if name.startswith("SubSamplingWrapper"):
        return
    X, y = make_data(case["dseed"], case["n"], case["nl"] if case["t"] % 2 else max(case["nl"], 1), z["kind"], "rand")
    unl = np.where(np.isnan(y))[0]
    if len(unl) < 3:
        return
    rs = np.random.RandomState(case["dseed"] + 4)

    def q(cand, XX=X, yy=y):
        qs = make_strategy(name, case["sseed"])
        kw = z["kwargs"](NAN, (0, 1), case["sseed"])
        return qs.query(XX, yy, candidates=cand, batch_size=1, return_utilities=True, **kw)
    try:
        i0, u0 = q(None)
        i1, u1 = q(unl)
        u0, u1 = np.asarray(u0, dtype=float), np.asarray(u1, dtype=float)
        if u0.ndim != 2 or u1.ndim != 2 or u0.shape[1] != len(X):
            return      # malformed utilities are reported by C02
    except Exception:
        return
    if not np.allclose(u0[0], u1[0], equal_nan=True, rtol=1e-9, atol=1e-12):
        fail("C08.None_vs_indices", f"utilities differ between candidates=None and candidates=unlabeled indices (max |d| = {np.nanmax(np.abs(u0[0] - u1[0])):.3g})")
    elif int(np.asarray(i0).ravel()[0]) != int(np.asarray(i1).ravel()[0]) and np.sum(u0[0] == np.nanmax(u0[0])) == 1:
        fail("C08.None_vs_indices.selection", f"{i0} vs {i1} with a unique best candidate")
    if z["rows"]:
        try:
            i2, u2 = q(X[unl])
            if not np.allclose(u0[0][unl], u2[0], equal_nan=True, rtol=1e-7, atol=1e-10):
                fail("C08.indices_vs_rows", f"utilities differ between index and feature-row candidates (max |d| = {np.nanmax(np.abs(u0[0][unl] - u2[0])):.3g})")
        except Exception as e:
            fail("C08.rows_raised", f"{type(e).__name__}: {str(e)[:100]}")
    if z["samplewise"][0]:
        sub = rs.choice(unl, max(1, len(unl) // 2), replace=False)
        try:
            _, u3 = q(sub)
            if not np.allclose(u0[0][sub], u3[0][sub], equal_nan=True, rtol=1e-7, atol=1e-10):
                fail("C08.restriction", f"first-step utilities of {sorted(sub.tolist())} change when the candidate set is restricted to them")
        except Exception as e:
            fail("C08.restriction_raised", f"{type(e).__name__}: {str(e)[:100]}")
    if z["samplewise"][1]:
        perm = rs.permutation(len(X))
        try:
            _, u4 = q(None, X[perm], y[perm])
            if not np.allclose(u0[0][perm], u4[0], equal_nan=True, rtol=1e-7, atol=1e-10):
                fail("C08.permutation", "reordering the rows of (X, y) does not reorder the utilities accordingly")
        except Exception as e:
            fail("C08.permutation_raised", f"{type(e).__name__}: {str(e)[:100]}")


ENCODINGS = [
    ("nan", NAN, (0.0, 1.0), float),
    ("minus1", -1, (0, 1), int),
    ("shifted", -5, (10, 20), int),
    ("str", "none", ("a", "b"), str),
    ("object-None", None, ("a", "b"), object),
]


def run_c09(case, fail):
    name = case["cls"]
    z = ZOO[name]
    if z["kind"] != "clf":
        return
    X, y = make_data(case["dseed"], case["n"], max(case["nl"], 2), "clf", case["dup"])
    ref = None
    # every third case offers a strict subset of the unlabeled samples as index candidates (the other unlabeled samples then count as
    # 'known' samples inside some strategies: their sentinel must not be mistaken for a class)
    cand = None
    unl_ = np.where(np.isnan(y))[0]
    if case["t"] % 3 != 0 and len(unl_) >= 3:
        k_ = len(unl_) - 1 if case["t"] % 3 == 1 else max(2, len(unl_) // 2)
        cand = np.sort(np.random.RandomState(case["dseed"] + 9).choice(unl_, k_, replace=False))
    for tag, ml, cl, dt in ENCODINGS:
        if dt is object:
            yy = np.array([None if np.isnan(v) else cl[int(v)] for v in y], dtype=object)
        elif dt is str:
            yy = np.array([ml if np.isnan(v) else cl[int(v)] for v in y])
        else:
            yy = np.array([ml if np.isnan(v) else cl[int(v)] for v in y], dtype=dt)
        try:
            qs = make_strategy(name, case["sseed"], ml, cl)
            kw = z["kwargs"](ml, cl, case["sseed"])
            q, U = qs.query(X, yy, candidates=cand, batch_size=case["b"], return_utilities=True, **kw)
            img = (tuple(int(i) for i in np.asarray(q).ravel()), np.asarray(U, dtype=float))
        except Exception as e:
            if ref is not None:
                fail(f"C09.encoding_{tag}_raised", f"{type(e).__name__}: {str(e)[:120]} (the NaN/float encoding works)")
            continue
        if ref is None:
            ref = (tag, img)
            continue
        if img[0] != ref[1][0]:
            fail(f"C09.selection_depends_on_encoding.{tag}", f"{img[0]} vs {ref[1][0]} under {ref[0]}")
        elif img[1].shape != ref[1][1].shape or not np.allclose(img[1], ref[1][1], equal_nan=True, rtol=1e-9, atol=1e-12):
            fail(f"C09.utilities_depend_on_encoding.{tag}", "utilities differ from those under the NaN/float encoding")


def run_case(prop, case):
    fails = []

    def fail(what, detail):
        fails.append({"sig": f"{case['cls']}{case.get('_tag', '')}:{what}", "detail": detail,
                      "replay": {"module": "bounded.pool", "prop": prop, "case": {k_: v_ for k_, v_ in case.items() if k_ != "_tag"}}})
    if case["kind"] == "query":
        run_query_case(prop, case, fail)
    elif case["kind"] == "loop":
        run_loop_case(case, fail)
    elif case["kind"] == "C05":
        run_c05(case, fail)
    elif case["kind"] == "C06":
        run_c06(case, fail)
    elif case["kind"] == "C08":
        run_c08(case, fail)
    elif case["kind"] == "C09":
        run_c09(case, fail)
    return fails


if __name__ == "__main__":
    sys.exit(runner.main(sys.modules[__name__]))
