"""Bounded stand-in for C18: rand_argmax / rand_argmin / simple_batch on generated arrays (run-time contract evaluation)."""
import itertools
import os
import sys
import numpy as np

sys.path.insert(0, os.path.dirname(os.path.dirname(os.path.abspath(__file__))))
from bounded import runner

RULE = ("case = (function, array of dimension 1..3 with entries from {-inf,-1,0,1,2,+inf,NaN} or random reals, axis, batch size, method, "
        "seed set); non-trivial = at least one non-NaN entry; distinct = distinct case keys")
BOUND = {"quick": "arrays with <= 8 entries per axis, 40 seeds per array for reachability", "thorough": "<= 12 entries, 200 seeds"}
CASE_TIMEOUT = {"quick": 60, "thorough": 300}
VALUES = [-np.inf, -1.0, 0.0, 1.0, 2.0, np.inf, np.nan]


def cases(prop, tier, seed):
    rs = np.random.RandomState(seed + 3)
    out = []
    reps = 150 if tier == "quick" else 1200
    nmax = 8 if tier == "quick" else 12
    for t in range(reps):
        dim = int(rs.choice([1, 1, 1, 2, 2, 3]))
        shape = tuple(int(rs.randint(1, (nmax if dim == 1 else 4) + 1)) for _ in range(dim))
        if t % 3 == 0:
            a = rs.randn(*shape).round(1)
            a[rs.rand(*shape) < 0.2] = np.nan
            if t % 9 == 0:
                a = a * 1e-18          # tiny magnitudes: weights must stay scale free
            if t % 6 == 0:
                a[rs.rand(*shape) < 0.3] = 0.0
        else:
            a = rs.choice(VALUES, size=shape)
        out.append(dict(kind="argmax", a=a.tolist(), t=t, key=["argmax", t]))
        out.append(dict(kind="batch", a=a.tolist(), b=int(rs.randint(1, a.size + 3)), method=("max", "proportional")[t % 2], t=t,
                        key=["batch", t]))
    return out


def run_case(prop, case):
    from skactiveml.utils import rand_argmax, rand_argmin, simple_batch
    fails = []

    def fail(what, detail):
        fails.append({"sig": f"selection:{what}", "detail": detail, "replay": {"module": "bounded.selection", "prop": prop, "case": case}})
    a = np.array(case["a"], dtype=float)
    nseeds = 40
    if case["kind"] == "argmax":
        if np.all(np.isnan(a)):
            return fails
        for fn, ext, nm in ((rand_argmax, np.nanmax, "rand_argmax"), (rand_argmin, np.nanmin, "rand_argmin")):
            opt = ext(a)
            optimal = set(map(tuple, np.argwhere(a == opt).tolist()))
            seen = set()
            for s in range(nseeds):
                r = fn(a, random_state=s)
                r2 = fn(a, random_state=s)
                if not np.array_equal(r, r2):
                    fail(f"{nm}.not_reproducible", f"seed {s}: {r} vs {r2}")
                idx = tuple(int(x) for x in np.atleast_1d(r).tolist())
                if len(idx) != a.ndim:
                    fail(f"{nm}.index_shape", f"{r} for an array of shape {a.shape}")
                    break
                if idx not in optimal:
                    fail(f"{nm}.not_an_optimum", f"returned {idx} with value {a[idx]!r}, optimum {opt!r} (array {a.tolist()})")
                    break
                seen.add(idx)
            if len(optimal) <= 4 and seen != optimal and not fails:
                fail(f"{nm}.tied_optimum_unreachable", f"optima {sorted(optimal)}, reached {sorted(seen)} under {nseeds} seeds")
            # axis=None spelled out is the same request as no axis at all
            try:
                r_none = fn(a, random_state=3, axis=None)
                r_omit = fn(a, random_state=3)
                if not np.array_equal(np.atleast_1d(r_none), np.atleast_1d(r_omit)):
                    fail(f"{nm}.explicit_axis_None_differs", f"{np.atleast_1d(r_none).tolist()} with axis=None, {np.atleast_1d(r_omit).tolist()} without, shape {a.shape}")
            except Exception as e:
                fail(f"{nm}.explicit_axis_None_raised", f"{type(e).__name__}: {str(e)[:100]}")
            # along an axis
            if a.ndim == 2:
                rows_ok = ~np.all(np.isnan(a), axis=1)
                if rows_ok.all():
                    r = fn(a, random_state=1, axis=1)
                    vals = a[np.arange(len(a)), r]
                    if not np.array_equal(vals, ext(a, axis=1)):
                        fail(f"{nm}.axis1_not_an_optimum", f"{r.tolist()} on {a.tolist()}")
        return fails
    b, method = case["b"], case["method"]
    if np.isinf(a).any():
        # simple_batch validates its input with ensure_all_finite="allow-nan": infinities are rejected with a ValueError
        # (domain of simple_batch: finite numbers and NaN); rand_argmax/rand_argmin above do cover +-inf
        a = np.where(np.isinf(a), np.sign(a) * 5.0, a)
    if method == "proportional":
        if a.ndim != 1:
            return fails
        a = np.abs(a)
        a[np.isinf(a)] = 3.0
    nn = int(np.sum(~np.isnan(a)))
    if method == "proportional":
        npos = int(np.sum(a[~np.isnan(a)] > 0))
        if npos < min(b, nn):
            # fewer positive weights than requested: numpy's choice raises; a batch containing a zero-weight or NaN entry
            # would violate the property
            try:
                q = simple_batch(a.copy(), random_state=case["t"], batch_size=b, method=method)
            except Exception:
                return fails
            bad = [int(i) for i in np.asarray(q).ravel() if not a[int(i)] > 0]
            if bad:
                fail("simple_batch.zero_weight_selected", f"positions {bad} of weight {[a[i] for i in bad]} selected (batch {b}, {npos} positive weights)")
            return fails
    u = a.copy()
    try:
        q, U = simple_batch(u, random_state=case["t"], batch_size=b, return_utilities=True, method=method)
    except Exception as e:
        if method == "proportional" and nn == 0:
            fail("simple_batch.proportional_raises_without_candidates", f"{type(e).__name__}: {e} (all entries NaN; expected an empty batch)")
        else:
            fail("simple_batch.raised", f"{type(e).__name__}: {e} (method={method}, batch_size={b}, array {a.tolist()})")
        return fails
    k = min(b, nn)
    q = np.asarray(q)
    pos = [tuple(np.atleast_1d(x).tolist()) for x in q] if a.ndim > 1 else [(int(x),) for x in q.tolist()]
    if len(pos) != k:
        fail("simple_batch.wrong_size", f"{len(pos)} positions, expected min(batch_size, #non-NaN) = {k}")
        return fails
    if len(set(pos)) != len(pos):
        fail("simple_batch.duplicates", f"{pos}")
    vals = [a[p] for p in pos]
    if any(np.isnan(v) for v in vals):
        fail("simple_batch.selected_nan", f"{pos}")
    if method == "max" and any(x < y for x, y in zip(vals, vals[1:])):
        fail("simple_batch.not_non_increasing", f"values {vals}")
    if method == "proportional" and any(not v > 0 for v in vals):
        fail("simple_batch.zero_weight_selected", f"values {vals}")
    U = np.asarray(U)
    if U.shape != (k,) + a.shape:
        fail("simple_batch.utilities_shape", f"{U.shape}, expected {(k,) + a.shape}")
        return fails
    for i in range(k):
        exp = a.copy()
        for p in pos[:i]:
            exp[p] = np.nan
        if not np.array_equal(U[i], exp, equal_nan=True):
            fail("simple_batch.row_mismatch", f"row {i} is not the input with the picks 0..{i - 1} set to NaN")
            break
        if method == "max" and a[pos[i]] < np.nanmax(U[i]):
            fail("simple_batch.pick_not_row_maximum", f"row {i}")
    return fails


if __name__ == "__main__":
    sys.exit(runner.main(sys.modules[__name__]))
