"""Recipes for every stream strategy / budget manager (test code; proves nothing)."""
import copy
import numpy as np
from collections import deque

from skactiveml.classifier import ParzenWindowClassifier
from skactiveml.stream import (StreamRandomSampling, PeriodicSampling, FixedUncertainty, VariableUncertainty, Split,
                               StreamProbabilisticAL, RandomVariableUncertainty, StreamDensityBasedAL,
                               CognitiveDualQueryStrategy, CognitiveDualQueryStrategyRan, CognitiveDualQueryStrategyRanVarUn,
                               CognitiveDualQueryStrategyVarUn, CognitiveDualQueryStrategyFixUn)
from skactiveml.stream.budgetmanager import (FixedUncertaintyBudgetManager, VariableUncertaintyBudgetManager,
                                             SplitBudgetManager, RandomVariableUncertaintyBudgetManager, RandomBudgetManager,
                                             DensityBasedSplitBudgetManager, BalancedIncrementalQuantileFilter)

CL = [0, 1]

# name -> (factory(budget, w, seed), kind, chunk_invariant, bound_kind)
MANAGERS = {
    "FixedUncertaintyBudgetManager": (lambda b, w, s: FixedUncertaintyBudgetManager(classes=CL, w=w, budget=b), True, "window"),
    "VariableUncertaintyBudgetManager": (lambda b, w, s: VariableUncertaintyBudgetManager(w=w, budget=b, s=0.05), True, "window"),
    "RandomVariableUncertaintyBudgetManager": (lambda b, w, s: RandomVariableUncertaintyBudgetManager(w=w, budget=b, random_state=s), False, "window"),
    "SplitBudgetManager": (lambda b, w, s: SplitBudgetManager(w=w, budget=b, random_state=s, v=0.3), True, "window"),
    "RandomBudgetManager": (lambda b, w, s: RandomBudgetManager(w=w, budget=b, random_state=s), True, "window"),
    "DensityBasedSplitBudgetManager": (lambda b, w, s: DensityBasedSplitBudgetManager(budget=b, random_state=s), False, "density"),
    "BalancedIncrementalQuantileFilter": (lambda b, w, s: BalancedIncrementalQuantileFilter(w=max(w, 2), w_tol=max(1, w // 2), budget=b), True, None),
}


def make_clf(seed=0):
    rs = np.random.RandomState(1000 + seed)
    X = rs.randint(0, 4, size=(12, 2)).astype(float)
    y = (X[:, 0] + X[:, 1] > 3).astype(float)
    return ParzenWindowClassifier(classes=CL, random_state=0).fit(X, y), X, y


# name -> (factory(budget, seed), needs, chunk_invariant, bound_kind)
#   needs: 'none' | 'clf' | 'clfXy'
STRATEGIES = {
    "StreamRandomSampling-strict": (lambda b, s: StreamRandomSampling(allow_exceeding_budget=False, budget=b, random_state=s), "none", True, "strict"),
    "StreamRandomSampling": (lambda b, s: StreamRandomSampling(budget=b, random_state=s), "none", True, None),
    "PeriodicSampling": (lambda b, s: PeriodicSampling(budget=b, random_state=s), "none", True, "strict"),
    "FixedUncertainty": (lambda b, s: FixedUncertainty(classes=CL, budget=b, random_state=s), "clf", True, "window100"),
    "VariableUncertainty": (lambda b, s: VariableUncertainty(budget=b, random_state=s), "clf", True, "window100"),
    "RandomVariableUncertainty": (lambda b, s: RandomVariableUncertainty(budget=b, random_state=s), "clf", False, "window100"),
    "Split": (lambda b, s: Split(budget=b, random_state=s), "clf", True, "window100"),
    "StreamProbabilisticAL": (lambda b, s: StreamProbabilisticAL(budget=b, random_state=s), "clfXy", True, None),
    "StreamDensityBasedAL": (lambda b, s: StreamDensityBasedAL(budget=b, random_state=s, window_size=8), "clfXy", False, None),
    "CognitiveDualQueryStrategyRan": (lambda b, s: CognitiveDualQueryStrategyRan(budget=b, random_state=s, force_full_budget=True), "clfXy", False, None),
    "CognitiveDualQueryStrategyFixUn": (lambda b, s: CognitiveDualQueryStrategyFixUn(classes=CL, budget=b, random_state=s, force_full_budget=True), "clfXy", False, None),
    "CognitiveDualQueryStrategyVarUn": (lambda b, s: CognitiveDualQueryStrategyVarUn(budget=b, random_state=s, force_full_budget=True), "clfXy", False, None),
    "CognitiveDualQueryStrategyRanVarUn": (lambda b, s: CognitiveDualQueryStrategyRanVarUn(budget=b, random_state=s, force_full_budget=True), "clfXy", False, None),
    # default configuration force_full_budget=False (known finding: update may receive filtered candidates with unfiltered indices)
    "CognitiveDualQueryStrategyVarUn-default": (lambda b, s: CognitiveDualQueryStrategyVarUn(budget=b, random_state=s), "clfXy", False, None),
    "CognitiveDualQueryStrategyFixUn-default": (lambda b, s: CognitiveDualQueryStrategyFixUn(classes=CL, budget=b, random_state=s), "clfXy", False, None),
    "CognitiveDualQueryStrategyRan-default": (lambda b, s: CognitiveDualQueryStrategyRan(budget=b, random_state=s), "clfXy", False, None),
}


def snapshot(obj, depth=0):
    """deep, comparable image of the state of a strategy / manager (all attributes, nested managers, RNG state)"""
    if depth > 6:
        return "..."
    if isinstance(obj, np.random.RandomState):
        st = obj.get_state()
        return ("RandomState", st[0], st[1].tolist(), int(st[2]), int(st[3]), float(st[4]))
    if isinstance(obj, np.ndarray):
        return ("nd", obj.shape, [snapshot(x, depth + 1) for x in obj.ravel().tolist()])
    if isinstance(obj, (deque, list, tuple)):
        return (type(obj).__name__, [snapshot(x, depth + 1) for x in obj])
    if isinstance(obj, dict):
        return {str(k): snapshot(v, depth + 1) for k, v in sorted(obj.items(), key=lambda kv: str(kv[0]))}
    if isinstance(obj, (float, np.floating)):
        return float(obj)
    if isinstance(obj, (bool, np.bool_)):
        return bool(obj)
    if isinstance(obj, (int, np.integer)):
        return int(obj)
    if obj is None or isinstance(obj, str):
        return obj
    if hasattr(obj, "__dict__") and hasattr(obj, "get_params"):
        # n_features_in_ is (re)set by every validation prologue (update validates a dummy [[0]]); no behaviour reads it
        return {k: snapshot(v, depth + 1) for k, v in sorted(vars(obj).items()) if k != "n_features_in_"}
    if callable(obj):
        return "callable:" + getattr(obj, "__name__", type(obj).__name__)
    return "obj:" + type(obj).__name__


def same(a, b, tol=1e-9):
    """structural equality with a float tolerance (numbers computed by vectorised code differ in the last bits
    between chunk shapes); returns (ok, path of first difference)"""
    if isinstance(a, float) and isinstance(b, (float, int)) or isinstance(b, float) and isinstance(a, (float, int)):
        a, b = float(a), float(b)
        if a != a and b != b:
            return True, ""
        if a == b or abs(a - b) <= tol * max(1.0, abs(a), abs(b)):
            return True, ""
        return False, f"{a} != {b}"
    if type(a) != type(b):
        return False, f"type {type(a).__name__} != {type(b).__name__}"
    if isinstance(a, dict):
        if set(a) != set(b):
            return False, f"keys {sorted(set(a) ^ set(b))}"
        for k in a:
            ok, p = same(a[k], b[k], tol)
            if not ok:
                return False, f".{k}{p if p.startswith(('.', '[')) else ': ' + p}"
        return True, ""
    if isinstance(a, (list, tuple)):
        if len(a) != len(b):
            return False, f"len {len(a)} != {len(b)}"
        for i, (x, y) in enumerate(zip(a, b)):
            ok, p = same(x, y, tol)
            if not ok:
                return False, f"[{i}]{p if p.startswith(('.', '[')) else ': ' + p}"
        return True, ""
    return (a == b), f"{a!r} != {b!r}"


class Driver:
    """uniform query/update interface over managers and strategies"""

    def __init__(self, name, budget, w, seed):
        self.name = name
        self.is_manager = name in MANAGERS
        if self.is_manager:
            self.obj = MANAGERS[name][0](budget, w, seed)
            self.needs = "util"
        else:
            fac, self.needs, _, _ = STRATEGIES[name]
            self.obj = fac(budget, seed)
        self.clf, self.X, self.y = make_clf(seed) if self.needs in ("clf", "clfXy") else (None, None, None)

    def query(self, cand, util):
        """-> (indices, utilities)"""
        if self.is_manager:
            q = self.obj.query_by_utility(np.array(util, dtype=float))
            return q, np.array(util, dtype=float)
        if self.needs == "none":
            return self.obj.query(cand, return_utilities=True)
        if self.needs == "clf":
            return self.obj.query(cand, clf=self.clf, return_utilities=True)
        return self.obj.query(cand, clf=self.clf, X=self.X, y=self.y, return_utilities=True)

    def update(self, cand, q, util):
        if self.is_manager:
            if self.name == "BalancedIncrementalQuantileFilter":
                return self.obj.update(cand, q, utilities=util)
            return self.obj.update(cand, q)
        if self.name == "StreamProbabilisticAL":
            return self.obj.update(cand, q, budget_manager_param_dict={"utilities": util})
        return self.obj.update(cand, q)


def make_stream(kind, n, seed):
    """(candidates (n,2), utilities (n,))"""
    rs = np.random.RandomState(seed)
    # continuous features: utilities computed from a classifier are then tie-free, so that last-bit differences between
    # vectorised evaluations of different chunk shapes cannot flip a threshold comparison
    X = rs.rand(n, 2) * 3
    if kind == "ones":
        u = np.ones(n)
    elif kind == "alternating":
        u = np.tile([1.0, 0.0], n // 2 + 1)[:n]
    elif kind == "nan_mix":
        u = rs.rand(n)
        u[rs.rand(n) < 0.3] = np.nan
    elif kind == "ramp":
        u = np.linspace(0, 1, n)
    elif kind == "grid":
        u = rs.randint(0, 5, size=n) / 4.0
    else:
        u = rs.rand(n)
    return X, u


def chunking(kind, n, seed):
    rs = np.random.RandomState(seed + 17)
    if kind == "one":
        return [1] * n
    if kind == "whole":
        return [n]
    if isinstance(kind, int):
        out = [kind] * (n // kind)
        if n % kind:
            out.append(n % kind)
        return out
    out = []
    left = n
    while left > 0:
        c = int(min(left, rs.randint(1, 12)))
        out.append(c)
        left -= c
    return out
