"""Contracts for skactiveml.utils.ExtLabelEncoder.transform / inverse_transform (skactiveml/utils/_label_encoder.py) — C16, and the
assumed encoder contract that the classifier / aggregation units use (contracts/encoder.py) is discharged here.

Assumed contract of sklearn.preprocessing.LabelEncoder (fitted, K classes):
    transform(a)[t]         = LCODE(a[t]) with 0 <= LCODE(a[t]) < K          (raises on a label outside classes_: that path ends the call)
    inverse_transform(c)[t] = LDEC(c[t])                                       (raises on a code outside [0, K))
    LDEC(LCODE(x)) = x for every x the encoder was fitted on                    (used by the round-trip lemma only)
Ensures (1-D arrays of any length, any sentinel):
    fit(y)                   : _le is a NEW LabelEncoder fitted on `classes` when given; _dtype = dtype token of np.append(classes | y,
                               missing_label) (provenance only: numpy's promotion is not modelled); classes_ = _le.classes_; returns self
    transform(y)[i]          = -1 if y[i] is the sentinel, else LCODE(y[i]) (and then 0 <= code < K); integer array of the same length
    inverse_transform(c)[i]  = the sentinel if c[i] == -1, else LDEC(c[i]); same length
    round trip (lemma over the two contracts): inverse_transform(transform(y))[i] = y[i] for labeled y[i], the sentinel otherwise
The dtype of the decoded array (np.append(classes, missing_label).dtype) and 2-D label matrices are not under contract here: they are
enumerated by the bounded stand-in.
"""
import z3

from pyvc.se import (State, ArrData, ListData, ObjData, Opaque, Ref, fresh, fresh_fn, fresh_sel, to_int, I, B, USort, z3bool, Unsupported, is_z3)
from pyvc.unit import se_unit, returns, raises
from pyvc.lib import as_array, arr_of
from pyvc.solve import solve_one
from .pool_base import pool_lib, MISSING

FE = "skactiveml/utils/_label_encoder.py"
LCODE = z3.Function("LCODE", USort, I)
LDEC = z3.Function("LDEC", I, USort)
K = z3.Int("n_classes")


def enc_lib():
    L = pool_lib()
    base_pred = L.functions["is_labeled"]

    @L.fn("is_labeled", "is_unlabeled")
    def _pred(E, st, args, kw, node):
        """integer codes against the integer sentinel -1: plain equality (proved for the NaN-free case in labels.is_unlabeled.*)"""
        y = args[0]
        ml = kw.get("missing_label", args[1] if len(args) > 1 else None)
        a = as_array(y, st) if isinstance(y, Ref) else None
        if a is not None and a.kind == "i" and isinstance(ml, int):
            name = node.func.id
            f = (lambda *i: to_int(a.sel(*i)) == ml) if name == "is_unlabeled" else (lambda *i: to_int(a.sel(*i)) != ml)
            return st.alloc(ArrData(a.shape, f, "b"))
        return base_pred(E, st, args, kw, node)

    @L.fn("check_is_fitted", "check_classifier_params", "check_missing_label")
    def _noop(E, st, args, kw, node):
        return None

    @L.fn("check_array")
    def _ca(E, st, args, kw, node):
        return args[0]

    def le_transform(E, st, recv, args, kw, node):
        a = as_array(args[0], st)
        if a is None or a.ndim != 1 or a.kind != "o":
            raise Unsupported("LabelEncoder.transform contract: 1-D label array")
        t = z3.Int("le_t")
        st.assume(z3.ForAll([t], z3.Implies(z3.And(0 <= t, t < to_int(a.shape[0])), z3.And(0 <= LCODE(a.sel(t).sym), LCODE(a.sel(t).sym) < K))))
        return st.alloc(ArrData(a.shape, lambda i: LCODE(a.sel(i).sym), "i"))

    def le_inverse(E, st, recv, args, kw, node):
        a = as_array(args[0], st)
        if a is None or a.ndim != 1 or a.kind != "i":
            raise Unsupported("LabelEncoder.inverse_transform contract: 1-D integer array")
        return st.alloc(ArrData(a.shape, lambda i: Opaque("label", LDEC(to_int(a.sel(i)))), "o"))
    L.contracts["__LabelEncoder__.transform"] = le_transform
    L.contracts["__LabelEncoder__.inverse_transform"] = le_inverse
    return L


def encoder_obj(st):
    ml = Opaque("missing_label")
    le = st.alloc(ObjData("__LabelEncoder__", {"__open__": True}))
    o = st.alloc(ObjData("ExtLabelEncoder", {"classes": Opaque("classes"), "missing_label": ml, "_le": le, "_dtype": Opaque("label_dtype"),
                                             "classes_": Opaque("classes_")}))
    return o, ml


def unit_transform():
    def setup(E, st):
        n = z3.Int("n")
        st.assume(n >= 0, K >= 0)
        y = ArrData((n,), fresh_sel("y", "o"), "o")
        o, ml = encoder_obj(st)
        from pyvc import cex
        E.default_concretize = lambda ev: {"family": "label_encoder", "fn": "transform", "sig": "counter-model", "y": cex.arr(ev, y),
                                           "missing": cex.missing_flags(ev, y, MISSING, ml)}
        return {"args": [o, st.alloc(y)], "y": y, "ml": ml, "n": n}

    def post(E, ctx, outs):
        rets = returns(outs)
        if not rets:
            E.oblige("reaches.return", [], z3.BoolVal(False))
        i = z3.Int("i")
        for o in rets:
            r = arr_of(o.value, o.state)
            ok = r is not None and r.ndim == 1 and r.kind == "i"
            E.oblige("C16.transform.returns_integer_codes", o.state, z3.BoolVal(bool(ok)))
            if not ok:
                continue
            yv = ctx["y"]
            E.oblige("C16.transform.same_length", o.state, to_int(r.shape[0]) == ctx["n"])
            rng = z3.And(0 <= i, i < ctx["n"])
            m = lambda k: MISSING(yv.sel(k).sym, ctx["ml"].sym)
            E.oblige("C16.transform.sentinel_becomes_minus_one", o.state, z3.ForAll([i], z3.Implies(z3.And(rng, m(i)), to_int(r.sel(i)) == -1)))
            E.oblige("C16.transform.labels_get_their_class_rank", o.state, z3.ForAll([i], z3.Implies(z3.And(rng, z3.Not(m(i))),
                     z3.And(to_int(r.sel(i)) == LCODE(yv.sel(i).sym), 0 <= to_int(r.sel(i)), to_int(r.sel(i)) < K))))
    return se_unit("label_encoder.transform.1d", FE, "ExtLabelEncoder.transform", "ExtLabelEncoder", setup, post, lib_factory=enc_lib)


def unit_inverse():
    def setup(E, st):
        n = z3.Int("n")
        st.assume(n >= 0, K >= 0)
        c = ArrData((n,), fresh_sel("codes", "i"), "i")
        o, ml = encoder_obj(st)
        from pyvc import cex
        E.default_concretize = lambda ev: {"family": "label_encoder", "fn": "inverse_transform", "sig": "counter-model", "codes": cex.arr(ev, c)}
        return {"args": [o, st.alloc(c)], "c": c, "ml": ml, "n": n}

    def post(E, ctx, outs):
        rets = returns(outs)
        if not rets:
            E.oblige("reaches.return", [], z3.BoolVal(False))
        i = z3.Int("i")
        for o in rets:
            r = arr_of(o.value, o.state)
            ok = r is not None and r.ndim == 1 and r.kind == "o"
            E.oblige("C16.inverse_transform.returns_labels", o.state, z3.BoolVal(bool(ok)))
            if not ok:
                continue
            c = ctx["c"]
            E.oblige("C16.inverse_transform.same_length", o.state, to_int(r.shape[0]) == ctx["n"])
            rng = z3.And(0 <= i, i < ctx["n"])
            E.oblige("C16.inverse_transform.minus_one_becomes_the_sentinel", o.state,
                     z3.ForAll([i], z3.Implies(z3.And(rng, to_int(c.sel(i)) == -1), r.sel(i).sym == ctx["ml"].sym)))
            E.oblige("C16.inverse_transform.codes_become_their_class", o.state,
                     z3.ForAll([i], z3.Implies(z3.And(rng, to_int(c.sel(i)) != -1), r.sel(i).sym == LDEC(to_int(c.sel(i))))))
    return se_unit("label_encoder.inverse_transform.1d", FE, "ExtLabelEncoder.inverse_transform", "ExtLabelEncoder", setup, post, lib_factory=enc_lib)


def fit_lib(log):
    """library for ExtLabelEncoder.fit: LabelEncoder() is a fresh encoder object, LabelEncoder.fit records what it was fitted on,
    np.append(a, b) is only used for its dtype: the result carries DTYPE(a, b), an opaque token recorded with its two arguments
    (numpy's dtype promotion itself is not modelled)"""
    L = enc_lib()

    @L.fn("LabelEncoder")
    def _new(E, st, args, kw, node):
        r = st.alloc(ObjData("__LabelEncoder__", {"__open__": True, "classes_": Opaque("le_classes_")}))
        log.append(("new", r))
        return r

    @L.fn("np.append")
    def _app(E, st, args, kw, node):
        d = Opaque("dtype_of_append")
        log.append(("append", d, args[0], args[1]))
        return st.alloc(ObjData("__appended__", {"dtype": d}))

    def le_fit(E, st, recv, args, kw, node):
        log.append(("fit", recv, args[0]))
        return recv
    L.contracts["__LabelEncoder__.fit"] = le_fit
    return L


def unit_fit(with_classes):
    """ExtLabelEncoder.fit: the wrapped encoder is a NEW LabelEncoder fitted exactly once - on the class list when one is given -, the
    decode dtype `_dtype` is the dtype of np.append(<what the encoder was fitted on: the class list, else y>, missing_label), i.e. with a
    class list it does not depend on the array handed to fit; classes_ are the wrapped encoder's; fit returns self."""
    log = []

    def setup(E, st):
        del log[:]
        n = z3.Int("n")
        st.assume(n >= 0)
        y = ArrData((n,), fresh_sel("y", "o"), "o")
        ml = Opaque("missing_label")
        cl = Opaque("classes") if with_classes else None
        if with_classes:
            st.assume(z3.Not(z3.Bool("isnone:" + str(cl.sym))))      # a class list is given
        old_le = st.alloc(ObjData("__LabelEncoder__", {"__open__": True}))
        o = st.alloc(ObjData("ExtLabelEncoder", {"classes": cl, "missing_label": ml, "_le": old_le, "_dtype": Opaque("old_dtype"),
                                                 "classes_": Opaque("old_classes_")}))
        yr = st.alloc(y)
        return {"args": [o, yr], "self": o, "y": yr, "ml": ml, "cl": cl, "old_le": old_le}

    def post(E, ctx, outs):
        rets = returns(outs)
        if not rets:
            E.oblige("reaches.return", [], z3.BoolVal(False))
        for o in rets:
            f = o.state.get(ctx["self"]).fields
            E.oblige("C16.fit.returns_self", o.state, z3.BoolVal(isinstance(o.value, Ref) and o.value == ctx["self"]))
            le = f.get("_le")
            news = [e[1] for e in log if e[0] == "new"]
            E.oblige("C16.fit.wraps_a_new_encoder", o.state, z3.BoolVal(isinstance(le, Ref) and le != ctx["old_le"] and any(le == r for r in news)))
            fits = [e for e in log if e[0] == "fit" and e[1] == le]
            apps = {id(e[1]): e for e in log if e[0] == "append"}
            dt = f.get("_dtype")
            src = apps.get(id(dt))
            if with_classes:
                E.oblige("C16.fit.encoder_fitted_on_the_class_list", o.state,
                         z3.BoolVal(bool(fits) and all(isinstance(e[2], Opaque) and e[2] is ctx["cl"] for e in fits)))
                E.oblige("C16.fit.decode_dtype_from_class_list_and_sentinel", o.state,
                         z3.BoolVal(src is not None and src[2] is ctx["cl"] and src[3] is ctx["ml"]))
            else:
                E.oblige("C16.fit.encoder_fitted", o.state, z3.BoolVal(bool(fits)))
                E.oblige("C16.fit.decode_dtype_from_labels_and_sentinel", o.state,
                         z3.BoolVal(src is not None and isinstance(src[2], Ref) and src[2] == ctx["y"] and src[3] is ctx["ml"]))
            lec = o.state.get(le).fields.get("classes_") if isinstance(le, Ref) else None
            E.oblige("C16.fit.classes__are_the_wrapped_encoders", o.state, z3.BoolVal(lec is not None and f.get("classes_") is lec))
    return se_unit("label_encoder.fit." + ("classes_given" if with_classes else "classes_from_labels"), FE, "ExtLabelEncoder.fit", "ExtLabelEncoder",
                   setup, post, lib_factory=lambda: fit_lib(log))


def unit_round_trip(tier):
    """lemma over the two contracts above and LabelEncoder's inverse law"""
    US = USort
    y = z3.Function("y", I, US)
    enc = z3.Function("enc", I, I)
    dec = z3.Function("dec", I, US)
    ml = z3.Const("ml", US)
    n, i = z3.Ints("n i")
    fitted = z3.Function("FITTED_ON", US, B)
    rng = z3.And(0 <= i, i < n)
    T = z3.ForAll([i], z3.Implies(rng, z3.If(MISSING(y(i), ml), enc(i) == -1, z3.And(enc(i) == LCODE(y(i)), 0 <= enc(i), enc(i) < K))))
    Iv = z3.ForAll([i], z3.Implies(rng, z3.If(enc(i) == -1, dec(i) == ml, dec(i) == LDEC(enc(i)))))
    u = z3.Const("u", US)
    law = z3.ForAll([u], z3.Implies(fitted(u), LDEC(LCODE(u)) == u))
    goal = z3.ForAll([i], z3.Implies(rng, z3.If(MISSING(y(i), ml), dec(i) == ml, z3.Implies(fitted(y(i)), dec(i) == y(i)))))
    r = solve_one({"name": "C16.round_trip.decode_of_encode_is_identity_on_labels_and_sentinel", "pc": [T, Iv, law], "goal": goal, "meta": {}}, timeout_ms=20000)
    r["goal_text"] = str(goal)[:300]
    return {"unit": "label_encoder.round_trip", "target": "lemma over ExtLabelEncoder.transform / inverse_transform contracts", "kind": "lemma",
            "obligations": [r], "abstracted": [], "dropped": [], "lib": [], "paths": 1}


UNITS = {"fit.classes_given": unit_fit(True), "fit.classes_from_labels": unit_fit(False), "transform.1d": unit_transform(), "inverse_transform.1d": unit_inverse(), "round_trip": unit_round_trip}
