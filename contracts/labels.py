"""Contracts for skactiveml/utils/_label.py — C16 (predicates) and the label half of C09.

is_labeled            = elementwise complement of is_unlabeled, same shape (for every sentinel; proved against the contract of
                        is_unlabeled)
unlabeled_indices / labeled_indices (1-D)
                      = the ascending positions of the True entries of the respective mask, each exactly once
is_unlabeled (NaN sentinel, float ndarray)
                      = np.isnan(y) (proved from the body; the equality branch for other sentinels depends on numpy's dtype
                        promotion / casting and is covered by the exhaustive enumeration of the bounded stand-in)
"""
import ast
import z3

from pyvc.se import (State, ArrData, ListData, ObjData, Opaque, Ref, Engine, fresh, fresh_fn, fresh_sel, to_real, to_int, I, R, B, USort,
                     is_z3, Unsupported, z3bool, mk_fv)
from pyvc.unit import se_unit, returns, raises, get_repo
from pyvc.lib import Lib, as_array, arr_of
from pyvc import cex

FL = "skactiveml/utils/_label.py"
MISS = z3.Function("MISSING", USort, USort, B)


def label_lib(with_is_unlabeled=True):
    L = Lib()
    if with_is_unlabeled:
        @L.fn("is_unlabeled")
        def _isu(E, st, args, kw, node):
            y = args[0]
            ml = kw.get("missing_label", args[1] if len(args) > 1 else None)
            a = as_array(y, st) if isinstance(y, Ref) else None
            if a is None or a.kind != "o" or not isinstance(ml, Opaque):
                return Opaque("is_unlabeled")
            return st.alloc(ArrData(a.shape, lambda *i: MISS(a.sel(*i).sym, ml.sym), "b"))

    @L.fn("check_missing_label")
    def _cml(E, st, args, kw, node):
        return None
    return L


def unit_is_labeled(ndim):
    def setup(E, st):
        n, m = z3.Int("n"), z3.Int("m")
        st.assume(n >= 0, m >= 0)
        shape = (n,) if ndim == 1 else (n, m)
        y = ArrData(shape, fresh_sel("y", "o", ndim), "o")
        ml = Opaque("missing_label")
        E.default_concretize = lambda ev: {"family": "labels", "fn": "is_labeled", "sig": "counter-model", "y": cex.arr(ev, y),
                                           "missing": cex.missing_flags(ev, y, MISS, ml)}
        return {"args": [st.alloc(y), ml], "y": y, "ml": ml, "shape": shape}

    def post(E, ctx, outs):
        rets = returns(outs)
        if not rets:
            E.oblige("reaches.return", [], z3.BoolVal(False))
        for o in rets:
            r = arr_of(o.value, o.state)
            if r is None or r.kind != "b" or r.ndim != ndim:
                E.oblige("returns.boolean_mask_of_the_same_rank", o.state, False)
                continue
            idx = [z3.Int(f"i{t}") for t in range(ndim)]
            rng = z3.And(*[z3.And(0 <= i, i < to_int(s)) for i, s in zip(idx, ctx["shape"])])
            E.oblige("ensures.same_shape", o.state, z3.And(*[to_int(a) == to_int(b) for a, b in zip(r.shape, ctx["shape"])]))
            E.oblige("ensures.complement_of_is_unlabeled", o.state,
                     z3.ForAll(idx, z3.Implies(rng, z3bool(r.sel(*idx)) == z3.Not(MISS(ctx["y"].sel(*idx).sym, ctx["ml"].sym)))))
    return se_unit(f"labels.is_labeled.{ndim}d", FL, "is_labeled", None, setup, post, lib_factory=label_lib)


def unit_indices(which):
    want_missing = which == "unlabeled_indices"

    def setup(E, st):
        n = z3.Int("n")
        st.assume(n >= 0)
        y = ArrData((n,), fresh_sel("y", "o"), "o")
        ml = Opaque("missing_label")
        E.default_concretize = lambda ev: {"family": "labels", "fn": which, "sig": "counter-model", "y": cex.arr(ev, y),
                                           "missing": cex.missing_flags(ev, y, MISS, ml)}
        return {"args": [st.alloc(y), ml], "y": y, "ml": ml, "n": n}

    def post(E, ctx, outs):
        rets = returns(outs)
        if not rets:
            E.oblige("reaches.return", [], z3.BoolVal(False))
        n = ctx["n"]
        t, u, j = z3.Ints("t u j")
        for o in rets:
            r = arr_of(o.value, o.state)
            if r is None or r.ndim != 1:
                E.oblige("returns.1d_index_array", o.state, False)
                continue
            k = to_int(r.shape[0])
            pred = lambda jj: MISS(ctx["y"].sel(jj).sym, ctx["ml"].sym) if want_missing else z3.Not(MISS(ctx["y"].sel(jj).sym, ctx["ml"].sym))
            E.oblige("ensures.ascending", o.state, z3.ForAll([t, u], z3.Implies(z3.And(0 <= t, t < u, u < k), to_int(r.sel(t)) < to_int(r.sel(u)))))
            E.oblige("ensures.only_matching_positions", o.state, z3.ForAll([t], z3.Implies(z3.And(0 <= t, t < k),
                     z3.And(0 <= to_int(r.sel(t)), to_int(r.sel(t)) < n, pred(to_int(r.sel(t)))))))
            E.oblige("ensures.every_matching_position", o.state, z3.ForAll([j], z3.Implies(z3.And(0 <= j, j < n, pred(j)),
                     z3.Exists([t], z3.And(0 <= t, t < k, to_int(r.sel(t)) == j)))))
    return se_unit(f"labels.{which}.1d", FL, which, None, setup, post, lib_factory=label_lib, inline={"is_labeled"})


def unit_is_unlabeled_nan(ndim=1):
    """NaN sentinel, float ndarray of shape (n,) or (n, k): the mask has the same shape and is True exactly at the NaN entries"""
    def setup(E, st):
        n, k = z3.Int("n"), z3.Int("k")
        st.assume(n >= 1, k >= 1)
        shape = (n,) if ndim == 1 else (n, k)
        y = ArrData(shape, fresh_sel("y", "f", ndim) if ndim == 2 else fresh_sel("y", "f"), "f")
        E.default_concretize = lambda ev: {"family": "labels", "fn": "is_unlabeled", "sig": "counter-model", "y_float": cex.arr(ev, y),
                                           "shape": [cex.ival(ev, d) for d in shape]}
        return {"args": [st.alloc(y), float("nan")], "y": y, "shape": shape}

    def post(E, ctx, outs):
        rets = returns(outs)
        if not rets:
            E.oblige("reaches.return", [], z3.BoolVal(False))
        js = [z3.Int("j"), z3.Int("l")][:ndim]
        for o in rets:
            r = arr_of(o.value, o.state)
            if r is None or r.kind != "b" or r.ndim != ndim:
                E.oblige("returns.boolean_mask", o.state, False)
                continue
            E.oblige("ensures.same_length" if ndim == 1 else "ensures.same_shape", o.state,
                     z3.And(*[to_int(a) == to_int(b) for a, b in zip(r.shape, ctx["shape"])]))
            rng = z3.And(*[z3.And(0 <= j, j < to_int(d)) for j, d in zip(js, ctx["shape"])])
            E.oblige("ensures.marks_exactly_the_NaN_entries", o.state,
                     z3.ForAll(js, z3.Implies(rng, z3bool(r.sel(*js)) == to_real(ctx["y"].sel(*js))[0])))
    name = "labels.is_unlabeled.nan_sentinel" + ("" if ndim == 1 else "_2d")
    return se_unit(name, FL, "is_unlabeled", None, setup, post, lib_factory=lambda: label_lib(False))


def unit_is_unlabeled_number(ndim=1):
    """numeric sentinel (a non-NaN float m), float ndarray: the equality branch - the mask has the same shape and is True exactly at
    the entries equal to m; in particular NaN entries count as LABELED. Assumed: np.append(float array, float).dtype is float64, so
    that astype(target_type) is the identity on a float64 array (dtype promotion for other dtypes is enumerated by the stand-in)."""
    def setup(E, st):
        n, k = z3.Int("n"), z3.Int("k")
        m = z3.Real("m")
        st.assume(n >= 1, k >= 1)
        shape = (n,) if ndim == 1 else (n, k)
        y = ArrData(shape, fresh_sel("y", "f", ndim) if ndim == 2 else fresh_sel("y", "f"), "f")
        mv = mk_fv(z3.BoolVal(False), m)
        E.default_concretize = lambda ev: {"family": "labels", "fn": "is_unlabeled", "sig": "counter-model", "y_float": cex.arr(ev, y),
                                           "shape": [cex.ival(ev, d) for d in shape], "missing_label": cex.rval(ev, mv)}
        return {"args": [st.alloc(y), mv], "y": y, "shape": shape, "m": m}

    def post(E, ctx, outs):
        rets = returns(outs)
        if not rets:
            E.oblige("reaches.return", [], z3.BoolVal(False))
        js = [z3.Int("j"), z3.Int("l")][:ndim]
        for o in rets:
            r = arr_of(o.value, o.state)
            if r is None or r.kind != "b" or r.ndim != ndim:
                E.oblige("returns.boolean_mask", o.state, False)
                continue
            E.oblige("ensures.same_shape", o.state, z3.And(*[to_int(a) == to_int(b) for a, b in zip(r.shape, ctx["shape"])]))
            rng = z3.And(*[z3.And(0 <= j, j < to_int(d)) for j, d in zip(js, ctx["shape"])])
            en, ev = to_real(ctx["y"].sel(*js))
            E.oblige("ensures.marks_exactly_the_entries_equal_to_the_sentinel", o.state,
                     z3.ForAll(js, z3.Implies(rng, z3bool(r.sel(*js)) == z3.And(z3.Not(en), ev == ctx["m"]))))
    return se_unit(f"labels.is_unlabeled.number_sentinel_{ndim}d", FL, "is_unlabeled", None, setup, post, lib_factory=lambda: label_lib(False))


def unit_is_unlabeled_none(ndim=1):
    """None sentinel, object ndarray of opaque labels: the mask has the same shape and is True exactly at the entries that are None
    (spec predicate ISNONE; assumed: a label compares equal to None iff it is None, astype(object) keeps an object array)"""
    from pyvc.lib import ISNONE

    def setup(E, st):
        n, k = z3.Int("n"), z3.Int("k")
        st.assume(n >= 1, k >= 1)
        shape = (n,) if ndim == 1 else (n, k)
        y = ArrData(shape, fresh_sel("y", "o", ndim) if ndim == 2 else fresh_sel("y", "o"), "o")
        return {"args": [st.alloc(y), None], "y": y, "shape": shape}

    def post(E, ctx, outs):
        rets = returns(outs)
        if not rets:
            E.oblige("reaches.return", [], z3.BoolVal(False))
        js = [z3.Int("j"), z3.Int("l")][:ndim]
        for o in rets:
            r = arr_of(o.value, o.state)
            if r is None or r.kind != "b" or r.ndim != ndim:
                E.oblige("returns.boolean_mask", o.state, False)
                continue
            E.oblige("ensures.same_shape", o.state, z3.And(*[to_int(a) == to_int(b) for a, b in zip(r.shape, ctx["shape"])]))
            rng = z3.And(*[z3.And(0 <= j, j < to_int(d)) for j, d in zip(js, ctx["shape"])])
            E.oblige("ensures.marks_exactly_the_None_entries", o.state,
                     z3.ForAll(js, z3.Implies(rng, z3bool(r.sel(*js)) == ISNONE(ctx["y"].sel(*js).sym))))
    return se_unit(f"labels.is_unlabeled.none_sentinel_{ndim}d", FL, "is_unlabeled", None, setup, post, lib_factory=lambda: label_lib(False))


def unit_is_unlabeled_empty(ndim):
    """empty inputs (the early return): an empty boolean mask of the SAME shape, (0,) or (0, k)"""
    def setup(E, st):
        k = z3.Int("k")
        st.assume(k >= 1)
        shape = (0,) if ndim == 1 else (0, k)
        y = ArrData(shape, fresh_sel("y", "f", ndim), "f")
        E.default_concretize = lambda ev: {"family": "labels", "fn": "is_unlabeled", "sig": "counter-model", "y_float": [],
                                           "shape": [0] if ndim == 1 else [0, cex.ival(ev, k)]}
        return {"args": [st.alloc(y), Opaque("missing_label")], "shape": shape}

    def post(E, ctx, outs):
        rets = returns(outs)
        if not rets:
            E.oblige("reaches.return", [], z3.BoolVal(False))
        for o in rets:
            r = arr_of(o.value, o.state)
            ok = r is not None and r.kind == "b" and r.ndim == ndim
            E.oblige("ensures.empty_boolean_mask_of_the_same_rank", o.state, z3.BoolVal(bool(ok)))
            if ok:
                E.oblige("ensures.same_shape", o.state, z3.And(*[to_int(a) == to_int(b) for a, b in zip(r.shape, ctx["shape"])]))
    return se_unit(f"labels.is_unlabeled.empty_{ndim}d", FL, "is_unlabeled", None, setup, post, lib_factory=lambda: label_lib(False))


UNITS = {"is_unlabeled.empty_1d": unit_is_unlabeled_empty(1), "is_unlabeled.empty_2d": unit_is_unlabeled_empty(2),
         "is_labeled.1d": unit_is_labeled(1), "is_labeled.2d": unit_is_labeled(2),
         "unlabeled_indices.1d": unit_indices("unlabeled_indices"), "labeled_indices.1d": unit_indices("labeled_indices"),
         "is_unlabeled.nan": unit_is_unlabeled_nan(), "is_unlabeled.nan_2d": unit_is_unlabeled_nan(2),
         "is_unlabeled.number_1d": unit_is_unlabeled_number(1), "is_unlabeled.number_2d": unit_is_unlabeled_number(2),
         "is_unlabeled.none_1d": unit_is_unlabeled_none(1), "is_unlabeled.none_2d": unit_is_unlabeled_none(2)}
