"""Contracts for skactiveml/utils/_label.py — C16 (predicates) and the label half of C09.

is_labeled            = elementwise complement of is_unlabeled, same shape (for every sentinel; proved against the contract of
                        is_unlabeled)
unlabeled_indices / labeled_indices (1-D)
                      = the ascending positions of the True entries of the respective mask, each exactly once
is_unlabeled (NaN sentinel, float ndarray)
                      = np.isnan(y) (proved from the body; the equality branch for other sentinels depends on numpy's dtype
                        promotion / casting and is covered by the exhaustive enumeration of the bounded stand-in)
"""
import ast
import z3

from pyvc.se import (State, ArrData, ListData, ObjData, Opaque, Ref, Engine, fresh, fresh_fn, fresh_sel, to_real, to_int, I, R, B, USort,
                     is_z3, Unsupported, z3bool)
from pyvc.unit import se_unit, returns, raises, get_repo
from pyvc.lib import Lib, as_array, arr_of
from pyvc import cex

FL = "skactiveml/utils/_label.py"
MISS = z3.Function("MISSING", USort, USort, B)


def label_lib(with_is_unlabeled=True):
    L = Lib()
    if with_is_unlabeled:
        @L.fn("is_unlabeled")
        def _isu(E, st, args, kw, node):
            y = args[0]
            ml = kw.get("missing_label", args[1] if len(args) > 1 else None)
            a = as_array(y, st) if isinstance(y, Ref) else None
            if a is None or a.kind != "o" or not isinstance(ml, Opaque):
                return Opaque("is_unlabeled")
            return st.alloc(ArrData(a.shape, lambda *i: MISS(a.sel(*i).sym, ml.sym), "b"))

    @L.fn("check_missing_label")
    def _cml(E, st, args, kw, node):
        return None
    return L


def unit_is_labeled(ndim):
    def setup(E, st):
        n, m = z3.Int("n"), z3.Int("m")
        st.assume(n >= 0, m >= 0)
        shape = (n,) if ndim == 1 else (n, m)
        y = ArrData(shape, fresh_sel("y", "o", ndim), "o")
        ml = Opaque("missing_label")
        E.default_concretize = lambda ev: {"family": "labels", "fn": "is_labeled", "sig": "counter-model", "y": cex.arr(ev, y),
                                           "missing": cex.missing_flags(ev, y, MISS, ml)}
        return {"args": [st.alloc(y), ml], "y": y, "ml": ml, "shape": shape}

    def post(E, ctx, outs):
        rets = returns(outs)
        if not rets:
            E.oblige("reaches.return", [], z3.BoolVal(False))
        for o in rets:
            r = arr_of(o.value, o.state)
            if r is None or r.kind != "b" or r.ndim != ndim:
                E.oblige("returns.boolean_mask_of_the_same_rank", o.state, False)
                continue
            idx = [z3.Int(f"i{t}") for t in range(ndim)]
            rng = z3.And(*[z3.And(0 <= i, i < to_int(s)) for i, s in zip(idx, ctx["shape"])])
            E.oblige("ensures.same_shape", o.state, z3.And(*[to_int(a) == to_int(b) for a, b in zip(r.shape, ctx["shape"])]))
            E.oblige("ensures.complement_of_is_unlabeled", o.state,
                     z3.ForAll(idx, z3.Implies(rng, z3bool(r.sel(*idx)) == z3.Not(MISS(ctx["y"].sel(*idx).sym, ctx["ml"].sym)))))
    return se_unit(f"labels.is_labeled.{ndim}d", FL, "is_labeled", None, setup, post, lib_factory=label_lib)


def unit_indices(which):
    want_missing = which == "unlabeled_indices"

    def setup(E, st):
        n = z3.Int("n")
        st.assume(n >= 0)
        y = ArrData((n,), fresh_sel("y", "o"), "o")
        ml = Opaque("missing_label")
        E.default_concretize = lambda ev: {"family": "labels", "fn": which, "sig": "counter-model", "y": cex.arr(ev, y),
                                           "missing": cex.missing_flags(ev, y, MISS, ml)}
        return {"args": [st.alloc(y), ml], "y": y, "ml": ml, "n": n}

    def post(E, ctx, outs):
        rets = returns(outs)
        if not rets:
            E.oblige("reaches.return", [], z3.BoolVal(False))
        n = ctx["n"]
        t, u, j = z3.Ints("t u j")
        for o in rets:
            r = arr_of(o.value, o.state)
            if r is None or r.ndim != 1:
                E.oblige("returns.1d_index_array", o.state, False)
                continue
            k = to_int(r.shape[0])
            pred = lambda jj: MISS(ctx["y"].sel(jj).sym, ctx["ml"].sym) if want_missing else z3.Not(MISS(ctx["y"].sel(jj).sym, ctx["ml"].sym))
            E.oblige("ensures.ascending", o.state, z3.ForAll([t, u], z3.Implies(z3.And(0 <= t, t < u, u < k), to_int(r.sel(t)) < to_int(r.sel(u)))))
            E.oblige("ensures.only_matching_positions", o.state, z3.ForAll([t], z3.Implies(z3.And(0 <= t, t < k),
                     z3.And(0 <= to_int(r.sel(t)), to_int(r.sel(t)) < n, pred(to_int(r.sel(t)))))))
            E.oblige("ensures.every_matching_position", o.state, z3.ForAll([j], z3.Implies(z3.And(0 <= j, j < n, pred(j)),
                     z3.Exists([t], z3.And(0 <= t, t < k, to_int(r.sel(t)) == j)))))
    return se_unit(f"labels.{which}.1d", FL, which, None, setup, post, lib_factory=label_lib, inline={"is_labeled"})


def unit_is_unlabeled_nan():
    def setup(E, st):
        n = z3.Int("n")
        st.assume(n >= 1)
        y = ArrData((n,), fresh_sel("y", "f"), "f")
        E.default_concretize = lambda ev: {"family": "labels", "fn": "is_unlabeled", "sig": "counter-model", "y_float": cex.arr(ev, y)}
        return {"args": [st.alloc(y), float("nan")], "y": y, "n": n}

    def post(E, ctx, outs):
        rets = returns(outs)
        if not rets:
            E.oblige("reaches.return", [], z3.BoolVal(False))
        j = z3.Int("j")
        for o in rets:
            r = arr_of(o.value, o.state)
            if r is None or r.kind != "b" or r.ndim != 1:
                E.oblige("returns.boolean_mask", o.state, False)
                continue
            E.oblige("ensures.same_length", o.state, to_int(r.shape[0]) == ctx["n"])
            E.oblige("ensures.marks_exactly_the_NaN_entries", o.state,
                     z3.ForAll([j], z3.Implies(z3.And(0 <= j, j < ctx["n"]), z3bool(r.sel(j)) == to_real(ctx["y"].sel(j))[0])))
    return se_unit("labels.is_unlabeled.nan_sentinel", FL, "is_unlabeled", None, setup, post, lib_factory=lambda: label_lib(False))


def unit_is_unlabeled_empty(ndim):
    """empty inputs (the early return): an empty boolean mask of the SAME shape, (0,) or (0, k)"""
    def setup(E, st):
        k = z3.Int("k")
        st.assume(k >= 1)
        shape = (0,) if ndim == 1 else (0, k)
        y = ArrData(shape, fresh_sel("y", "f", ndim), "f")
        E.default_concretize = lambda ev: {"family": "labels", "fn": "is_unlabeled", "sig": "counter-model", "y_float": [],
                                           "shape": [0] if ndim == 1 else [0, cex.ival(ev, k)]}
        return {"args": [st.alloc(y), Opaque("missing_label")], "shape": shape}

    def post(E, ctx, outs):
        rets = returns(outs)
        if not rets:
            E.oblige("reaches.return", [], z3.BoolVal(False))
        for o in rets:
            r = arr_of(o.value, o.state)
            ok = r is not None and r.kind == "b" and r.ndim == ndim
            E.oblige("ensures.empty_boolean_mask_of_the_same_rank", o.state, z3.BoolVal(bool(ok)))
            if ok:
                E.oblige("ensures.same_shape", o.state, z3.And(*[to_int(a) == to_int(b) for a, b in zip(r.shape, ctx["shape"])]))
    return se_unit(f"labels.is_unlabeled.empty_{ndim}d", FL, "is_unlabeled", None, setup, post, lib_factory=lambda: label_lib(False))


UNITS = {"is_unlabeled.empty_1d": unit_is_unlabeled_empty(1), "is_unlabeled.empty_2d": unit_is_unlabeled_empty(2),
         "is_labeled.1d": unit_is_labeled(1), "is_labeled.2d": unit_is_labeled(2),
         "unlabeled_indices.1d": unit_indices("unlabeled_indices"), "labeled_indices.1d": unit_indices("labeled_indices"),
         "is_unlabeled.nan": unit_is_unlabeled_nan()}
