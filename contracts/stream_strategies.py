"""Contracts for the stream strategies that delegate to a budget manager (thin delegations) and for the
BalancedIncrementalQuantileFilter — filled in incrementally; see UNITS."""
UNITS = {}
