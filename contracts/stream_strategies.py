"""Contracts for the BalancedIncrementalQuantileFilter and for the stream strategies that delegate to a budget manager
(UncertaintyZliobaite family: FixedUncertainty, VariableUncertainty, RandomVariableUncertainty, Split; StreamProbabilisticAL)
— C03, C10.

BIQF.query_by_utility  works on a copy of the window that keeps the window bound (a deque with the same maxlen): after k
                       simulated instances the copy is the committed window extended by utilities[:k]; counters only in
                       temporaries; result strictly increasing and in range (C10); self unchanged (C03). np.quantile/min/max
                       are uninterpreted (thresholds are opaque).
BIQF.update            observed += n, queried += |queried_indices|, window extended by the utilities (same bound) — exactly the
                       final temporaries of query_by_utility (C10).
delegation             <Strategy>.query hands the manager's query_by_utility the utilities it returns and returns the manager's
                       indices unchanged; after validation it writes no attribute; update hands candidates / queried_indices
                       through unchanged (managers are covered by their own contracts).
"""
import z3

from pyvc.se import (State, ArrData, ListData, ObjData, RngData, Opaque, Ref, LoopSpec, Engine, fresh, fresh_fn, fresh_sel,
                     to_real, to_int, I, R, B, is_z3, Unsupported, z3bool, DictData, producer)
from pyvc.unit import se_unit, returns, raises, get_repo
from pyvc.lib import Lib, as_array
from .stream_budget import stream_lib, frame_goals, real, list_sorted_below

FQ = "skactiveml/stream/budgetmanager/_balanced_incremental_quantile_filter.py"


class DequeData(ListData):
    """deque(maxlen=w): logical sequence of everything ever appended (n, sel) of which the last min(n, maxlen) are visible"""

    def __init__(self, n, sel, kind, maxlen):
        super().__init__(n, sel, kind)
        self.maxlen = maxlen

    def havoc(self, hint):
        return DequeData(fresh(hint + "_n", I), fresh_sel(hint, self.kind or "f"), self.kind, self.maxlen)


def biqf_lib():
    L = stream_lib()
    base_list_method = L.list_method

    def list_method(E, ref, d, name, args, kwargs, st):
        if isinstance(d, DequeData):
            if name == "append":
                v = args[0]
                old, n = d.sel, to_int(d.n)
                st.put(ref, DequeData(z3.simplify(n + 1), lambda j, old=old, n=n, v=v: _ite(j == n, v, old(j)), "f", d.maxlen))
                return None
            if name == "extend":
                a = as_array(args[0], st) if isinstance(args[0], Ref) else None
                if a is None:
                    raise Unsupported("deque.extend of unknown value")
                old, n = d.sel, to_int(d.n)
                m = to_int(a.shape[0])
                st.put(ref, DequeData(z3.simplify(n + m), lambda j, old=old, n=n, a=a: _ite(j >= n, a.sel(j - n), old(j)), "f", d.maxlen))
                return None
            if name == "copy":
                return st.alloc(DequeData(d.n, d.sel, d.kind, d.maxlen))
        return base_list_method(E, ref, d, name, args, kwargs, st)
    L.list_method = list_method

    def _copy(E, st, args, kw, node):
        v = args[0]
        if isinstance(v, Ref) and isinstance(st.get(v), DequeData):
            d = st.get(v)
            return st.alloc(DequeData(d.n, d.sel, d.kind, d.maxlen))     # copy.copy of a deque keeps maxlen
        return base_copy(E, st, args, kw, node)
    base_copy = L.functions["copy"]
    for nm in ("copy", "deepcopy", "copy.copy", "copy.deepcopy"):
        L.functions[nm] = _copy

    def _list(E, st, args, kw, node):
        v = args[0] if args else None
        if isinstance(v, Ref) and isinstance(st.get(v), DequeData):
            d = st.get(v)
            vis = z3.If(to_int(d.n) <= d.maxlen, to_int(d.n), d.maxlen)
            off = to_int(d.n) - vis
            return st.alloc(ListData(vis, lambda j, d=d, off=off: d.sel(j + off), d.kind))     # a plain list: no window bound
        return base_list(E, st, args, kw, node)
    base_list = L.functions["list"]
    L.functions["list"] = _list

    @L.fn("deque")
    def _deque(E, st, args, kw, node):
        return st.alloc(DequeData(0, lambda j: BOTTOM_F, "f", to_int(kw.get("maxlen"))))

    @L.fn("np.quantile", "np.min", "np.max")
    def _stat(E, st, args, kw, node):
        return fresh("stat", R)       # uninterpreted: thresholds are opaque values
    return L


BOTTOM_F = z3.RealVal(0)


def _ite(c, a, b):
    na, va = to_real(a)
    nb, vb = to_real(b)
    from pyvc.se import mk_fv
    return mk_fv(z3.If(c, na, nb), z3.If(c, va, vb))


class BSym:
    def __init__(self, st):
        self.w = z3.Int("w")
        self.wtol = z3.Real("w_tol")
        self.b = z3.Real("budget")
        self.obs0, self.q0 = z3.Real("observed0"), z3.Real("queried0")
        self.T0 = z3.Int("hist_len0")
        self.h0 = fresh_sel("hist0", "f")
        st.assume(self.T0 >= 0, self.w >= 1)
        self.hist = st.alloc(DequeData(self.T0, self.h0, "f", self.w))
        self.obj = st.alloc(ObjData("BalancedIncrementalQuantileFilter", {
            "w": self.w, "w_tol": self.wtol, "budget": self.b, "budget_": self.b, "observed_samples_": self.obs0,
            "queried_samples_": self.q0, "history_sorted_": self.hist}))
        st.assume(self.obs0 >= 0, self.q0 >= 0)


def unit_biqf_query():
    def setup(E, st):
        sym = BSym(st)
        n = z3.Int("n")
        st.assume(n >= 0)
        u = ArrData((n,), fresh_sel("util", "f"), "f")
        util = st.alloc(u)
        st0 = st.fork()
        fields0 = dict(st.get(sym.obj).fields)
        hist0 = st.get(sym.hist)

        def inv(E, s, k, pre):
            q = s.get(s.env["queried_indices"])
            h = s.get(s.env["tmp_history_sorted_"]) if isinstance(s.env.get("tmp_history_sorted_"), Ref) else None
            j = z3.Int("j")
            out = [("observed", real(s.env["tmp_observed_samples_"]) == sym.obs0 + z3.ToReal(k)),
                   ("queried", real(s.env["tmp_queried_samples_"]) == sym.q0 + z3.ToReal(to_int(q.n)))] + list_sorted_below(q, k)
            out.append(("C10.window_copy_keeps_the_window_bound", z3.BoolVal(isinstance(h, DequeData)) if not isinstance(h, DequeData)
                        else h.maxlen == sym.w))
            if isinstance(h, DequeData):
                out.append(("C10.window_copy_length", to_int(h.n) == sym.T0 + k))
                out.append(("C10.window_copy_old_part", z3.ForAll([j], z3.Implies(z3.And(0 <= j, j < sym.T0), _eq(h.sel(j), hist0.sel(j))))))
                out.append(("C10.window_copy_new_part", z3.ForAll([j], z3.Implies(z3.And(0 <= j, j < k), _eq(h.sel(sym.T0 + j), u.sel(j))))))
            out.append(("C03.window_is_not_the_working_copy", z3.BoolVal(isinstance(s.env.get("tmp_history_sorted_"), Ref)
                                                                       and s.env["tmp_history_sorted_"].id != sym.hist.id)))
            return out
        return {"args": [sym.obj, util], "sym": sym, "fields0": fields0, "st0": st0, "n": n,
                "loop_specs": {"loop0": LoopSpec(inv=inv)}}

    def post(E, ctx, outs):
        sym = ctx["sym"]
        rets = returns(outs)
        if not rets:
            E.oblige("reaches.return", [], z3.BoolVal(False))
        for o in rets:
            q = o.state.get(o.value) if isinstance(o.value, Ref) else None
            if not isinstance(q, ListData):
                E.oblige("returns.list", o.state, False)
                continue
            for nm, g in list_sorted_below(q, ctx["n"]):
                E.oblige("ensures.C10.result." + nm, o.state, g)
            sym._st0 = ctx["st0"]
            for nm, g in frame_goals(ctx["fields0"], ctx["st0"], o.state, sym):
                E.oblige("ensures.C03." + nm, o.state, g)
            hd = o.state.get(sym.hist)
            E.oblige("ensures.C03.window_contents_untouched", o.state, z3.BoolVal(hd is ctx["st0"].get(sym.hist)))
    return se_unit("stream.BalancedIncrementalQuantileFilter.query_by_utility", FQ, "BalancedIncrementalQuantileFilter.query_by_utility",
                   "BalancedIncrementalQuantileFilter", setup, post, inline={"_validate_data", "_validate_budget"}, lib_factory=biqf_lib)


def _eq(a, b):
    na, va = to_real(a)
    nb, vb = to_real(b)
    return z3.And(na == nb, z3.Implies(z3.Not(na), va == vb))


def unit_biqf_update():
    def setup(E, st):
        sym = BSym(st)
        n, nq = z3.Int("n"), z3.Int("n_q")
        st.assume(n >= 0, nq >= 0, nq <= n)
        cand = st.alloc(ArrData((n, z3.Int("d")), fresh_sel("cand", "f", 2), "f"))
        qi = ArrData((nq,), fresh_sel("qidx", "i"), "i")
        t, u2 = z3.Ints("t u2")
        st.assume(z3.ForAll([t], z3.Implies(z3.And(0 <= t, t < nq), z3.And(0 <= qi.sel(t), qi.sel(t) < n))))
        st.assume(z3.ForAll([t, u2], z3.Implies(z3.And(0 <= t, t < u2, u2 < nq), qi.sel(t) < qi.sel(u2))))
        u = ArrData((n,), fresh_sel("util", "f"), "f")
        hist0 = st.get(sym.hist)
        return {"args": [sym.obj, cand, st.alloc(qi), st.alloc(u)], "sym": sym, "n": n, "nq": nq, "u": u, "hist0": hist0}

    def post(E, ctx, outs):
        sym = ctx["sym"]
        rets = returns(outs)
        if not rets:
            E.oblige("reaches.return", [], z3.BoolVal(False))
        for o in raises(outs):
            E.oblige("C10.update_does_not_raise", o.state, z3.BoolVal(False), exc=str(o.value))
        j = z3.Int("j")
        for o in rets:
            f = o.state.get(sym.obj).fields
            E.oblige("ensures.C10.observed_committed", o.state, real(f["observed_samples_"]) == sym.obs0 + z3.ToReal(ctx["n"]))
            E.oblige("ensures.C10.queried_committed", o.state, real(f["queried_samples_"]) == sym.q0 + z3.ToReal(ctx["nq"]))
            h = o.state.get(f["history_sorted_"]) if isinstance(f["history_sorted_"], Ref) else None
            E.oblige("ensures.C10.window_keeps_its_bound", o.state, z3.BoolVal(False) if not isinstance(h, DequeData) else h.maxlen == sym.w)
            if isinstance(h, DequeData):
                E.oblige("ensures.C10.window_length", o.state, to_int(h.n) == sym.T0 + ctx["n"])
                E.oblige("ensures.C10.window_extended_by_the_utilities", o.state,
                         z3.And(z3.ForAll([j], z3.Implies(z3.And(0 <= j, j < sym.T0), _eq(h.sel(j), ctx["hist0"].sel(j)))),
                                z3.ForAll([j], z3.Implies(z3.And(0 <= j, j < ctx["n"]), _eq(h.sel(sym.T0 + j), ctx["u"].sel(j))))))
    return se_unit("stream.BalancedIncrementalQuantileFilter.update", FQ, "BalancedIncrementalQuantileFilter.update",
                   "BalancedIncrementalQuantileFilter", setup, post, inline={"_validate_data", "_validate_budget"}, lib_factory=biqf_lib)


# ------------------------------------------------------------------------------------------ delegations
DELEG = [("skactiveml/stream/_uncertainty_zliobaite.py", "UncertaintyZliobaite", "FixedUncertainty"),
         ("skactiveml/stream/_stream_probabilistic_al.py", "StreamProbabilisticAL", "StreamProbabilisticAL")]


def deleg_lib(ctx):
    L = Lib()

    def qbu(E, st, recv, args, kw, node):
        r = Opaque("manager_result")
        ctx["qbu"].append((args, kw, r, st.get(recv)))
        return r

    def upd(E, st, recv, args, kw, node):
        ctx["upd"].append((args, kw))
        return recv
    L.contracts["__manager__.query_by_utility"] = qbu
    L.contracts["__manager__.update"] = upd

    def validate(E, st, recv, args, kw, node):
        """the strategy's _validate_data returns its (validated) arguments; with fitted attributes present it writes none
        (idempotence is checked on the base class in contracts/stream_baselines.py)"""
        fn = E.repo.resolve_method(st.get(recv).cls, "_validate_data")[1]
        names = [a.arg for a in fn.args.args[1:]]
        a = dict(zip(names, args))
        a.update(kw)
        ret = None
        for x in reversed(fn.body):
            if isinstance(x, __import__("ast").Return):
                ret = x
                break
        out = []
        for elt in ret.value.elts:
            out.append(a.get(elt.id))
        return tuple(out)
    for c in ("UncertaintyZliobaite", "StreamProbabilisticAL", "SingleAnnotatorStreamQueryStrategy"):
        L.contracts[f"{c}._validate_data"] = validate

    @L.fn("call_func")
    def _call_func(E, st, args, kw, node):
        f = args[0]
        from pyvc.se import BoundMethod
        if isinstance(f, BoundMethod) and isinstance(f.recv, Ref):
            return E.call_method(f.recv, f.name, list(args[1:]), {k: v for k, v in kw.items() if k != "**"}, st, node)
        return E.unknown_call("call_func", args, kw, st, node)
    return L


def unit_delegation(file, owner, cls, which):
    ctx = {"qbu": [], "upd": []}

    def setup(E, st):
        ctx["qbu"].clear()
        ctx["upd"].clear()
        mgr = st.alloc(ObjData("__manager__", {"__open__": True}))
        fields = {p: Opaque("param:" + p) for p in E.repo.init_params(cls)}
        fields.update({"budget_manager_": mgr, "random_state_": st.alloc(RngData(fresh_fn("stream", I, R), fresh("pos", I), fresh("aux", I))),
                       "budget_": z3.Real("budget"), "__open__": True})
        if cls == "StreamProbabilisticAL":
            fields["metric"] = None        # the documented default: frequencies from the classifier itself
        selfo = st.alloc(ObjData(cls, fields))
        n = z3.Int("n")
        st.assume(n >= 1)
        cand = st.alloc(ArrData((n, z3.Int("d")), fresh_sel("cand", "o", 2), "o"))
        ctx.update(self=selfo, cand=cand, mgr=mgr, fields0=dict(fields))
        fn = E.repo.func(file, f"{owner}.{which}")
        kwargs = {}
        for a in fn.args.args[1:] + fn.args.kwonlyargs:
            if a.arg == "candidates":
                kwargs[a.arg] = cand
            elif a.arg == "return_utilities":
                kwargs[a.arg] = z3.Bool("return_utilities")
            elif a.arg == "queried_indices":
                ctx["qi"] = Opaque("queried_indices")
                kwargs[a.arg] = ctx["qi"]
            elif a.arg == "budget_manager_param_dict":
                kwargs[a.arg] = None
            else:
                kwargs[a.arg] = Opaque("arg:" + a.arg)
        return {"args": [selfo], "kwargs": kwargs}

    def post(E, c2, outs):
        rets = returns(outs)
        if not rets:
            E.oblige("reaches.return", [], z3.BoolVal(False))
        for o in rets:
            st = o.state
            f = st.get(ctx["self"]).fields
            same = all(f.get(k) is v or (isinstance(v, Ref) and isinstance(f.get(k), Ref) and f[k].id == v.id) for k, v in ctx["fields0"].items())
            if which == "query":
                E.oblige("C03.no_attribute_written_after_validation", st, z3.BoolVal(same and set(f) == set(ctx["fields0"])))
                E.oblige("C03.manager_untouched", st, z3.BoolVal(st.get(ctx["mgr"]) is c2_mgr(ctx, st)))
                E.oblige("C10.manager_consulted_once", st, z3.BoolVal(len(ctx["qbu"]) >= 1))
                if ctx["qbu"]:
                    args, kw, r, _ = ctx["qbu"][-1]
                    val = o.value
                    if isinstance(val, tuple):
                        E.oblige("C10.returns_the_managers_indices_and_the_utilities_it_was_given", st,
                                 z3.BoolVal(val[0] is r and (val[1] is args[0] or (isinstance(val[1], Ref) and isinstance(args[0], Ref) and val[1].id == args[0].id))))
                    else:
                        E.oblige("C10.returns_the_managers_indices", st, z3.BoolVal(val is r))
            else:
                E.oblige("C10.update_delegates_to_the_manager", st, z3.BoolVal(len(ctx["upd"]) >= 1))
                if ctx["upd"]:
                    args, kw = ctx["upd"][-1]
                    c_ok = kw.get("candidates") is ctx["cand"] or (isinstance(kw.get("candidates"), Ref) and kw["candidates"].id == ctx["cand"].id)
                    E.oblige("C10.candidates_and_indices_passed_through_unchanged", st, z3.BoolVal(c_ok and kw.get("queried_indices") is ctx["qi"]))
    return se_unit(f"stream.delegation.{cls}.{which}", file, f"{owner}.{which}", cls, setup, post, lib_factory=lambda: deleg_lib(ctx))


def c2_mgr(ctx, st):
    return st.get(ctx["mgr"])


UNITS = {"BalancedIncrementalQuantileFilter.query_by_utility": unit_biqf_query(),
         "BalancedIncrementalQuantileFilter.update": unit_biqf_update()}
for _f, _o, _c in DELEG:
    for _w in ("query", "update"):
        UNITS[f"delegation.{_c}.{_w}"] = unit_delegation(_f, _o, _c, _w)
