"""Frame / effect contracts checked by the L1 analysis (pyvc/frame.py) on the whole package — C03, C05, C06, C09, C13.

Each unit returns one obligation per (class.method, clause); status 'unsat' = no offending statement exists on any
path of the real AST (discharged by the frame back end), 'sat' = an offending statement was found (location attached).
"""
import ast

from pyvc.unit import get_repo
from pyvc.frame import (Analysis, Flow, is_estimator_class, scalar_params, self_attr, call_name, MODEL_PARAMS, MODEL_MUT,
                        RNG_DRAWS, Site)
from pyvc.repo import unparse

_analysis = None


def analysis():
    global _analysis
    if _analysis is None:
        _analysis = Analysis(get_repo())
    return _analysis


def ob(name, ok, sites=(), goal="", sufficient_only=False):
    """sufficient_only: the obligation is a syntactic SUFFICIENT condition for the property (a recognised idiom); code that no longer
    matches the idiom is not thereby wrong, so a failure is a lost proof ('unknown'), never a counterexample"""
    return {"name": name, "status": "unsat" if ok else ("unknown" if sufficient_only else "sat"), "backend": "frame", "time_s": 0.0,
            "model": None if ok else {"sites": [s.as_dict() if isinstance(s, Site) else s for s in list(sites)[:6]]},
            "goal_text": goal, "meta": {}}


def result(unit, target, obs, kind="L1", lib=()):
    return {"unit": unit, "target": target, "kind": kind, "obligations": obs, "abstracted": [], "dropped": [],
            "lib": list(lib), "paths": len(obs)}


SKIP_METHODS = {"__init__", "set_params", "__setstate__", "get_params", "__sklearn_clone__"}


# ------------------------------------------------------------------------------------------ F1 parameter frame
def f1_sites(A, cls, owner, name):
    repo = A.repo
    P = set(repo.init_params(cls))
    SC = scalar_params(repo, cls)
    is_qs = "QueryStrategy" in repo.mro(cls)
    fl = A.flow_of(cls, owner, name)
    bad = []
    for s in fl.mutations:
        hit = set()
        for o in s.origins:
            if o.startswith("selfattr:") and o[9:] in P:
                hit.add(o)
            if o.startswith("self.") and o[5:] in P and s.kind != "attr-assign":
                p = o[5:]
                if s.kind == "augassign" and p in SC:
                    continue      # immutable scalar: op= rebinds
                if p == "random_state" and not is_qs:
                    continue      # sklearn convention for estimators: random_state_ = check_random_state(random_state)
                hit.add(o)
        if hit:
            bad.append(Site(s.kind, s.file, s.qual, s.line, s.text, hit))
    return bad


def unit_F1(which):
    """which: 'pool' | 'stream' | 'models' | 'all' — classes whose methods are checked"""
    def runner(tier):
        A = analysis()
        repo = A.repo
        obs = []
        for ci in sorted(repo.all_classes(), key=lambda c: (c.file, c.name)):
            if not is_estimator_class(repo, ci.name) or not repo.init_params(ci.name):
                continue
            mro = repo.mro(ci.name)
            grp = "pool" if "PoolQueryStrategy" in mro else "stream" if ("SingleAnnotatorStreamQueryStrategy" in mro or "BudgetManager" in mro) \
                else "models"
            if which != "all" and grp != which:
                continue
            for owner, name, m in A.methods_of(ci.name):
                if name in SKIP_METHODS:
                    continue
                bad = f1_sites(A, ci.name, owner.name, name)
                obs.append(ob(f"F1.{ci.name}.{name}", not bad, bad,
                              f"{ci.name}.{name} assigns / deletes / deep-mutates no constructor parameter {sorted(repo.init_params(ci.name))[:8]}"))
        return result(f"frames.F1.{which}", "skactiveml/**: every method of every estimator class", obs,
                      lib=["alias/copy tables of pyvc/frame.py", "scalar-parameter rule (op= on a validated scalar rebinds)"])
    return runner


# ------------------------------------------------------------------------------------------ F2 / F2' argument and model frame
def pool_query_classes(repo):
    for ci in sorted(repo.all_classes(), key=lambda c: (c.file, c.name)):
        if "PoolQueryStrategy" in repo.mro(ci.name) and ci.name not in ("PoolQueryStrategy", "SingleAnnotatorPoolQueryStrategy",
                                                                         "MultiAnnotatorPoolQueryStrategy"):
            yield ci


def unit_F2(tier):
    A = analysis()
    repo = A.repo
    obs = []
    for ci in pool_query_classes(repo):
        owner, m = repo.resolve_method(ci.name, "query")
        if m is None:
            continue
        fl = A.flow_of(ci.name, owner.name, "query")
        params = [p for p in fl.params]
        arg_bad, model_bad = [], []
        for s in fl.mutations:
            hit = {o for o in s.origins if o.startswith("param:")}
            if not hit:
                continue
            models = {o for o in hit if o[6:] in MODEL_PARAMS}
            if models:
                model_bad.append(Site(s.kind, s.file, s.qual, s.line, s.text, models))
            if hit - models:
                arg_bad.append(Site(s.kind, s.file, s.qual, s.line, s.text, hit - models))
        obs.append(ob(f"F2.{ci.name}.query.arguments", not arg_bad, arg_bad,
                      f"{ci.name}.query mutates no object that may alias one of its arguments {params}"))
        if any(p in MODEL_PARAMS for p in params):
            obs.append(ob(f"F2'.{ci.name}.query.model", not model_bad, model_bad,
                          f"{ci.name}.query calls fit/partial_fit/set_params or stores attributes only on clone()/deepcopy() of its model argument"))
    return result("frames.F2", "skactiveml/pool/**: query of every pool strategy", obs,
                  lib=["alias sources: check_array/asarray/column_or_1d/_validate_data/views; copies: np.array, .copy(), fancy indexing, clone, deepcopy",
                       "bottom-up summaries 'mutates parameter i' of every package function"])


# ------------------------------------------------------------------------------------------ F4 sentinel passing
LABEL_PREDS = {"is_labeled": 1, "is_unlabeled": 1, "labeled_indices": 1, "unlabeled_indices": 1}


def unit_F4(tier):
    repo = get_repo()
    obs = []
    for rel, tree in sorted(repo.modules.items()):
        if rel.endswith("utils/_label.py"):
            continue
        for fn, qual in _functions_in(tree):
            bad = []
            n = 0
            for c in ast.walk(fn):
                if isinstance(c, ast.Call) and call_name(c) in LABEL_PREDS:
                    n += 1
                    has = any(k.arg == "missing_label" for k in c.keywords) or len(c.args) >= 2 or any(k.arg is None for k in c.keywords)
                    if not has:
                        bad.append({"file": rel, "line": c.lineno, "text": unparse(c)[:100], "qualname": qual, "kind": "sentinel-omitted",
                                    "origins": []})
            if n:
                obs.append(ob(f"F4.{rel.replace('skactiveml/', '')}::{qual}", not bad, bad,
                              "every call of is_labeled/is_unlabeled/labeled_indices/unlabeled_indices passes missing_label"))
    return result("frames.F4", "skactiveml/**: label predicate call sites", obs)


def _functions_in(tree):
    for n in tree.body:
        if isinstance(n, ast.FunctionDef):
            yield n, n.name
        elif isinstance(n, ast.ClassDef):
            for m in n.body:
                if isinstance(m, ast.FunctionDef):
                    yield m, f"{n.name}.{m.name}"


# ------------------------------------------------------------------------------------------ F3 RNG provenance
STOCHASTIC_SKLEARN = {"KMeans", "MiniBatchKMeans", "GaussianMixture", "BayesianGaussianMixture", "train_test_split", "shuffle",
                      "resample", "BisectingKMeans", "SpectralClustering", "RandomForestClassifier", "RandomForestRegressor",
                      "SGDClassifier", "MLPClassifier", "MLPRegressor", "KFold", "StratifiedKFold", "MDS", "PCA", "TruncatedSVD"}
GOOD_RS_NAMES = {"random_state", "random_state_", "seed", "random_seed", "rng"}


def rs_expr_ok(e, in_strategy=False):
    """the expression handed over as random_state stems from the object's own generator / the function's parameter.
    in_strategy: inside a method of a query strategy the RAW constructor argument self.random_state must not reach a drawing callee
    (with a RandomState instance the caller's generator would be drawn from / aliased); self.random_state_ or a derived copy must be used"""
    if isinstance(e, ast.Constant):
        return e.value is not None and isinstance(e.value, int)
    if isinstance(e, ast.Name):
        return e.id in GOOD_RS_NAMES or e.id.startswith("random_state") or e.id.endswith("seed")
    if isinstance(e, ast.Attribute):
        if in_strategy and e.attr == "random_state" and isinstance(e.value, ast.Name) and e.value.id == "self":
            return False
        return e.attr in ("random_state", "random_state_")
    if isinstance(e, ast.Call):
        nm = call_name(e)
        if nm == "check_random_state" and len(e.args) + len(e.keywords) >= 2:
            return bool(e.args) and rs_expr_ok(e.args[0])         # check_random_state(rs, multiplier) derives a private copy
        if nm in ("deepcopy", "copy"):
            return bool(e.args) and rs_expr_ok(e.args[0])
        if nm in ("check_random_state",):
            return bool(e.args) and rs_expr_ok(e.args[0], in_strategy)
        if nm in ("randint", "integers"):
            return True
        return False
    if isinstance(e, ast.Subscript):
        return rs_expr_ok(e.value)
    if isinstance(e, ast.IfExp):
        return rs_expr_ok(e.body) and rs_expr_ok(e.orelse)
    if isinstance(e, ast.BinOp):
        return rs_expr_ok(e.left) or rs_expr_ok(e.right)
    return False


def unit_F3(tier):
    repo = get_repo()
    # package callables with a random_state parameter
    rs_funcs, rs_classes = {}, {}
    for (rel, name), fn in repo.functions.items():
        names = [a.arg for a in fn.args.posonlyargs + fn.args.args + fn.args.kwonlyargs]
        if "random_state" in names:
            rs_funcs[name] = names
    for ci in repo.all_classes():
        if "random_state" in repo.init_params(ci.name):
            rs_classes[ci.name] = ["self"] + repo.init_params(ci.name)
    obs = []
    for rel, tree in sorted(repo.modules.items()):
        for fn, qual in _functions_in(tree):
            glob, missing, n = [], [], 0
            # names bound to objects constructed in this function, and the stochastic methods called on them
            for c in ast.walk(fn):
                if not isinstance(c, ast.Call):
                    continue
                f = c.func
                # F3a: module-level generator
                if isinstance(f, ast.Attribute) and isinstance(f.value, ast.Attribute) and unparse(f.value) in ("np.random", "numpy.random") \
                        and f.attr not in ("RandomState", "default_rng", "Generator", "get_state", "set_state"):
                    n += 1
                    glob.append({"file": rel, "line": c.lineno, "text": unparse(c)[:100], "qualname": qual, "kind": "global-generator", "origins": []})
                    continue
                if isinstance(f, ast.Attribute) and isinstance(f.value, ast.Name) and f.value.id == "random":
                    n += 1
                    glob.append({"file": rel, "line": c.lineno, "text": unparse(c)[:100], "qualname": qual, "kind": "global-generator", "origins": []})
                    continue
                nm = call_name(c)
                if nm in rs_funcs or nm in rs_classes or nm in STOCHASTIC_SKLEARN:
                    if isinstance(f, ast.Attribute) and nm in rs_funcs and not (isinstance(f.value, ast.Name) and f.value.id in ("self",)) \
                            and nm not in repo.func_by_name:
                        continue
                    if isinstance(f, ast.Attribute) and isinstance(f.value, ast.Call) and call_name(f.value) == "super":
                        pass
                    n += 1
                    names = rs_funcs.get(nm) or rs_classes.get(nm)
                    val = None
                    for k in c.keywords:
                        if k.arg == "random_state":
                            val = k.value
                    starstar = [k.value for k in c.keywords if k.arg is None]
                    if val is None and names:
                        pos = [x for x in names if x != "self"]
                        i = pos.index("random_state")
                        if i < len(c.args) and not any(isinstance(a, ast.Starred) for a in c.args):
                            val = c.args[i]
                    if val is None and starstar:
                        # forwarded through **kwargs: the dict must be given a 'random_state' entry in this function,
                        # or be the function's own **kwargs (then the caller's call site carries the obligation)
                        if _dict_gets_random_state(fn, starstar):
                            continue
                        if fn.args.kwarg is not None and any(isinstance(d, ast.Name) and d.id == fn.args.kwarg.arg for d in starstar):
                            continue
                        # classes built from user supplied kwargs only (wrappers) are exempt when no default is involved
                        if nm in rs_classes and nm not in STOCHASTIC_SKLEARN:
                            continue
                    if nm in rs_classes and val is None and not _stochastic_use(fn, c, _stochastic_methods(repo, nm, rs_funcs)):
                        continue     # constructed package estimator none of whose drawing methods is used here
                    cls_of_fn = qual.split(".")[0] if "." in qual else None
                    in_strat = bool(cls_of_fn) and repo.has_cls(cls_of_fn) and "QueryStrategy" in repo.mro(cls_of_fn) \
                        and qual.split(".")[-1] not in ("__init__",)
                    if nm == "check_random_state":
                        in_strat = False          # the validation helper itself receives the raw argument (and copies it for a multiplier)
                    if val is None or not rs_expr_ok(val, in_strat):
                        missing.append({"file": rel, "line": c.lineno, "qualname": qual, "kind": "random_state-not-forwarded",
                                        "text": unparse(c)[:100], "origins": [unparse(val) if val is not None else "<omitted>"]})
            if n:
                obs.append(ob(f"F3.{rel.replace('skactiveml/', '')}::{qual}", not (glob or missing), glob + missing,
                              "no use of the process-global generator; every stochastic callee receives a random_state derived from the object's / caller's own"))
    # F3c: estimator classes passed in as parameters with a stochastic default (cluster_algo=KMeans)
    for ci in sorted(repo.all_classes(), key=lambda c: c.name):
        m = ci.methods.get("__init__")
        if m is None:
            continue
        args = m.args.args[1:]
        for a, d in zip(args[len(args) - len(m.args.defaults):], m.args.defaults):
            if isinstance(d, ast.Name) and d.id in STOCHASTIC_SKLEARN:
                # every construction self.<a>(**dict) must put random_state into the kwargs
                bad = []
                for name, meth in ci.methods.items():
                    for c in ast.walk(meth):
                        if isinstance(c, ast.Call) and self_attr(c.func) == a.arg:
                            ss = [k.value for k in c.keywords if k.arg is None]
                            if any(k.arg == "random_state" for k in c.keywords) or _dict_gets_random_state(meth, ss):
                                continue
                            bad.append({"file": ci.file, "line": c.lineno, "qualname": f"{ci.name}.{name}", "kind": "default-stochastic-class-unseeded",
                                        "text": unparse(c)[:100], "origins": [d.id]})
                obs.append(ob(f"F3c.{ci.name}.{a.arg}", not bad, bad,
                              f"{ci.name} builds its default {d.id} with a random_state derived from its own"))
    return result("frames.F3", "skactiveml/**: stochastic call sites", obs,
                  lib=["list of stochastic scikit-learn classes (STOCHASTIC_SKLEARN)"])


def _dict_gets_random_state(fn, dict_exprs):
    names = {unparse(d) for d in dict_exprs}
    for x in ast.walk(fn):
        if isinstance(x, ast.Assign):
            for t in x.targets:
                if isinstance(t, ast.Subscript) and unparse(t.value) in names and isinstance(t.slice, ast.Constant) \
                        and t.slice.value == "random_state":
                    return True
            if isinstance(x.value, ast.Dict) and any(unparse(t) in names for t in x.targets):
                if any(isinstance(k, ast.Constant) and k.value == "random_state" for k in x.value.keys):
                    return True
        if isinstance(x, ast.Call) and call_name(x) in ("setdefault", "update") and isinstance(x.func, ast.Attribute) \
                and unparse(x.func.value) in names:
            if any(isinstance(a, ast.Constant) and a.value == "random_state" for a in x.args):
                return True
            if any(k.arg == "random_state" for k in x.keywords):
                return True
    return False


_stoch_cache = {}


def _stochastic_methods(repo, cls, rs_funcs):
    """methods of a package class that (transitively through self.m()) draw random numbers: they call a generator
    method or a package function that takes a random_state"""
    if cls in _stoch_cache:
        return _stoch_cache[cls]
    direct = {}
    calls = {}
    for c in repo.mro(cls):
        for name, m in repo.cls(c).methods.items():
            if name in direct:
                continue
            d = False
            cs = set()
            for x in ast.walk(m):
                if isinstance(x, ast.Call):
                    nm = call_name(x)
                    if nm in rs_funcs or (isinstance(x.func, ast.Attribute) and nm in RNG_DRAWS and "random_state" in unparse(x.func.value)):
                        d = True
                    if isinstance(x.func, ast.Attribute) and isinstance(x.func.value, ast.Name) and x.func.value.id == "self":
                        cs.add(nm)
            direct[name], calls[name] = d, cs
    changed = True
    while changed:
        changed = False
        for n in direct:
            if not direct[n] and any(direct.get(c) for c in calls[n]):
                direct[n] = True
                changed = True
    _stoch_cache[cls] = {n for n, d in direct.items() if d and not n.startswith("__")}
    return _stoch_cache[cls]


def _stochastic_use(fn, ctor_call, STOCH_METHODS):
    """is a drawing method called on the object constructed by ctor_call inside fn?"""
    target = None
    for x in ast.walk(fn):
        if isinstance(x, ast.Assign) and x.value is ctor_call and isinstance(x.targets[0], ast.Name):
            target = x.targets[0].id
        if isinstance(x, ast.Call) and isinstance(x.func, ast.Attribute) and x.func.value is ctor_call and x.func.attr in STOCH_METHODS:
            return True
    if target is None:
        return True      # handed on / returned: be conservative
    for x in ast.walk(fn):
        if isinstance(x, ast.Call) and isinstance(x.func, ast.Attribute) and isinstance(x.func.value, ast.Name) \
                and x.func.value.id == target and x.func.attr in STOCH_METHODS:
            return True
    return False


# ------------------------------------------------------------------------------------------ R restore pattern (C03)
def stream_query_methods(repo):
    for ci in sorted(repo.all_classes(), key=lambda c: (c.file, c.name)):
        mro = repo.mro(ci.name)
        if "SingleAnnotatorStreamQueryStrategy" in mro and "query" in ci.methods and not _abstract(ci.methods["query"]):
            yield ci, "query"
        if "BudgetManager" in mro and "query_by_utility" in ci.methods and not _abstract(ci.methods["query_by_utility"]):
            yield ci, "query_by_utility"


def _abstract(fn):
    return any(unparse(d).endswith("abstractmethod") for d in fn.decorator_list)


MUT_ON_ATTR = {"append", "extend", "pop", "clear", "insert", "remove", "update", "sort", "popleft", "appendleft", "fill", "resize",
               "setdefault", "popitem", "add", "discard"} | RNG_DRAWS


def writes_of(A, cls, meth_node, owner, seen=None):
    """self attributes a method may assign or mutate, transitively through self.m() / super().m()"""
    seen = seen if seen is not None else set()
    repo = A.repo
    W = {}

    def add(a, how, line):
        W.setdefault(a, []).append((how, line))
    for n in ast.walk(meth_node):
        tg = []
        if isinstance(n, ast.Assign):
            tg = n.targets
        elif isinstance(n, (ast.AugAssign, ast.AnnAssign)):
            tg = [n.target]
        elif isinstance(n, ast.Delete):
            tg = n.targets
        for t in tg:
            for x in (t.elts if isinstance(t, (ast.Tuple, ast.List)) else [t]):
                a = self_attr(x)
                if a:
                    add(a, "assign", n.lineno)
                base = x
                while isinstance(base, ast.Subscript):
                    base = base.value
                if base is not x and self_attr(base):
                    add(self_attr(base), "item-store", n.lineno)
        if isinstance(n, ast.Call) and isinstance(n.func, ast.Attribute):
            a = self_attr(n.func.value)
            if a and n.func.attr in MUT_ON_ATTR:
                add(a, "call:" + n.func.attr, n.lineno)
            callee = None
            if isinstance(n.func.value, ast.Name) and n.func.value.id == "self":
                callee = repo.resolve_method(cls, n.func.attr)
            elif isinstance(n.func.value, ast.Call) and call_name(n.func.value) == "super":
                callee = repo.resolve_method(cls, n.func.attr, after=owner)
            if callee and callee[1] is not None:
                key = (callee[0].name, n.func.attr)
                if key not in seen:
                    seen.add(key)
                    for a2, lst in writes_of(A, cls, callee[1], callee[0].name, seen).items():
                        for how, line in lst:
                            add(a2, f"via {key[0]}.{key[1]}:{how}", n.lineno)
    return W


def unit_R(tier):
    """after the validation prologue, a stream query restores whatever it writes"""
    A = analysis()
    repo = A.repo
    obs = []
    for ci, name in stream_query_methods(repo):
        fn = ci.methods[name]
        body = fn.body
        # validation prologue = leading statements up to and including the first statement that calls *_validate_data
        idx = -1
        for i, s in enumerate(body):
            if any(isinstance(x, ast.Call) and isinstance(x.func, ast.Attribute) and x.func.attr == "_validate_data" for x in ast.walk(s)):
                idx = i
                break
        rest = ast.Module(body=body[idx + 1:], type_ignores=[])
        W = writes_of(A, ci.name, rest, ci.name)
        # saves: local = copy(self.a) | deepcopy(self.a) | self.rs.get_state()
        saved, rng_saved = {}, {}
        first_write_line = {a: min(l for _, l in lst) for a, lst in W.items()}
        for n in ast.walk(rest):
            if isinstance(n, ast.Assign) and len(n.targets) == 1 and isinstance(n.targets[0], ast.Name):
                v = n.value
                if isinstance(v, ast.Call) and call_name(v) in ("copy", "deepcopy") and v.args and self_attr(v.args[0]):
                    saved[n.targets[0].id] = (self_attr(v.args[0]), n.lineno)
                if isinstance(v, ast.Call) and isinstance(v.func, ast.Attribute) and v.func.attr == "get_state" and self_attr(v.func.value):
                    rng_saved[n.targets[0].id] = (self_attr(v.func.value), n.lineno)
                if self_attr(v) and not isinstance(v, ast.Call):
                    # tmp = self.a : a plain alias is only a valid save for immutable values (numbers); recorded as 'alias'
                    saved.setdefault(n.targets[0].id, (self_attr(v), n.lineno, "alias"))
        restored = {}
        returns = [n for n in ast.walk(rest) if isinstance(n, ast.Return)]
        last_line = max([r.lineno for r in returns] or [0])
        for n in ast.walk(rest):
            if isinstance(n, ast.Assign) and len(n.targets) == 1 and self_attr(n.targets[0]) and isinstance(n.value, ast.Name):
                a = self_attr(n.targets[0])
                sv = saved.get(n.value.id)
                if sv and sv[0] == a:
                    restored[a] = (n.lineno, sv)
            if isinstance(n, ast.Call) and isinstance(n.func, ast.Attribute) and n.func.attr == "set_state" and self_attr(n.func.value) \
                    and n.args and isinstance(n.args[0], ast.Name):
                a = self_attr(n.func.value)
                sv = rng_saved.get(n.args[0].id)
                if sv and sv[0] == a:
                    restored[a] = (n.lineno, sv)
        bad = []
        for a, lst in sorted(W.items()):
            hows = {h for h, _ in lst}
            real_writes = [(h, l) for h, l in lst if not (h == "assign" and a in restored and l == restored[a][0])
                           and not (h == "call:set_state" and a in restored and l == restored[a][0])]
            if not real_writes:
                continue
            if a not in restored:
                bad.append({"file": ci.file, "line": real_writes[0][1], "qualname": f"{ci.name}.{name}", "kind": "write-not-restored",
                            "text": f"self.{a}: {sorted(hows)}", "origins": [a]})
                continue
            rline, sv = restored[a]
            save_line = sv[1]
            if save_line > min(l for _, l in real_writes):
                bad.append({"file": ci.file, "line": save_line, "qualname": f"{ci.name}.{name}", "kind": "saved-after-first-write",
                            "text": f"self.{a}", "origins": [a]})
            if len(sv) > 2 and sv[2] == "alias" and any(h != "assign" for h, _ in real_writes):
                bad.append({"file": ci.file, "line": save_line, "qualname": f"{ci.name}.{name}", "kind": "alias-is-not-a-copy",
                            "text": f"self.{a} saved by alias but mutated in place", "origins": [a]})
            if rline < max(l for _, l in real_writes):
                bad.append({"file": ci.file, "line": rline, "qualname": f"{ci.name}.{name}", "kind": "write-after-restore",
                            "text": f"self.{a}", "origins": [a]})
            # the restore must lie on every normal path: not nested inside an if/for/try
            if not _top_level(rest, rline):
                bad.append({"file": ci.file, "line": rline, "qualname": f"{ci.name}.{name}", "kind": "restore-is-conditional",
                            "text": f"self.{a}", "origins": [a]})
            # the saved local must not be mutated or rebound between save and restore
            tmpname = next((k for k, v in list(saved.items()) + list(rng_saved.items()) if v[0] == a and v[1] == save_line), None)
            if tmpname and _name_touched(rest, tmpname, save_line, rline):
                bad.append({"file": ci.file, "line": save_line, "qualname": f"{ci.name}.{name}", "kind": "saved-copy-modified",
                            "text": tmpname, "origins": [a]})
        # early returns before the restores
        for r in returns:
            for a, (rline, sv) in restored.items():
                if r.lineno < rline and any(l < r.lineno for _, l in W.get(a, [])):
                    bad.append({"file": ci.file, "line": r.lineno, "qualname": f"{ci.name}.{name}", "kind": "return-before-restore",
                                "text": f"self.{a}", "origins": [a]})
        # calls on the nested budget manager: only the non-mutating query_by_utility
        for n in ast.walk(rest):
            if isinstance(n, ast.Call) and isinstance(n.func, ast.Attribute) and self_attr(n.func.value) == "budget_manager_" \
                    and n.func.attr != "query_by_utility":
                bad.append({"file": ci.file, "line": n.lineno, "qualname": f"{ci.name}.{name}", "kind": "mutating-call-on-budget-manager",
                            "text": unparse(n)[:80], "origins": ["budget_manager_"]})
        obs.append(ob(f"R.{ci.name}.{name}", not bad, bad,
                      f"after validation, {ci.name}.{name} leaves every attribute as it found it (writes: {sorted(W)}; restored: {sorted(restored)})",
                      sufficient_only=True))
    return result("frames.R", "skactiveml/stream/**: query / query_by_utility", obs,
                  lib=["restore idioms: tmp = copy(self.a) ... self.a = tmp; s = rng.get_state() ... rng.set_state(s)"])


def _top_level(mod, line):
    for s in mod.body:
        if getattr(s, "lineno", -1) <= line <= getattr(s, "end_lineno", -1):
            return isinstance(s, (ast.Assign, ast.Expr))
    return False


def _name_touched(mod, name, lo, hi):
    for n in ast.walk(mod):
        ln = getattr(n, "lineno", None)
        if ln is None or not (lo < ln < hi):
            continue
        if isinstance(n, ast.Name) and n.id == name and isinstance(n.ctx, ast.Store):
            return True
        if isinstance(n, ast.Call) and isinstance(n.func, ast.Attribute) and isinstance(n.func.value, ast.Name) \
                and n.func.value.id == name and n.func.attr in MUT_ON_ATTR:
            return True
        if isinstance(n, ast.Subscript) and isinstance(n.ctx, ast.Store) and isinstance(n.value, ast.Name) and n.value.id == name:
            return True
    return False


UNITS = {
    "F1.pool": unit_F1("pool"), "F1.stream": unit_F1("stream"), "F1.models": unit_F1("models"),
    "F2": unit_F2, "F3": unit_F3, "F4": unit_F4, "R": unit_R,
}


# ------------------------------------------------------------------------------------------ F2 for models (C12 / C13)
MODEL_METHODS = ("fit", "partial_fit", "_fit", "predict", "predict_proba", "predict_freq", "predict_target_distribution", "sample_y",
                 "sample_proba", "score", "predict_annotator_perf")


def unit_F2_models(tier):
    """fit / predict of every classifier and regressor mutate no alias of a caller argument (X, y, sample_weight, ...)"""
    A = analysis()
    repo = A.repo
    obs = []
    for ci in sorted(repo.all_classes(), key=lambda c: (c.file, c.name)):
        mro = repo.mro(ci.name)
        if not ("SkactivemlClassifier" in mro or "SkactivemlRegressor" in mro):
            continue
        for owner, name, m in A.methods_of(ci.name):
            if name not in MODEL_METHODS:
                continue
            fl = A.flow_of(ci.name, owner.name, name)
            bad = []
            for s in fl.mutations:
                hit = {o for o in s.origins if o.startswith("param:") and o[6:] not in ("fit_kwargs", "predict_kwargs", "kwargs", "predict_proba_kwargs",
                                                                                           "sample_kwargs", "check_X_dict", "check_y_dict", "random_state")}
                if hit:
                    bad.append(Site(s.kind, s.file, s.qual, s.line, s.text, hit))
            obs.append(ob(f"F2m.{ci.name}.{name}", not bad, bad, f"{ci.name}.{name} mutates no object that may alias one of its array arguments"))
    # utility functions reached with caller-owned arrays
    for qual in ("compute_vote_vectors@skactiveml/utils/_aggregation.py", "majority_vote@skactiveml/utils/_aggregation.py",
                 "ext_confusion_matrix@skactiveml/utils/_multi_annot.py"):
        s = A.summaries.get(qual)
        if s is not None:
            bad = sorted(s.mutates - {"random_state"})
            obs.append(ob(f"F2m.{qual.split('@')[0]}", not bad, [{"file": s.file, "line": 0, "qualname": s.qual, "kind": "mutates-parameter",
                                                                "text": str(bad), "origins": bad}],
                          f"{qual.split('@')[0]} mutates none of its array parameters (works on copies)"))
    return result("frames.F2m", "classifier / regressor methods and aggregation utilities", obs)


UNITS["F2m"] = unit_F2_models


# ------------------------------------------------------------------------------------------ F8 dependency frame (C08)
# strategies whose query legitimately looks at the raw `candidates` again after _transform_candidates (they get a dedicated
# treatment in the bounded stand-in of C08); every other strategy must be a function of (X_cand, mapping) only
F8_ALLOW = {"Badge", "ExpectedErrorReduction", "MonteCarloEER", "ValueOfInformationEER", "SubSamplingWrapper", "ParallelUtilityEstimationWrapper"}


def unit_F8(tier):
    repo = get_repo()
    obs = []
    for ci in pool_query_classes(repo):
        if "query" not in ci.methods or "SingleAnnotatorPoolQueryStrategy" not in repo.mro(ci.name):
            continue
        fn = ci.methods["query"]
        idx = None
        for i, s in enumerate(fn.body):
            if any(isinstance(x, ast.Call) and isinstance(x.func, ast.Attribute) and x.func.attr == "_transform_candidates" for x in ast.walk(s)):
                idx = i
                break
        if idx is None:
            continue
        bad = []
        for s in fn.body[idx + 1:]:
            for x in ast.walk(s):
                if isinstance(x, ast.Name) and x.id == "candidates" and isinstance(x.ctx, ast.Load):
                    bad.append({"file": ci.file, "line": x.lineno, "qualname": f"{ci.name}.query", "kind": "reads-raw-candidates",
                                "text": unparse(s)[:80], "origins": ["candidates"]})
        if ci.name in F8_ALLOW:
            continue
        obs.append(ob(f"F8.{ci.name}.query", not bad, bad,
                      f"after _validate_data/_transform_candidates, {ci.name}.query does not read the raw `candidates` again "
                      "(so None and the unlabeled indices, which yield equal (X_cand, mapping, batch size, generator), give equal results)"))
    return result("frames.F8", "skactiveml/pool/**: query of every single-annotator pool strategy", obs)


UNITS["F8"] = unit_F8
