"""Contracts for the baseline stream strategies skactiveml/stream/_stream_baselines.py — C03, C04, C10.

State of a baseline: observed_samples_ (N), queried_samples_ (G), random_state_.
Object invariant (C04):  PeriodicSampling, StreamRandomSampling(allow_exceeding_budget=False):  G <= budget_*N
query : loop invariant  tmp_observed = N + k,  tmp_queried = G + gq(k),  tmp_queried <= budget_*tmp_observed  (every prefix),
        gq(j+1) = gq(j) + [queried[j]]  (ghost count of grants, defined by unfolding); result = ascending positions of
        the grants (C10); fields and RNG position unchanged at return (C03); the utilities are the uniform draws at
        positions pos..pos+n-1 (C10: exactly what update consumes).
update: observed' = N + n, queried' = G + |queried_indices|, RNG advanced by exactly n uniform draws (C10); Inv' (C04).
Trusted lemma (run-time cross-checked): len(np.where(mask)[0]) equals the count defined by unfolding over mask.
"""
import z3

from pyvc.se import (State, ArrData, ListData, ObjData, RngData, Opaque, Ref, LoopSpec, Engine, fresh, fresh_fn, fresh_sel,
                     to_real, to_int, I, R, B, is_z3, Unsupported, z3bool)
from pyvc.unit import se_unit, returns, raises, get_repo
from .stream_budget import stream_lib, frame_goals, real

F = "skactiveml/stream/_stream_baselines.py"
INLINE = {"_validate_data", "_validate_budget", "_validate_random_state", "check_n_features"}
CLASSES = ["StreamRandomSampling", "PeriodicSampling"]


class Sym:
    def __init__(self, st, cls, fitted=True):
        self.cls = cls
        self.b = z3.Real("budget")
        self.allow = z3.Bool("allow_exceeding_budget")
        self.obs0, self.q0 = z3.Real("observed0"), z3.Real("queried0")
        self.stream = z3.Function("rng_stream", I, R)
        self.pos0, self.aux0 = z3.Int("rng_pos0"), z3.Int("rng_aux0")
        self.d = z3.Int("d")
        fields = {"budget": self.b, "random_state": Opaque("random_state")}
        if cls == "StreamRandomSampling":
            fields["allow_exceeding_budget"] = self.allow
        if fitted:
            self.rng = st.alloc(RngData(self.stream, self.pos0, self.aux0))
            fields.update({"observed_samples_": self.obs0, "queried_samples_": self.q0, "random_state_": self.rng,
                           "budget_": self.b, "n_features_in_": self.d})
        self.obj = st.alloc(ObjData(cls, fields))
        self.enforcing = (cls == "PeriodicSampling")

    def enforce(self):
        """the configuration in which the class enforces the budget"""
        return z3.BoolVal(True) if self.cls == "PeriodicSampling" else z3.Not(self.allow)

    def requires(self, st):
        st.assume(self.obs0 >= 0, self.q0 >= 0, self.d >= 1)
        st.assume(z3.Implies(self.enforce(), self.q0 <= self.b * self.obs0))


def fields(st, sym):
    return st.get(sym.obj).fields


def unit_query(cls):
    def setup(E, st):
        sym = Sym(st, cls)
        n = z3.Int("n")
        st.assume(n >= 1)      # check_array rejects an empty candidate chunk
        cand = st.alloc(ArrData((n, sym.d), fresh_sel("cand", "f", 2), "f"))
        ru = z3.Bool("return_utilities")
        sym.requires(st)
        sym.n = n
        st0 = st.fork()
        fields0 = dict(fields(st, sym))
        gq = z3.Function("gq", I, I)
        st.assume(gq(0) == 0)

        def granted(s, j):
            return z3bool(s.get(s.env["queried"]).sel(j))

        def inv(E, s, k, pre):
            j = z3.Int("j")
            tq, to = real(s.env["tmp_queried_samples"]), real(s.env["tmp_observed_samples"])
            return [("observed", to == sym.obs0 + z3.ToReal(k)),
                    ("queried", tq == sym.q0 + z3.ToReal(gq(k))),
                    ("gq_range", z3.And(gq(k) >= 0, gq(k) <= k)),
                    ("gq_def", z3.ForAll([j], z3.Implies(z3.And(0 <= j, j < k), gq(j + 1) == gq(j) + z3.If(granted(s, j), 1, 0)))),
                    ("C04.prefix_bound", z3.Implies(sym.enforce(), tq <= sym.b * to))]

        def end_assume(E, head, end, k):
            end.assume(gq(k + 1) == gq(k) + z3.If(granted(end, k), 1, 0))     # ghost definition by unfolding

        def step(E, head, end, k):
            # C04: a grant in an enforcing configuration happens only when the budget guard held in the head state
            tq, to = real(head.env["tmp_queried_samples"]), real(head.env["tmp_observed_samples"])
            avail = (to + 1) * sym.b - tq
            return [("grant_only_with_budget", z3.Implies(z3.And(sym.enforce(), granted(end, k)), avail >= 1)),
                    ("writes_only_position_k", z3.BoolVal(True))]
        return {"args": [sym.obj, cand, ru], "sym": sym, "fields0": fields0, "st0": st0, "gq": gq,
                "loop_specs": {"loop0": LoopSpec(inv=inv, step=step, end_assume=end_assume)}}

    def post(E, ctx, outs):
        sym, gq = ctx["sym"], ctx["gq"]
        rets = returns(outs)
        if not rets:
            E.oblige("reaches.return", [], z3.BoolVal(False))
        if "loop0" not in E.reached:
            E.oblige("loop.reached", [], z3.BoolVal(False))
        for o in rets:
            st = o.state
            val = o.value
            util = None
            if isinstance(val, tuple):
                val, util = val
            qa = st.get(val) if isinstance(val, Ref) else None
            if not isinstance(qa, ArrData) or not hasattr(qa, "filter_of"):
                E.oblige("returns.where_of_mask", st, False)
                continue
            mask, pos, m, _inv = qa.filter_of
            st.assume(m == gq(sym.n))      # trusted lemma: len(np.where(mask)[0]) = count of True by unfolding
            j = z3.Int("j")
            E.oblige("ensures.C10.result.range", st, z3.ForAll([j], z3.Implies(z3.And(0 <= j, j < m),
                                                                                z3.And(0 <= to_int(qa.sel(j)), to_int(qa.sel(j)) < sym.n))))
            E.oblige("ensures.C10.result.sorted", st, z3.ForAll([j], z3.Implies(z3.And(0 <= j, j < m - 1),
                                                                                 to_int(qa.sel(j)) < to_int(qa.sel(j + 1)))))
            E.oblige("ensures.C04.bound", st, z3.Implies(sym.enforce(), sym.q0 + z3.ToReal(m) <= sym.b * (sym.obs0 + z3.ToReal(sym.n))))
            if util is not None:
                ua = st.get(util) if isinstance(util, Ref) else None
                E.oblige("ensures.C10.utilities.one_per_candidate", st,
                         z3.BoolVal(isinstance(ua, ArrData) and ua.ndim == 1) if not isinstance(ua, ArrData) else to_int(ua.shape[0]) == sym.n)
                if cls == "StreamRandomSampling" and isinstance(ua, ArrData):
                    E.oblige("ensures.C10.utilities.are_draws_pos..pos+n", st,
                             z3.ForAll([j], z3.Implies(z3.And(0 <= j, j < sym.n), real(ua.sel(j)) == sym.stream(sym.pos0 + j))))
            for nm, g in frame_goals(ctx["fields0"], ctx["st0"], st, sym):
                E.oblige("ensures.C03." + nm, st, g)
    return se_unit(f"baseline.{cls}.query", F, f"{cls}.query", cls, setup, post, inline=INLINE, lib_factory=stream_lib)


def unit_update(cls):
    def setup(E, st):
        sym = Sym(st, cls)
        n, nq = z3.Int("n"), z3.Int("n_q")
        st.assume(n >= 0, nq >= 0, nq <= n)
        cand = st.alloc(ArrData((n, sym.d), fresh_sel("cand", "f", 2), "f"))
        qi = ArrData((nq,), fresh_sel("qidx", "i"), "i")
        qref = st.alloc(qi)
        j, t = z3.Ints("j t")
        # requires: what query ensures about its result (strictly increasing, in range, and within the budget)
        st.assume(z3.ForAll([j], z3.Implies(z3.And(0 <= j, j < nq), z3.And(0 <= qi.sel(j), qi.sel(j) < n))))
        st.assume(z3.ForAll([j, t], z3.Implies(z3.And(0 <= j, j < t, t < nq), qi.sel(j) < qi.sel(t))))
        sym.requires(st)
        st.assume(z3.Implies(sym.enforce(), sym.q0 + z3.ToReal(nq) <= sym.b * (sym.obs0 + z3.ToReal(n))))
        sym.n, sym.nq = n, nq
        return {"args": [sym.obj, cand, qref], "sym": sym}

    def post(E, ctx, outs):
        sym = ctx["sym"]
        rets = returns(outs)
        if not rets:
            E.oblige("reaches.return", [], z3.BoolVal(False))
        for o in raises(outs):
            E.oblige("C10.update_does_not_raise", o.state, z3.BoolVal(False), exc=str(o.value))
        for o in rets:
            f = fields(o.state, sym)
            obs, q = real(f["observed_samples_"]), real(f["queried_samples_"])
            rng = o.state.get(f["random_state_"])
            E.oblige("ensures.C10.observed_committed", o.state, obs == sym.obs0 + z3.ToReal(sym.n))
            E.oblige("ensures.C10.queried_committed", o.state, q == sym.q0 + z3.ToReal(sym.nq))
            if cls == "StreamRandomSampling":
                E.oblige("ensures.C10.rng_advanced_by_n", o.state, z3.And(rng.pos == sym.pos0 + sym.n, rng.aux == sym.aux0))
            else:
                E.oblige("ensures.C10.rng_untouched", o.state, z3.And(rng.pos == sym.pos0, rng.aux == sym.aux0))
            E.oblige("ensures.C04.Inv", o.state, z3.Implies(sym.enforce(), q <= sym.b * obs))
    return se_unit(f"baseline.{cls}.update", F, f"{cls}.update", cls, setup, post, inline=INLINE, lib_factory=stream_lib)


def unit_validate(cls):
    def setup(E, st):
        sym = Sym(st, cls, fitted=False)
        n = z3.Int("n")
        st.assume(n >= 1, sym.d >= 1)
        cand = st.alloc(ArrData((n, sym.d), fresh_sel("cand", "f", 2), "f"))
        return {"args": [sym.obj, cand, z3.Bool("return_utilities")], "sym": sym}

    def post(E, ctx, outs):
        sym = ctx["sym"]
        rets = returns(outs)
        if not rets:
            E.oblige("reaches.return", [], z3.BoolVal(False))
        for o in rets:
            f = fields(o.state, sym)
            for a in ("observed_samples_", "queried_samples_", "random_state_", "budget_"):
                E.oblige(f"init.creates.{a}", o.state, z3.BoolVal(a in f))
            if "observed_samples_" in f and "queried_samples_" in f:
                E.oblige("init.C04.Inv", o.state, z3.And(real(f["observed_samples_"]) == 0, real(f["queried_samples_"]) == 0))
            # idempotence
            st1 = o.state.fork()
            st2 = o.state.fork()
            E2 = Engine(E.repo, cls=cls, file=F, lib=E.lib, inline=INLINE)
            for o2 in E2.verify(E.repo.resolve_method(cls, "_validate_data")[1], st2, ctx["args"], cls=cls):
                if o2.kind != "return":
                    E.oblige("idempotent.no_raise", o2.state, z3.BoolVal(False))
                    continue
                for nm, g in frame_goals(dict(f), st1, o2.state, sym):
                    E.oblige("idempotent.C03." + nm, o2.state, g)
    return se_unit(f"baseline.{cls}._validate_data", F, f"{cls}._validate_data", cls, setup, post, inline=INLINE,
                   lib_factory=stream_lib)


UNITS = {}
for _c in CLASSES:
    UNITS[f"{_c}.query"] = unit_query(_c)
    UNITS[f"{_c}.update"] = unit_update(_c)
    UNITS[f"{_c}._validate_data"] = unit_validate(_c)
