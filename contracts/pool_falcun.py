"""Contract for Falcun.query (skactiveml/pool/_falcun.py) — C01 / C02 for the sampling-based strategy.

C02: '... for sampling-based strategies it [the sample chosen at step i] has strictly positive probability mass in row i'.

  requires  validated batch size <= number of candidates (base-class validation, units pool_base.*)
  assumed   [A-score] the relevance (uncertainty + diversity) ** gamma of every candidate is a non-negative number; numpy's
            RandomState.choice(a, p=p, size=1) returns an entry of `a` whose probability is > 0; np.sum of a non-negative vector is 0 iff all
            entries are 0 (lemmas.nansum); classifier calls are opaque
  ensures   the batch consists of batch_size pairwise distinct candidates (C01); row b of the utilities is NaN exactly at non-candidates and at the
            candidates chosen in steps 0..b-1, and the candidate chosen in step b has a strictly positive number in row b (C02)
  loop invariant over a ghost sequence of selectable sets GHf(t) and a pick witness WITf (as for _greedy_sampling): the python list
            `query_indices` holds b pairwise distinct positions, the mask `rel_cand[query_indices] = 0` removes exactly them from the probability
            vector, so the position drawn next is a new one.
"""
import ast
import z3

from pyvc.se import (State, ArrData, ListData, ObjData, RngData, Opaque, Ref, LoopSpec, fresh, fresh_fn, fresh_sel, to_int, to_real, I, R, B, USort,
                     z3bool, Unsupported, is_z3, mk_fv)
from pyvc.unit import se_unit, returns, raises
from pyvc.lib import as_array, arr_of, membership, CNT, cnt_lemma_instances, cnt_point_update
from .pool_loops import loops_lib, _greedy_world

FF = "skactiveml/pool/_falcun.py"
GHf = z3.Function("GH_falcun", I, z3.ArraySort(I, B))
WITf = z3.Function("WIT_falcun", I, I, I)


def falcun_lib(ctx, mode):
    L = loops_lib()

    def validate_contract(E, st, recv, args, kw, node):
        names = ["X", "y", "candidates", "batch_size", "return_utilities", "reset", "check_X_dict"]
        a = dict(zip(names, args))
        a.update(kw)
        od = st.get(recv)
        nf = dict(od.fields)
        nf["missing_label_"] = nf.get("missing_label")
        rng = st.alloc(RngData(fresh_fn("stream", I, R), fresh("pos", I), fresh("aux", I)))
        nf["random_state_"] = rng
        st.put(recv, ObjData(od.cls, nf))
        bs2 = fresh("batch_size_validated", I)
        st.assume(to_int(a["batch_size"]) >= 1, bs2 == z3.If(to_int(a["batch_size"]) <= ctx["c"], to_int(a["batch_size"]), ctx["c"]))
        ctx["bs"] = bs2
        return (a["X"], a["y"], a["candidates"], bs2, a["return_utilities"])

    def transform_contract(E, st, recv, args, kw, node):
        if mode == "rows":
            return (args[0], None)
        X = as_array(args[1], st)
        mp = ctx["mapping"]
        Xc = ArrData((mp.shape[0], X.shape[1]), lambda i, j: X.sel(to_int(mp.sel(i)), j), "o")
        return (st.alloc(Xc), ctx["mapping_ref"])
    for c_ in ("SingleAnnotatorPoolQueryStrategy", "PoolQueryStrategy", "Falcun"):
        L.contracts[f"{c_}._validate_data"] = validate_contract
        L.contracts[f"{c_}._transform_candidates"] = transform_contract

    @L.fn("check_type", "check_scalar", "check_equal_missing_label")
    def _noop(E, st, args, kw, node):
        return None

    @L.fn("clone")
    def _clone(E, st, args, kw, node):
        return Opaque("clone")

    def score_vector(E, st, what):
        """[A-score] one non-negative number per candidate"""
        E.abstracted.add("A-score: " + what)
        v = fresh_fn("score", I, R)
        t = z3.Int("sc_t")
        st.assume(z3.ForAll([t], v(t) >= 0))
        return st.alloc(ArrData((ctx["c"],), lambda i: mk_fv(z3.BoolVal(False), v(i)), "f"))

    @L.fn("uncertainty_scores")
    def _unc(E, st, args, kw, node):
        return score_vector(E, st, "uncertainty_scores(probas_cand, method='margin_sampling')")

    @L.fn("np.minimum", "np.abs")
    def _dist(E, st, args, kw, node):
        if any(isinstance(a, Opaque) for a in args):
            if ast.unparse(node.func).endswith("minimum"):
                return score_vector(E, st, "np.minimum(dist_new, dist_cand)")
            return Opaque("abs")
        raise Unsupported("distance update on tracked arrays")

    base_binop = L.array_binop

    def array_binop(E, op, l, r, st):
        if isinstance(op, ast.Pow):
            return score_vector(E, st, "(unc_cand + dist_cand) ** gamma")
        res = base_binop(E, op, l, r, st)
        if isinstance(op, ast.Div) and isinstance(l, Ref) and not isinstance(r, Ref) and isinstance(res, Ref):
            # sign lemma of real division, instantiated for this quotient: x >= 0, s > 0 -> x / s >= 0;  x > 0, s > 0 -> x / s > 0
            a, q = as_array(l, st), as_array(res, st)
            if a is not None and q is not None and a.ndim == 1:
                t = z3.Int("dv_t")
                an, av = to_real(a.sel(t))
                qn, qv = to_real(q.sel(t))
                sn, sv = to_real(r)
                st.assume(z3.ForAll([t], z3.Implies(z3.And(z3.Not(an), z3.Not(sn), sv > 0),
                                                    z3.And(z3.Not(qn), z3.Implies(av >= 0, qv >= 0), z3.Implies(av > 0, qv > 0)))))
        return res
    L.array_binop = array_binop

    base_sum = L.functions["np.sum"]

    def _sum(E, st, args, kw, node):
        """np.sum of the relevance vector: the library contract (sum of non-negative numbers bounds every entry, 0 iff all are 0) plus its ground
        instance at the candidate that is known to be still selectable (gives the solver the term it needs)"""
        r = base_sum(E, st, args, kw, node)
        a = as_array(args[0], st) if args and isinstance(args[0], Ref) else None
        j0 = ctx.get("j0")
        if a is not None and a.ndim == 1 and a.kind == "f" and j0 is not None and not kw:
            jq = z3.Int("sm_j")
            en, ev = to_real(a.sel(jq))
            n = to_int(a.shape[0])
            premise = z3.ForAll([jq], z3.Implies(z3.And(0 <= jq, jq < n, z3.Not(en)), ev >= 0))
            e0n, e0v = to_real(a.sel(j0))
            rn, rv = to_real(r)
            st.assume(z3.Implies(z3.And(premise, 0 <= j0, j0 < n, z3.Not(e0n)), e0v <= rv))
        return r
    L.functions["np.sum"] = _sum

    base_arr_method = L.arr_method

    def arr_method(E, ref, d, name, args, kwargs, st, node):
        if name in ("min", "max") and not args and not kwargs:
            E.abstracted.add("A-score: dist_cand." + name + "() is a number")
            return fresh("dist_" + name, R)
        return base_arr_method(E, ref, d, name, args, kwargs, st, node)
    L.arr_method = arr_method

    base_rng = L.rng_method

    def rng_method(E, ref, d, name, args, kwargs, st):
        if name == "choice" and args and kwargs.get("size") == 1 and "p" in kwargs and "replace" not in kwargs:
            # numpy: RandomState.choice(a, p=p, size=1): one entry of a, drawn with probabilities p -- an entry of probability 0 is never drawn
            a = as_array(args[0], st)
            p = as_array(kwargs["p"], st)
            jq = z3.Int("cp_j")
            jn, jv = to_real(p.sel(jq))
            rngj = z3.And(0 <= jq, jq < to_int(p.shape[0]))
            # numpy raises ValueError for NaN or negative probabilities and for a vector that does not sum to 1 (e.g. all zeros / 0/0)
            E.oblige("call.choice.requires.probabilities_are_non_negative_numbers", st, z3.ForAll([jq], z3.Implies(rngj, z3.And(z3.Not(jn), jv >= 0))),
                     line=getattr(E, "cur_line", 0))
            E.oblige("call.choice.requires.some_probability_is_positive", st, z3.Exists([jq], z3.And(rngj, z3.Not(jn), jv > 0)), line=getattr(E, "cur_line", 0))
            f0 = fresh("choice_pos", I)
            pn, pv = to_real(p.sel(f0))
            st.assume(0 <= f0, f0 < to_int(a.shape[0]), z3.Not(pn), pv > 0)
            adv = fresh("adv", I)
            st.assume(adv >= 1)
            st.put(ref, RngData(d.stream, d.pos + adv, d.aux + 1))
            st.events.append(("draw-other", ref.id, name))
            E.used_lib = getattr(E, "used_lib", set())
            E.used_lib.add("RandomState.choice(a, p=p, size=1): an entry of a with p > 0")
            return st.alloc(ArrData((1,), lambda i: a.sel(f0), a.kind))
        return base_rng(E, ref, d, name, args, kwargs, st)
    L.rng_method = rng_method
    return L


def unit_falcun(mode):
    ctx = {}

    def setup(E, st):
        ctx.clear()
        X, y, cand = _greedy_world(ctx, st, mode)
        c = ctx["c"]
        selfo = st.alloc(ObjData("Falcun", {"gamma": z3.Real("gamma"), "missing_label": Opaque("missing_label"), "random_state": Opaque("random_state")}))
        st.assume(z3.Real("gamma") >= 0)
        clf = st.alloc(ObjData("__clf__", {"__open__": True, "__isinstance__": ("SkactivemlClassifier",), "missing_label": Opaque("missing_label")}))
        bs = z3.Int("batch_size")
        t, t2, j = z3.Ints("t t2 j")
        inr = lambda jj: z3.And(0 <= jj, jj < c)
        st.assume(z3.ForAll([j], GHf(0)[j] == inr(j)))

        def q_at(s, tt):
            return to_int(s.get(s.env["query_indices"]).sel(tt))

        def inv(E, s, k, pre):
            U = s.get(s.env["utilities_cand"])
            ql = s.get(s.env["query_indices"])
            Un, Uv = to_real(U.sel(t2, j))
            qn, qv = to_real(U.sel(t2, q_at(s, t2)))
            bsv = ctx["bs"]
            return [
                ("shapes", z3.And(to_int(U.shape[0]) == bsv, to_int(U.shape[1]) == c, to_int(ql.n) == k)),
                ("ghost_def", z3.ForAll([t], z3.Implies(z3.And(1 <= t, t <= k), GHf(t) == z3.Store(GHf(t - 1), q_at(s, t - 1), False)))),
                ("ghost_in_range", z3.ForAll([j], z3.Implies(GHf(k)[j], inr(j)))),
                ("picks_valid", z3.ForAll([t], z3.Implies(z3.And(0 <= t, t < k), z3.And(inr(q_at(s, t)), GHf(t)[q_at(s, t)])))),
                ("picks_stay_masked", z3.ForAll([t, t2], z3.Implies(z3.And(0 <= t, t < t2, t2 <= k), z3.Not(GHf(t2)[q_at(s, t)])))),
                ("masked_were_picked", z3.ForAll([t2, j], z3.Implies(z3.And(0 <= t2, t2 <= k, inr(j), z3.Not(GHf(t2)[j])),
                                                                       z3.And(0 <= WITf(t2, j), WITf(t2, j) < t2, q_at(s, WITf(t2, j)) == j)))),
                ("rows_nan", z3.ForAll([t2, j], z3.Implies(z3.And(0 <= t2, t2 < k, inr(j)), Un == z3.Not(GHf(t2)[j])))),
                ("picks_have_mass", z3.ForAll([t2], z3.Implies(z3.And(0 <= t2, t2 < k), z3.And(z3.Not(qn), qv > 0)))),
                ("ghost_count", CNT(GHf(k), c) == c - k),
            ]

        def on_iter(E, s, k):
            for f in cnt_lemma_instances(GHf(k), c):          # counting lemmas (contracts/lemmas.py, proved by induction), instantiated
                s.assume(f)
            # cut: some candidate is still selectable (c - k of them are); named, so that the later obligations get a concrete witness
            jx = z3.Int("jx")
            E.oblige("loop0.lemma.some_candidate_is_still_selectable", s, z3.Exists([jx], z3.And(inr(jx), GHf(k)[jx])), loop="loop0")
            j0 = fresh("still_selectable", I)
            ctx["j0"] = j0
            s.assume(inr(j0), GHf(k)[j0])
            ql = s.get(s.env["query_indices"])
            tq = z3.Int("tq")
            E.oblige("loop0.lemma.it_is_none_of_the_picks", s, z3.ForAll([tq], z3.Implies(z3.And(0 <= tq, tq < k), to_int(ql.sel(tq)) != j0)), loop="loop0")
            s.assume(z3.ForAll([tq], z3.Implies(z3.And(0 <= tq, tq < k), to_int(ql.sel(tq)) != j0)))

        def end_assume(E, head, end, k):
            r = q_at(end, k)
            end.assume(cnt_point_update(GHf(k), r, c))
            end.assume(GHf(k + 1) == z3.Store(GHf(k), r, False))
            end.assume(z3.ForAll([j], WITf(k + 1, j) == z3.If(j == r, k, WITf(k, j))))
        ctx["loop_specs"] = {"loop0": LoopSpec(inv=inv, on_iter=on_iter, end_assume=end_assume)}
        for f in cnt_lemma_instances(GHf(0), c):
            st.assume(f)
        ctx["args"] = [selfo, X, y, clf]
        ctx["kwargs"] = {"candidates": cand, "batch_size": bs, "return_utilities": True, "fit_clf": z3.Bool("fit_clf")}
        return ctx

    def post(E, c_, outs):
        rets = returns(outs)
        if not rets:
            E.oblige("reaches.return", [], z3.BoolVal(False))
        for o in raises(outs):
            E.oblige("does_not_raise", o.state, z3.BoolVal(False), exc=str(o.value))
        N, c = ctx["N"], ctx["c"]
        t, t2, j = z3.Ints("t t2 j")
        for o in rets:
            st = o.state
            bs = ctx["bs"]
            if not (isinstance(o.value, tuple) and len(o.value) == 2):
                E.oblige("returns.pair", st, False)
                continue
            q, U = arr_of(o.value[0], st), arr_of(o.value[1], st)
            ok = q is not None and U is not None and q.ndim == 1 and U.ndim == 2 and q.kind == "i"
            E.oblige("C01.returns_integer_indices_and_utilities", st, z3.BoolVal(bool(ok)))
            if not ok:
                continue
            qa = lambda tt: to_int(q.sel(tt))
            if mode == "rows":
                NC, is_cand, posof = c, (lambda jj: z3.And(0 <= jj, jj < c)), (lambda jj: jj)
            else:
                NC = N
                is_cand, posof = membership(E, ctx["mapping"], st)
            E.oblige("C01.batch_size_indices", st, to_int(q.shape[0]) == bs)
            E.oblige("C01.indices_are_candidates", st, z3.ForAll([t], z3.Implies(z3.And(0 <= t, t < bs), z3.And(0 <= qa(t), qa(t) < NC, is_cand(qa(t))))))
            E.oblige("C01.indices_pairwise_distinct", st, z3.ForAll([t, t2], z3.Implies(z3.And(0 <= t, t < t2, t2 < bs), qa(t) != qa(t2))))
            Un, Uv = to_real(U.sel(t2, j))
            qn, qv = to_real(U.sel(t2, qa(t2)))
            inr = z3.And(0 <= t2, t2 < bs, 0 <= j, j < NC)
            E.oblige("C02.utilities_shape", st, z3.And(to_int(U.shape[0]) == bs, to_int(U.shape[1]) == NC))
            E.oblige("C02.non_candidates_are_NaN", st, z3.ForAll([t2, j], z3.Implies(z3.And(inr, z3.Not(is_cand(j))), Un)))
            E.oblige("C02.earlier_picks_are_NaN", st, z3.ForAll([t, t2], z3.Implies(z3.And(0 <= t, t < t2, t2 < bs), to_real(U.sel(t2, qa(t)))[0])))
            w = WITf(t2, posof(j))
            E.oblige("C02.a_NaN_candidate_was_picked_in_an_earlier_step", st, z3.ForAll([t2, j], z3.Implies(z3.And(inr, is_cand(j), Un),
                     z3.And(0 <= w, w < t2, qa(w) == j))))
            E.oblige("C02.pick_t_has_strictly_positive_mass_in_row_t", st, z3.ForAll([t2], z3.Implies(z3.And(0 <= t2, t2 < bs), z3.And(z3.Not(qn), qv > 0))))
    return se_unit(f"pool_falcun.Falcun.query.{mode}", FF, "Falcun.query", "Falcun", setup, post, lib_factory=lambda: falcun_lib(ctx, mode))


UNITS = {f"C01.C02.Falcun.query.{m}": unit_falcun(m) for m in ("none", "idx", "rows")}
