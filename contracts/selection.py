"""Contracts for skactiveml/utils/_selection.py — C18 (and the selection half of C01 / C02).

rand_argmax / rand_argmin (1-D, and axis=1 on a 2-D array)
   requires  some non-NaN entry (per row)
   ensures   the returned position is in range, non-NaN and  a[j] <= a[r]  (>= for argmin) for every non-NaN j
   proved FROM THE BODY (nanmax, equality mask, product with uniform draws, argmax) with draws in the OPEN interval (0,1)
   tie fairness: for every tied optimum j* the draw vector "largest at j*" makes the body return j* (one obligation)
simple_batch (utilities 1-D)
   max:          k = min(batch_size, #non-NaN); returns k pairwise distinct positions, never a NaN entry, in non-increasing
                 order of utility; row i of the utilities is NaN exactly at the initial NaNs and the picks 0..i-1, equals the
                 input elsewhere, and the pick of step i attains the row maximum                      (C18, C01, C02)
   proportional: (domain: non-negative utilities) k pairwise distinct positions with strictly positive weight, rows masked
                 at earlier picks
   proved against the CONTRACT of rand_argmax (modular), with the counting lemmas of contracts/lemmas.py.
"""
import ast
import z3

from pyvc import cex

from pyvc.se import (State, ArrData, ListData, ObjData, RngData, Opaque, Ref, LoopSpec, Engine, fresh, fresh_fn, fresh_sel,
                     to_real, to_int, I, R, B, is_z3, Unsupported, z3bool, mk_fv, _Raise)
from pyvc.unit import se_unit, returns, raises, get_repo
from pyvc.lib import Lib, CNT, cnt_lemma_instances, cnt_point_update, mask_array, as_array

F = "skactiveml/utils/_selection.py"


def sel_lib(open_interval=True):
    L = Lib()
    L.open_unit_interval = open_interval
    L.quantified_stream_bounds = True

    @L.fn("check_random_state")
    def _crs(E, st, args, kw, node):
        E.used_lib = getattr(E, "used_lib", set())
        E.used_lib.add("check_random_state -> a RandomState (the instance itself, or one determined by the int seed / the global one for None)")
        v = args[0]
        if isinstance(v, Ref) and isinstance(st.get(v), RngData):
            return v
        return st.alloc(RngData(fresh_fn("stream", I, R), fresh("pos", I), fresh("aux", I)))
    return L


def nanq(a, j):
    return to_real(a.sel(j))


# ------------------------------------------------------------------------------------------ rand_argmax / rand_argmin (1-D)
def unit_rand_arg(which, axis=None):
    is_max = which == "rand_argmax"
    le = (lambda x, y: x <= y) if is_max else (lambda x, y: x >= y)

    def setup(E, st):
        n = z3.Int("n")
        st.assume(n >= 1)
        rng = st.alloc(RngData(z3.Function("rng_stream", I, R), z3.Int("pos0"), z3.Int("aux0")))
        if axis is None:
            a = ArrData((n,), fresh_sel("a", "f"), "f")
            j = z3.Int("j")
            en, ev = to_real(a.sel(j))
            st.assume(z3.Exists([j], z3.And(0 <= j, j < n, z3.Not(en))))        # requires: some non-NaN entry
            E.default_concretize = lambda ev: {"family": "rand_arg", "fn": which, "sig": "counter-model", "a": cex.arr(ev, a)}
            return {"args": [st.alloc(a), rng], "a": a, "n": n, "kwargs": {}}
        m = z3.Int("m")
        st.assume(m >= 1)
        a = ArrData((n, m), fresh_sel("a", "f", 2), "f")
        i, j = z3.Ints("i j")
        en, ev = to_real(a.sel(i, j))
        if axis in ("2d", "2d.axis_none"):
            # a matrix without axis / with an explicit axis=None: ONE index pair into the whole matrix
            st.assume(z3.Exists([i, j], z3.And(0 <= i, i < n, 0 <= j, j < m, z3.Not(en))))        # requires: some non-NaN entry
            E.default_concretize = lambda ev: {"family": "rand_arg", "fn": which, "axis": "none" if axis == "2d" else "explicit_none",
                                               "sig": "counter-model", "a": cex.arr(ev, a)}
            return {"args": [st.alloc(a), rng], "a": a, "n": n, "m": m, "kwargs": {} if axis == "2d" else {"axis": None}}
        st.assume(z3.ForAll([i], z3.Implies(z3.And(0 <= i, i < n), z3.Exists([j], z3.And(0 <= j, j < m, z3.Not(en))))))
        E.default_concretize = lambda ev: {"family": "rand_arg", "fn": which, "axis": 1, "sig": "counter-model", "a": cex.arr(ev, a)}
        return {"args": [st.alloc(a), rng], "a": a, "n": n, "m": m, "kwargs": {"axis": 1}}

    def post(E, ctx, outs):
        a, n = ctx["a"], ctx["n"]
        rets = returns(outs)
        if not rets:
            E.oblige("reaches.return", [], z3.BoolVal(False))
        for o in raises(outs):
            E.oblige("does_not_raise", o.state, z3.BoolVal(False), exc=str(o.value))
        for o in rets:
            st = o.state
            res = st.get(o.value) if isinstance(o.value, Ref) else None
            if not isinstance(res, ArrData) or res.ndim != 1:
                E.oblige("returns.1d_index_array", st, False)
                continue
            j = z3.Int("j")
            if axis is None:
                E.oblige("ensures.shape", st, to_int(res.shape[0]) == 1)
                r = to_int(res.sel(z3.IntVal(0)))
                rn, rv = to_real(a.sel(r))
                jn, jv = to_real(a.sel(j))
                E.oblige("ensures.in_range", st, z3.And(0 <= r, r < n))
                E.oblige("ensures.not_nan", st, z3.Not(rn))
                E.oblige("ensures.optimal", st, z3.ForAll([j], z3.Implies(z3.And(0 <= j, j < n, z3.Not(jn)), le(jv, rv))))
            elif axis in ("2d", "2d.axis_none"):
                m = ctx["m"]
                i = z3.Int("i")
                E.oblige("ensures.shape.one_index_per_dimension", st, to_int(res.shape[0]) == 2)
                r, c = to_int(res.sel(z3.IntVal(0))), to_int(res.sel(z3.IntVal(1)))
                rn, rv = to_real(a.sel(r, c))
                jn, jv = to_real(a.sel(i, j))
                E.oblige("ensures.in_range", st, z3.And(0 <= r, r < n, 0 <= c, c < m))
                E.oblige("ensures.not_nan", st, z3.Not(rn))
                E.oblige("ensures.optimal", st, z3.ForAll([i, j], z3.Implies(z3.And(0 <= i, i < n, 0 <= j, j < m, z3.Not(jn)), le(jv, rv))))
            else:
                m = ctx["m"]
                i = z3.Int("i")
                E.oblige("ensures.shape", st, to_int(res.shape[0]) == n)
                r = to_int(res.sel(i))
                rn, rv = to_real(a.sel(i, r))
                jn, jv = to_real(a.sel(i, j))
                row = z3.And(0 <= i, i < n)
                E.oblige("ensures.in_range", st, z3.ForAll([i], z3.Implies(row, z3.And(0 <= r, r < m))))
                E.oblige("ensures.not_nan", st, z3.ForAll([i], z3.Implies(row, z3.Not(rn))))
                E.oblige("ensures.optimal", st, z3.ForAll([i, j], z3.Implies(z3.And(row, 0 <= j, j < m, z3.Not(jn)), le(jv, rv))))
    tag = which + ("" if axis is None else ".axis1" if axis == 1 else "." + axis)
    return se_unit(f"selection.{tag}", F, which, None, setup, post, lib_factory=lambda: sel_lib(True))


def unit_tie_fairness(which):
    """for every tied optimum j* there are draws for which the body returns j*"""
    is_max = which == "rand_argmax"
    le = (lambda x, y: x <= y) if is_max else (lambda x, y: x >= y)

    def setup(E, st):
        n, js = z3.Int("n"), z3.Int("j_star")
        st.assume(n >= 1, 0 <= js, js < n)
        stream = z3.Function("rng_stream", I, R)
        pos0 = z3.Int("pos0")
        rng = st.alloc(RngData(stream, pos0, z3.Int("aux0")))
        a = ArrData((n,), fresh_sel("a", "f"), "f")
        j = z3.Int("j")
        sn, sv = to_real(a.sel(js))
        jn, jv = to_real(a.sel(j))
        st.assume(z3.Not(sn), z3.ForAll([j], z3.Implies(z3.And(0 <= j, j < n, z3.Not(jn)), le(jv, sv))))   # j* is an optimum
        # the seed under which j* receives the largest draw
        st.assume(z3.ForAll([j], z3.Implies(z3.And(0 <= j, j < n), stream(pos0 + j) == z3.If(j == js, z3.RealVal("0.9"), z3.RealVal("0.1")))))
        return {"args": [st.alloc(a), rng], "js": js}

    def post(E, ctx, outs):
        for o in returns(outs):
            res = o.state.get(o.value)
            E.oblige("ensures.returns_the_tied_optimum_with_the_largest_draw", o.state, to_int(res.sel(z3.IntVal(0))) == ctx["js"])
        if not returns(outs):
            E.oblige("reaches.return", [], z3.BoolVal(False))
    return se_unit(f"selection.{which}.tie_fairness", F, which, None, setup, post, lib_factory=lambda: sel_lib(True))


# ------------------------------------------------------------------------------------------ contract of rand_argmax for callers
def rand_argmax_contract(L, strict_pre=True):
    """callee contract used when verifying simple_batch (and other callers): checks the precondition at the call site,
    returns an index array satisfying the postcondition proved in unit_rand_arg."""
    def handler(E, st, args, kw, node):
        E.abstracted.add("contract:rand_argmax")
        a = as_array(args[0], st) if isinstance(args[0], Ref) else None
        if a is None or a.ndim != 1 or kw.get("axis") is not None:
            raise Unsupported("rand_argmax contract: only 1-D arrays")
        n = to_int(a.shape[0])
        j = z3.Int("j")
        jn, jv = to_real(a.sel(j))
        E.oblige("call.rand_argmax.requires.some_non_nan", st, z3.Exists([j], z3.And(0 <= j, j < n, z3.Not(jn))),
                 line=getattr(node, "lineno", 0))
        r = fresh("r_argmax", I)
        rn, rv = to_real(a.sel(r))
        st.assume(0 <= r, r < n, z3.Not(rn), z3.ForAll([j], z3.Implies(z3.And(0 <= j, j < n, z3.Not(jn)), jv <= rv)))
        rs = kw.get("random_state", args[1] if len(args) > 1 else None)
        if isinstance(rs, Ref) and isinstance(st.get(rs), RngData):
            d = st.get(rs)
            st.put(rs, RngData(d.stream, d.pos + n, d.aux))
        st.events.append(("rand_argmax", rs))
        return st.alloc(ArrData((1,), lambda i, r=r: r, "i"))
    L.functions["rand_argmax"] = handler
    return L


# ------------------------------------------------------------------------------------------ simple_batch
GH = z3.Function("GH", I, z3.ArraySort(I, B))     # ghost: non-NaN mask of the working copy at iteration k


def unit_simple_batch(method):
    def lib():
        return rand_argmax_contract(sel_lib(True))

    def setup(E, st):
        n, bs = z3.Int("n"), z3.Int("batch_size")
        st.assume(n >= 0)
        u0 = ArrData((n,), fresh_sel("u", "f"), "f")
        uref = st.alloc(u0)
        rng = st.alloc(RngData(z3.Function("rng_stream", I, R), z3.Int("pos0"), z3.Int("aux0")))
        ru = z3.Bool("return_utilities")
        j = z3.Int("j")
        A0 = mask_array(lambda t: z3.Not(to_real(u0.sel(t))[0]))
        ctx_A0 = A0
        cnt0 = CNT(A0, n)
        for f in cnt_lemma_instances(A0, n):
            st.assume(f)
        st.assume(GH(0) == A0)
        k_exp = z3.If(bs <= cnt0, bs, cnt0)
        ctx = {"args": [uref, rng], "kwargs": {"batch_size": bs, "return_utilities": ru, "method": method}, "u0": u0, "n": n,
               "bs": bs, "cnt0": cnt0, "k_exp": k_exp, "ru": ru, "A0": A0}
        if method == "proportional":
            jn, jv = to_real(u0.sel(j))
            st.assume(z3.ForAll([j], z3.Implies(z3.And(0 <= j, j < n, z3.Not(jn)), jv >= 0)))    # domain: non-negative weights

            def inv_p(E, s, k, pre):
                U = s.get(s.env["batch_utilities"])
                q = s.get(s.env["best_indices"])
                t, t2 = z3.Ints("t t2")
                Un, Uv = to_real(U.sel(t2, j))
                n0, v0 = to_real(u0.sel(j))
                inr = z3.And(0 <= j, j < n)
                picked_before = z3.Exists([t], z3.And(0 <= t, t < t2, to_int(q.sel(t)) == j))
                rows = z3.And(0 <= t2, t2 < to_int(U.shape[0]))
                return [("rows_done", z3.ForAll([t2, j], z3.Implies(z3.And(rows, t2 < k, inr), Un == z3.Or(n0, picked_before)))),
                        ("rows_todo", z3.ForAll([t2, j], z3.Implies(z3.And(rows, t2 >= k, inr), Un == n0))),
                        ("values", z3.ForAll([t2, j], z3.Implies(z3.And(rows, inr, z3.Not(Un)), Uv == v0)))]
            ctx["loop_specs"] = {"loop0": LoopSpec(inv=inv_p)}
            return ctx

        def best(s, t):
            return to_int(s.get(s.env["best_indices"]).sel(t, z3.IntVal(0)))

        def inv(E, s, k, pre):
            u = s.get(s.env["utilities"])
            U = s.get(s.env["batch_utilities"])
            t, t2 = z3.Ints("t t2")
            un, uv = to_real(u.sel(j))
            n0, v0 = to_real(u0.sel(j))
            Un, Uv = to_real(U.sel(t2, j))
            bn, bv = to_real(U.sel(t2, best(s, t2)))
            b0n, b0v = to_real(u0.sel(best(s, t)))
            b2n, b2v = to_real(u0.sel(best(s, t2)))
            inr = z3.And(0 <= j, j < n)
            out = [
                ("batch_size_clipped", to_int(s.env["batch_size"]) == k_exp),
                ("ghost_def", z3.ForAll([t], z3.Implies(z3.And(0 <= t, t < k), GH(t + 1) == z3.Store(GH(t), best(s, t), False)))),
                ("ghost_subset", z3.ForAll([t, j], z3.Implies(z3.And(0 <= t, t <= k, inr, GH(t)[j]), A0[j]))),
                ("ghost_monotone", z3.ForAll([t, t2, j], z3.Implies(z3.And(0 <= t, t < t2, t2 <= k, inr, GH(t2)[j]), GH(t)[j]))),
                ("picks_valid", z3.ForAll([t], z3.Implies(z3.And(0 <= t, t < k), z3.And(0 <= best(s, t), best(s, t) < n, GH(t)[best(s, t)])))),
                ("picks_stay_masked", z3.ForAll([t, t2], z3.Implies(z3.And(0 <= t, t < t2, t2 <= k), z3.Not(GH(t2)[best(s, t)])))),
                ("work_nan", z3.ForAll([j], z3.Implies(inr, un == z3.Not(GH(k)[j])))),
                ("work_val", z3.ForAll([j], z3.Implies(z3.And(inr, z3.Not(un)), uv == v0))),
                ("ghost_count", CNT(GH(k), n) == cnt0 - k),
                ("rows_nan", z3.ForAll([t2, j], z3.Implies(z3.And(0 <= t2, t2 < k, inr), Un == z3.Not(GH(t2)[j])))),
                ("rows_val", z3.ForAll([t2, j], z3.Implies(z3.And(0 <= t2, t2 < k, inr, z3.Not(Un)), Uv == v0))),
                ("rows_max", z3.ForAll([t2, j], z3.Implies(z3.And(0 <= t2, t2 < k, inr, GH(t2)[j]), v0 <= b2v))),
                ("non_increasing", z3.ForAll([t, t2], z3.Implies(z3.And(0 <= t, t < t2, t2 < k), b0v >= b2v))),
            ]
            return out

        def on_iter(E, s, k):
            for f in cnt_lemma_instances(GH(k), n):
                s.assume(f)

        def end_assume(E, head, end, k):
            r = best(end, k)
            end.assume(GH(k + 1) == z3.Store(GH(k), r, False))            # ghost update (definition by unfolding)
            end.assume(cnt_point_update(GH(k), r, n))                      # lemma instance (contracts/lemmas.py)
        ctx["loop_specs"] = {"loop0": LoopSpec(inv=inv, on_iter=on_iter, end_assume=end_assume)}
        ctx["best"] = best
        return ctx

    def post(E, ctx, outs):
        u0, n, k_exp = ctx["u0"], ctx["n"], ctx["k_exp"]
        rets = returns(outs)
        if not rets:
            E.oblige("reaches.return", [], z3.BoolVal(False))
        for o in raises(outs):
            E.oblige("does_not_raise", o.state, z3.BoolVal(False), exc=str(o.value))
        j, t, t2 = z3.Ints("j t t2")
        for o in rets:
            st = o.state
            val = o.value
            U = None
            if isinstance(val, tuple):
                val, Uref = val
                U = st.get(Uref) if isinstance(Uref, Ref) else None
            q = st.get(val) if isinstance(val, Ref) else None
            if not isinstance(q, ArrData) or q.ndim != 1:
                E.oblige("returns.1d_index_array", st, False)
                continue
            k = to_int(q.shape[0])
            qt, qt2 = to_int(q.sel(t)), to_int(q.sel(t2))
            n0, v0 = to_real(u0.sel(j))
            qn, qv = to_real(u0.sel(qt))
            q2n, q2v = to_real(u0.sel(qt2))
            E.oblige("ensures.size", st, k == k_exp)
            E.oblige("ensures.in_range_and_never_nan", st, z3.ForAll([t], z3.Implies(z3.And(0 <= t, t < k), z3.And(0 <= qt, qt < n, z3.Not(qn)))))
            E.oblige("ensures.distinct", st, z3.ForAll([t, t2], z3.Implies(z3.And(0 <= t, t < t2, t2 < k), qt != qt2)))
            if method == "max":
                E.oblige("ensures.non_increasing", st, z3.ForAll([t, t2], z3.Implies(z3.And(0 <= t, t < t2, t2 < k), qv >= q2v)))
            else:
                E.oblige("ensures.positive_weight", st, z3.ForAll([t], z3.Implies(z3.And(0 <= t, t < k), qv > 0)))
            if U is not None:
                if U.ndim != 2:
                    E.oblige("ensures.utilities.2d", st, False)
                    continue
                Un, Uv = to_real(U.sel(t2, j))
                E.oblige("ensures.utilities.shape", st, z3.And(to_int(U.shape[0]) == k, to_int(U.shape[1]) == n))
                cn, cv = to_real(U.sel(t2, qt2))
                inr = z3.And(0 <= j, j < n)
                if method == "max":
                    # recursive form of "NaN exactly at the initial NaNs and the picks 0..i-1":
                    #   M(0) = non-NaN mask of the input, M(i+1) = M(i) without pick i; row i is NaN exactly off M(i)
                    E.oblige("ensures.utilities.mask_recursion", st,
                             z3.ForAll([t], z3.Implies(z3.And(0 <= t, t < k), GH(t + 1) == z3.Store(GH(t), qt, False))))
                    E.oblige("ensures.utilities.nan_pattern", st,
                             z3.ForAll([t2, j], z3.Implies(z3.And(0 <= t2, t2 < k, inr), Un == z3.Not(GH(t2)[j]))))
                    E.oblige("ensures.utilities.values", st,
                             z3.ForAll([t2, j], z3.Implies(z3.And(0 <= t2, t2 < k, inr, z3.Not(Un)), Uv == v0)))
                    E.oblige("ensures.utilities.pick_is_row_maximum", st,
                             z3.ForAll([t2, j], z3.Implies(z3.And(0 <= t2, t2 < k, inr, z3.Not(Un)), z3.And(z3.Not(cn), Uv <= cv))))
                else:
                    picked_before = z3.Exists([t], z3.And(0 <= t, t < t2, qt == j))
                    E.oblige("ensures.utilities.nan_pattern", st,
                             z3.ForAll([t2, j], z3.Implies(z3.And(0 <= t2, t2 < k, inr), Un == z3.Or(n0, picked_before))))
                    E.oblige("ensures.utilities.values", st,
                             z3.ForAll([t2, j], z3.Implies(z3.And(0 <= t2, t2 < k, inr, z3.Not(Un)), Uv == v0)))
                    E.oblige("ensures.utilities.pick_has_mass", st, z3.ForAll([t2], z3.Implies(z3.And(0 <= t2, t2 < k), z3.And(z3.Not(cn), cv > 0))))
        if method == "max" and "loop0" not in E.reached:
            E.oblige("loop.reached", [], z3.BoolVal(False))
    return se_unit(f"selection.simple_batch.{method}", F, "simple_batch", None, setup, post, lib_factory=lib)


UNITS = {
    "rand_argmax": unit_rand_arg("rand_argmax"),
    "rand_argmin": unit_rand_arg("rand_argmin"),
    "rand_argmax.axis1": unit_rand_arg("rand_argmax", axis=1),
    "rand_argmin.axis1": unit_rand_arg("rand_argmin", axis=1),
    "rand_argmax.2d": unit_rand_arg("rand_argmax", axis="2d"),
    "rand_argmin.2d": unit_rand_arg("rand_argmin", axis="2d"),
    "rand_argmax.2d.axis_none": unit_rand_arg("rand_argmax", axis="2d.axis_none"),
    "rand_argmin.2d.axis_none": unit_rand_arg("rand_argmin", axis="2d.axis_none"),
    "rand_argmax.tie_fairness": unit_tie_fairness("rand_argmax"),
    "rand_argmin.tie_fairness": unit_tie_fairness("rand_argmin"),
    "simple_batch.max": unit_simple_batch("max"),
    "simple_batch.proportional": unit_simple_batch("proportional"),
}
