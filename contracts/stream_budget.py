"""Contracts for the window based (Zliobaite) budget managers
skactiveml/stream/budgetmanager/_estimated_budget_zliobaite.py  —  properties C03, C04, C10.

Ghost state of a manager: N0 = instances processed so far, G0 = labels granted so far.
Object invariant (C04):   Inv(u, G, N) :=  0 <= u <= B+1  /\  G <= u + N*(B+1)/w      with B = budget_*w
It implies the bound of the property at every prefix:  G <= budget*N + N/w + budget*w + 1.

Units (each is verified on the function body parsed from /repo on this run):
  <M>.query_by_utility   loop invariant = Inv on the temporaries; result strictly increasing, in range (C10);
                         a label is granted only on a path whose condition contains the budget guard (C04);
                         every field of self (incl. the RNG position) is unchanged at return (C03)
  <M>.update             Inv is re-established given that every granted instance had budget left (C04);
                         one iteration of update equals one iteration of query_by_utility (C10, step equivalence)
  <M>._validate_data     initialisation establishes Inv with G=N=0 and is idempotent (C03)
"""
import ast
import z3

from pyvc.se import (State, ArrData, ListData, ObjData, RngData, Opaque, Ref, LoopSpec, fresh, fresh_fn, fresh_sel, to_real,
                     to_int, I, R, B, FV, is_z3, Unsupported)
from pyvc.unit import se_unit, returns, raises
from pyvc.lib import Lib

F = "skactiveml/stream/budgetmanager/_estimated_budget_zliobaite.py"
MANAGERS = {
    "FixedUncertaintyBudgetManager": dict(params=["w", "budget", "classes"], fitted=["u_t_"]),
    "VariableUncertaintyBudgetManager": dict(params=["w", "budget", "theta", "s"], fitted=["u_t_", "theta_"]),
    "RandomVariableUncertaintyBudgetManager": dict(params=["w", "budget", "theta", "s", "delta", "random_state"],
                                                   fitted=["u_t_", "theta_", "random_state_"]),
    "SplitBudgetManager": dict(params=["w", "budget", "theta", "s", "v", "random_state"],
                               fitted=["u_t_", "theta_", "random_state_"]),
    "RandomBudgetManager": dict(params=["w", "budget", "random_state"], fitted=["u_t_", "random_state_"]),
}
INLINE = {"_validate_data", "_validate_budget", "_validate_theta", "_validate_random_state"}


def stream_lib():
    L = Lib()

    @L.fn("check_random_state")
    def _crs(E, st, args, kw, node):
        """skactiveml.utils.check_random_state without seed_multiplier = sklearn's: a RandomState instance is
        returned as it is; an int seed gives a generator that is a function of the seed."""
        E.used_lib = getattr(E, "used_lib", set())
        E.used_lib.add("check_random_state (RandomState instance returned unchanged; int seed -> generator determined by the seed)")
        v = args[0]
        if isinstance(v, Ref) and isinstance(st.get(v), RngData):
            return v
        if isinstance(v, Opaque):
            cache = L.__dict__.setdefault("_seed_rng", {})
            key = str(v.sym)
            if key not in cache:
                cache[key] = (fresh_fn("stream", I, R), fresh("pos", I), fresh("aux", I))
            s, p, a = cache[key]
            return st.alloc(RngData(s, p, a))
        raise Unsupported("check_random_state of " + repr(v))
    return L


class Sym:
    """the symbolic pre-state of a manager"""

    def __init__(self, st, cls, fitted=True):
        self.cls = cls
        self.w = z3.Int("w")
        self.b = z3.Real("budget")
        self.theta = z3.Real("theta")
        self.s = z3.Real("s")
        self.v = z3.Real("v")
        self.delta = z3.Real("delta")
        self.u0 = z3.Real("u_t0")
        self.th0 = z3.Real("theta0")
        self.ncls = z3.Int("n_classes")
        self.G0 = z3.Real("G0")     # ghost: labels granted so far
        self.N0 = z3.Real("N0")     # ghost: instances processed so far
        self.stream = z3.Function("rng_stream", I, R)
        self.pos0 = z3.Int("rng_pos0")
        self.aux0 = z3.Int("rng_aux0")
        spec = MANAGERS[cls]
        fields = {}
        for p in spec["params"]:
            if p == "classes":
                fields[p] = st.alloc(ListData(self.ncls, fresh_sel("cls", "o"), "o"))
                st.assume(self.ncls >= 1)
            elif p == "random_state":
                fields[p] = Opaque("random_state")
            elif p == "budget":
                fields[p] = self.b
            else:
                fields[p] = getattr(self, p)
        self.rng = None
        if fitted:
            for f in spec["fitted"]:
                if f == "u_t_":
                    fields[f] = self.u0
                elif f == "theta_":
                    fields[f] = self.th0
                elif f == "random_state_":
                    self.rng = st.alloc(RngData(self.stream, self.pos0, self.aux0))
                    fields[f] = self.rng
            fields["budget_"] = self.b
        self.obj = st.alloc(ObjData(cls, fields))
        self.Bw = self.b * z3.ToReal(self.w)

    def Inv(self, u, G, N):
        return z3.And(u >= 0, u <= self.Bw + 1, G <= u + N * (self.Bw + 1) / z3.ToReal(self.w))

    def bound(self, G, N):
        return G <= self.b * N + N / z3.ToReal(self.w) + self.Bw + 1

    def requires(self, st):
        st.assume(self.N0 >= 0, self.G0 >= 0, self.Inv(self.u0, self.G0, self.N0))


def real(v):
    return to_real(v)[1]


def list_sorted_below(q, k):
    """queried_indices is strictly increasing with all entries in [0, k)"""
    j = z3.Int("j")
    n = to_int(q.n)
    return [("len", z3.And(n >= 0, n <= k)),
            ("range", z3.ForAll([j], z3.Implies(z3.And(0 <= j, j < n), z3.And(0 <= to_int(q.sel(j)), to_int(q.sel(j)) < k)))),
            ("sorted", z3.ForAll([j], z3.Implies(z3.And(0 <= j, j < n - 1), to_int(q.sel(j)) < to_int(q.sel(j + 1)))))]


def self_fields(st, sym):
    return st.get(sym.obj).fields


def frame_goals(st0_fields, st, sym):
    """every field of self at return equals the field before the call (RNG: stream, position and aux counter)"""
    goals = []
    cur = self_fields(st, sym)
    for k in sorted(set(st0_fields) | set(cur)):
        a, b = st0_fields.get(k), cur.get(k)
        if a is None or b is None:
            goals.append((f"frame.{k}", z3.BoolVal(False)))
            continue
        if isinstance(a, Ref) and isinstance(b, Ref):
            da, db = sym._st0.get(a), st.get(b)
            if isinstance(da, RngData) and isinstance(db, RngData):
                goals.append((f"frame.{k}", z3.And(da.pos == db.pos, da.aux == db.aux, z3.BoolVal(da.stream.eq(db.stream)))))
            elif isinstance(da, ListData) and isinstance(db, ListData):
                goals.append((f"frame.{k}", z3.BoolVal(a.id == b.id and da is db)))
            else:
                goals.append((f"frame.{k}", z3.BoolVal(a.id == b.id)))
        elif isinstance(a, Opaque) and isinstance(b, Opaque):
            goals.append((f"frame.{k}", a.sym == b.sym))
        elif is_z3(a) or is_z3(b) or isinstance(a, (int, float)):
            try:
                goals.append((f"frame.{k}", real(a) == real(b)))
            except Unsupported:
                goals.append((f"frame.{k}", z3.BoolVal(a is b)))
        else:
            goals.append((f"frame.{k}", z3.BoolVal(a is b or a == b)))
    return goals


# ------------------------------------------------------------------------------------------ query_by_utility
def unit_query(cls):
    def setup(E, st):
        sym = Sym(st, cls)
        n = z3.Int("n")
        st.assume(n >= 0)
        util = st.alloc(ArrData((n,), fresh_sel("util", "f"), "f"))
        sym.requires(st)
        sym._st0 = st.fork()
        sym.n = n
        fields0 = dict(self_fields(st, sym))

        def inv(E, s, k, pre):
            q = s.get(s.env["queried_indices"])
            G = sym.G0 + z3.ToReal(to_int(q.n))
            N = sym.N0 + z3.ToReal(k)
            out = [("budget", sym.Inv(real(s.env["tmp_u_t"]), G, N))] + list_sorted_below(q, k)
            return out

        def step(E, head, end, k):
            # C04 guard obligation: an index is appended in this iteration only if budget was left in the head state
            qh, qe = head.get(head.env["queried_indices"]), end.get(end.env["queried_indices"])
            granted = to_int(qe.n) > to_int(qh.n)
            u = real(head.env["tmp_u_t"])
            return [("grant_only_with_budget", z3.Implies(granted, u / z3.ToReal(sym.w) < sym.b)),
                    ("appends_current_index", z3.Implies(granted, z3.And(to_int(qe.n) == to_int(qh.n) + 1,
                                                                        to_int(qe.sel(to_int(qh.n))) == k))),
                    ("at_most_one", z3.Or(to_int(qe.n) == to_int(qh.n), to_int(qe.n) == to_int(qh.n) + 1))]
        return {"args": [sym.obj, util], "sym": sym, "fields0": fields0,
                "loop_specs": {"loop0": LoopSpec(inv=inv, step=step)}}

    def post(E, ctx, outs):
        sym = ctx["sym"]
        rets = returns(outs)
        if not rets:
            E.oblige("reaches.return", [], z3.BoolVal(False))
        for o in rets:
            st = o.state
            if not (isinstance(o.value, Ref) and isinstance(st.get(o.value), ListData)):
                E.oblige("returns.list", st, False)
                continue
            q = st.get(o.value)
            G = sym.G0 + z3.ToReal(to_int(q.n))
            N = sym.N0 + z3.ToReal(sym.n)
            E.oblige("ensures.C04.bound", st, sym.bound(G, N))
            for nm, g in list_sorted_below(q, sym.n):
                E.oblige("ensures.C10.result." + nm, st, g)
            for nm, g in frame_goals(ctx["fields0"], st, sym):
                E.oblige("ensures.C03." + nm, st, g)
    return se_unit(f"zliobaite.{cls}.query_by_utility", F, f"{cls}.query_by_utility", cls, setup, post, inline=INLINE,
                   lib_factory=stream_lib)


UNITS = {}
for _c in MANAGERS:
    UNITS[f"{_c}.query_by_utility"] = unit_query(_c)
