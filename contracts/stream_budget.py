"""Contracts for the stream budget managers — properties C03, C04, C10.

  skactiveml/stream/budgetmanager/_estimated_budget_zliobaite.py   Fixed/Variable/RandomVariable/Split/Random
  skactiveml/stream/budgetmanager/_threshold_budget.py             DensityBasedSplitBudgetManager

Ghost state of a manager: N0 = instances processed so far, G0 = labels granted so far.
Object invariants (C04):
  window managers   Inv(u_t_, G, N) :=  0 <= u_t_ <= B+1  /\  G <= u_t_ + N*(B+1)/w        with B = budget_*w
                    (implies  G <= budget*N + N/w + budget*w + 1  at every prefix)
  density manager   Inv(u_, t_, G, N) :=  t_ = N /\ u_ = G /\ 0 <= u_ /\ u_ < budget*t_ + 1
                    (implies  G <= budget*N + 1)

Units (each verified on the function body parsed from /repo on this run):
  <M>.query_by_utility   loop invariant = Inv on the temporaries; result strictly increasing and in range (C10);
                         an index is appended only on a path whose condition contains the budget guard (C04);
                         every field of self, incl. the RNG position, is unchanged at return (C03)
  <M>.update             Inv is re-established given granted_ok (C04); update never raises on a query result (C10);
                         one iteration of update == one iteration of the real query loop on the committed state (C10)
  <M>._validate_data     initialisation establishes Inv with G=N=0; a second call changes nothing (C03)
"""
import z3

from pyvc.se import (State, ArrData, ListData, ObjData, RngData, Opaque, Ref, LoopSpec, Engine, fresh, fresh_fn, fresh_sel,
                     to_real, to_int, I, R, B, FV, is_z3, Unsupported)
from pyvc.unit import se_unit, returns, raises, get_repo
from pyvc.lib import Lib

FZ = "skactiveml/stream/budgetmanager/_estimated_budget_zliobaite.py"
FT = "skactiveml/stream/budgetmanager/_threshold_budget.py"
WIN = {"tmp_u_t": "u_t_", "tmp_theta": "theta_"}
MANAGERS = {
    "FixedUncertaintyBudgetManager": dict(file=FZ, params=["w", "budget", "classes"], fitted=["u_t_"], tmps=WIN, kind="window"),
    "VariableUncertaintyBudgetManager": dict(file=FZ, params=["w", "budget", "theta", "s"], fitted=["u_t_", "theta_"], tmps=WIN,
                                             kind="window"),
    "RandomVariableUncertaintyBudgetManager": dict(file=FZ, params=["w", "budget", "theta", "s", "delta", "random_state"],
                                                   fitted=["u_t_", "theta_", "random_state_"], tmps=WIN, kind="window",
                                                   rng_equiv=False),
    "SplitBudgetManager": dict(file=FZ, params=["w", "budget", "theta", "s", "v", "random_state"],
                               fitted=["u_t_", "theta_", "random_state_"], tmps=WIN, kind="window", rng_equiv=True),
    "RandomBudgetManager": dict(file=FZ, params=["w", "budget", "random_state"], fitted=["u_t_", "random_state_"], tmps=WIN,
                                kind="window", rng_equiv=False, rng_bulk=True),
    "DensityBasedSplitBudgetManager": dict(file=FT, params=["budget", "theta", "s", "delta", "random_state"],
                                           fitted=["u_", "t_", "theta_", "random_state_"],
                                           tmps={"tmp_u": "u_", "tmp_t": "t_", "tmp_theta": "theta_"}, kind="density",
                                           rng_equiv=False),
}
INLINE = {"_validate_data", "_validate_budget", "_validate_theta", "_validate_random_state"}


def stream_lib():
    L = Lib()

    @L.fn("check_random_state")
    def _crs(E, st, args, kw, node):
        """skactiveml.utils.check_random_state without seed_multiplier = sklearn's: a RandomState instance is
        returned as it is; an int seed gives a generator that is a function of the seed."""
        E.used_lib = getattr(E, "used_lib", set())
        E.used_lib.add("check_random_state (RandomState instance returned unchanged; int seed -> generator determined by the seed)")
        v = args[0]
        if isinstance(v, Ref) and isinstance(st.get(v), RngData):
            return v
        if isinstance(v, Opaque):
            cache = L.__dict__.setdefault("_seed_rng", {})
            key = str(v.sym)
            if key not in cache:
                cache[key] = (fresh_fn("stream", I, R), fresh("pos", I), fresh("aux", I))
            s, p, a = cache[key]
            return st.alloc(RngData(s, p, a))
        raise Unsupported("check_random_state of " + repr(v))
    return L


def real(v):
    return to_real(v)[1]


class Sym:
    """the symbolic pre-state of a manager"""

    def __init__(self, st, cls, fitted=True):
        self.cls = cls
        self.spec = spec = MANAGERS[cls]
        self.w = z3.Int("w")
        self.b = z3.Real("budget")
        self.theta, self.s, self.v, self.delta = z3.Real("theta"), z3.Real("s"), z3.Real("v"), z3.Real("delta")
        self.ncls = z3.Int("n_classes")
        self.G0 = z3.Real("G0")     # ghost: labels granted so far
        self.N0 = z3.Real("N0")     # ghost: instances processed so far
        self.stream = z3.Function("rng_stream", I, R)
        self.pos0, self.aux0 = z3.Int("rng_pos0"), z3.Int("rng_aux0")
        self.init = {"u_t_": z3.Real("u_t0"), "theta_": z3.Real("theta0"), "u_": z3.Real("u0"), "t_": z3.Int("t0")}
        fields = {}
        for p in spec["params"]:
            if p == "classes":
                fields[p] = st.alloc(ListData(self.ncls, fresh_sel("cls", "o"), "o"))
                st.assume(self.ncls >= 1)
            elif p == "random_state":
                fields[p] = Opaque("random_state")
            elif p == "budget":
                fields[p] = self.b
            else:
                fields[p] = getattr(self, p)
        self.rng = None
        self.fitted = fitted
        if fitted:
            for f in spec["fitted"]:
                if f == "random_state_":
                    self.rng = st.alloc(RngData(self.stream, self.pos0, self.aux0))
                    fields[f] = self.rng
                else:
                    fields[f] = self.init[f]
            fields["budget_"] = self.b
        self.obj = st.alloc(ObjData(cls, fields))
        self.Bw = self.b * z3.ToReal(self.w)

    # vals: dict field -> term for the numeric state fields (u_t_ / u_, t_)
    def vals0(self):
        return {f: self.init[f] for f in self.spec["fitted"] if f != "random_state_"}

    def Inv_parts(self, vals, G, N):
        if self.spec["kind"] == "window":
            u = real(vals["u_t_"])
            return [("u_nonneg", u >= 0), ("u_le_B1", u <= self.Bw + 1),
                    ("grants", G <= u + N * (self.Bw + 1) / z3.ToReal(self.w))]
        u, t = real(vals["u_"]), real(vals["t_"])
        return [("t_is_N", t == N), ("u_is_G", u == G), ("u_nonneg", u >= 0),
                ("spent", u < self.b * t + 1)]

    def Inv(self, vals, G, N):
        return z3.And(*[g for _, g in self.Inv_parts(vals, G, N)])

    def bound(self, G, N):
        if self.spec["kind"] == "window":
            return G <= self.b * N + N / z3.ToReal(self.w) + self.Bw + 1
        return G <= self.b * N + 1

    def guard(self, vals):
        """'budget is left' in the state `vals` *before* the instance is counted"""
        if self.spec["kind"] == "window":
            return real(vals["u_t_"]) / z3.ToReal(self.w) < self.b
        return real(vals["u_"]) / (real(vals["t_"]) + 1) < self.b

    def requires(self, st):
        st.assume(self.N0 >= 0, self.G0 >= 0, self.Inv(self.vals0(), self.G0, self.N0))
        if self.spec["kind"] == "density":
            st.assume(self.init["t_"] >= 0)


def list_sorted_below(q, k):
    """queried_indices is strictly increasing with all entries in [0, k)"""
    j = z3.Int("j")
    n = to_int(q.n)
    return [("len", z3.And(n >= 0, n <= k)),
            ("range", z3.ForAll([j], z3.Implies(z3.And(0 <= j, j < n), z3.And(0 <= to_int(q.sel(j)), to_int(q.sel(j)) < k)))),
            ("sorted", z3.ForAll([j], z3.Implies(z3.And(0 <= j, j < n - 1), to_int(q.sel(j)) < to_int(q.sel(j + 1)))))]


def self_fields(st, sym):
    return st.get(sym.obj).fields


def frame_goals(fields0, st0, st, sym):
    """every field of self at return equals the field before the call (RNG: stream, position and aux counter)"""
    goals = []
    cur = self_fields(st, sym)
    for k in sorted(set(fields0) | set(cur)):
        a, b = fields0.get(k), cur.get(k)
        if a is None or b is None:
            goals.append((f"frame.{k}", z3.BoolVal(False)))
            continue
        if isinstance(a, Ref) and isinstance(b, Ref):
            da, db = st0.get(a), st.get(b)
            if isinstance(da, RngData) and isinstance(db, RngData):
                goals.append((f"frame.{k}", z3.And(da.pos == db.pos, da.aux == db.aux, z3.BoolVal(da.stream.eq(db.stream)))))
            elif isinstance(da, ListData) and isinstance(db, ListData):
                goals.append((f"frame.{k}", z3.BoolVal(a.id == b.id and da is db)))
            else:
                goals.append((f"frame.{k}", z3.BoolVal(a.id == b.id)))
        elif isinstance(a, Opaque) and isinstance(b, Opaque):
            goals.append((f"frame.{k}", a.sym == b.sym))
        elif is_z3(a) or is_z3(b) or isinstance(a, (int, float)):
            try:
                goals.append((f"frame.{k}", real(a) == real(b)))
            except Unsupported:
                goals.append((f"frame.{k}", z3.BoolVal(a is b)))
        else:
            goals.append((f"frame.{k}", z3.BoolVal(a is b or a == b)))
    return goals


def tmp_vals(s, sym):
    """state fields as currently held in the temporaries of query_by_utility"""
    out = {}
    for tmp, f in sym.spec["tmps"].items():
        if tmp in s.env and f in sym.spec["fitted"]:
            out[f] = s.env[tmp]
    return out


def field_vals(s, sym):
    f = self_fields(s, sym)
    return {k: f[k] for k in sym.spec["fitted"] if k != "random_state_"}


# ------------------------------------------------------------------------------------------ query_by_utility
def unit_query(cls):
    F = MANAGERS[cls]["file"]

    def setup(E, st):
        sym = Sym(st, cls)
        n = z3.Int("n")
        st.assume(n >= 0)
        util = st.alloc(ArrData((n,), fresh_sel("util", "f"), "f"))
        sym.requires(st)
        st0 = st.fork()
        sym.n = n
        fields0 = dict(self_fields(st, sym))

        def inv(E, s, k, pre):
            q = s.get(s.env["queried_indices"])
            G = sym.G0 + z3.ToReal(to_int(q.n))
            N = sym.N0 + z3.ToReal(k)
            return [("Inv." + nm, g) for nm, g in sym.Inv_parts(tmp_vals(s, sym), G, N)] + list_sorted_below(q, k)

        def step(E, head, end, k):
            # C04 guard obligation: an index is appended in this iteration only if budget was left in the head state
            qh, qe = head.get(head.env["queried_indices"]), end.get(end.env["queried_indices"])
            granted = to_int(qe.n) > to_int(qh.n)
            return [("grant_only_with_budget", z3.Implies(granted, sym.guard(tmp_vals(head, sym)))),
                    ("appends_current_index", z3.Implies(granted, z3.And(to_int(qe.n) == to_int(qh.n) + 1,
                                                                        to_int(qe.sel(to_int(qh.n))) == k))),
                    ("at_most_one", z3.Or(to_int(qe.n) == to_int(qh.n), to_int(qe.n) == to_int(qh.n) + 1))] + bulk(head, granted, k)

        def bulk(head, granted, k):
            """managers that draw all uniform numbers at once (RandomBudgetManager): instance k is decided by the k-th number after the
            committed position (this is what makes a chunk equal to one-by-one processing: update advances the generator by one number per
            instance, unit budget.<cls>.update:ensures.C10.rng_advanced_by_n) -- granted iff budget is left, the instance has a utility
            and that number is at most the budget"""
            if not MANAGERS[cls].get("rng_bulk"):
                return []
            un, _uv = to_real(head.get(util).sel(k))
            draw = sym.stream(sym.pos0 + k)
            return [("C10.instance_k_decided_by_the_kth_draw", granted == z3.And(sym.guard(tmp_vals(head, sym)), z3.Not(un), draw <= sym.b))]
        return {"args": [sym.obj, util], "sym": sym, "fields0": fields0, "st0": st0,
                "loop_specs": {"loop0": LoopSpec(inv=inv, step=step)}}

    def post(E, ctx, outs):
        sym = ctx["sym"]
        rets = returns(outs)
        if not rets:
            E.oblige("reaches.return", [], z3.BoolVal(False))
        if "loop0" not in E.reached:
            E.oblige("loop.reached", [], z3.BoolVal(False))
        for o in rets:
            st = o.state
            if not (isinstance(o.value, Ref) and isinstance(st.get(o.value), ListData)):
                E.oblige("returns.list", st, False)
                continue
            q = st.get(o.value)
            G = sym.G0 + z3.ToReal(to_int(q.n))
            N = sym.N0 + z3.ToReal(sym.n)
            E.oblige("ensures.C04.bound", st, sym.bound(G, N))
            for nm, g in list_sorted_below(q, sym.n):
                E.oblige("ensures.C10.result." + nm, st, g)
            for nm, g in frame_goals(ctx["fields0"], ctx["st0"], st, sym):
                E.oblige("ensures.C03." + nm, st, g)
    return se_unit(f"budget.{cls}.query_by_utility", F, f"{cls}.query_by_utility", cls, setup, post, inline=INLINE,
                   lib_factory=stream_lib)


# ------------------------------------------------------------------------------------------ update
def step_summaries_of_query(cls):
    """symbolically execute ONE iteration of the real query_by_utility loop from a shared symbolic head state
    and return, per path, (hypotheses, granted, resulting numeric state, rng pos', aux')."""
    repo = get_repo()
    spec = MANAGERS[cls]
    fn = repo.func(spec["file"], f"{cls}.query_by_utility")
    st = State()
    sym = Sym(st, cls)
    n = z3.Int("nq")
    st.assume(n >= 0)
    util = st.alloc(ArrData((n,), fresh_sel("utilq", "f"), "f"))
    shared = {"u_t_": z3.Real("H_u_t"), "theta_": z3.Real("H_theta"), "u_": z3.Real("H_u"), "t_": z3.Int("H_t"),
              "P": z3.Int("H_pos"), "A": z3.Int("H_aux")}
    summaries = []

    def on_iter(E, s, k):
        for tmp, f in spec["tmps"].items():
            if tmp in s.env:
                s.env[tmp] = shared[f]
        rs = self_fields(s, sym).get("random_state_")
        if isinstance(rs, Ref):
            s.put(rs, RngData(sym.stream, shared["P"], shared["A"]))

    def step(E, head, end, k):
        qh, qe = head.get(head.env["queried_indices"]), end.get(end.env["queried_indices"])
        granted = to_int(qe.n) > to_int(qh.n)
        rs = self_fields(end, sym).get("random_state_")
        pos, aux = (end.get(rs).pos, end.get(rs).aux) if isinstance(rs, Ref) else (shared["P"], shared["A"])
        summaries.append(dict(pc=list(end.pc), granted=granted, vals={f: real(v) for f, v in tmp_vals(end, sym).items()},
                              pos=pos, aux=aux))
        return []
    E = Engine(repo, cls=cls, file=spec["file"], lib=stream_lib(), loop_specs={"loop0": LoopSpec(on_iter=on_iter, step=step)},
               inline=INLINE)
    E.verify(fn, st, [sym.obj, util], cls=cls)
    return shared, summaries


def cq_fn():
    """ghost: cq(k) = number of granted instances among the first k of the chunk (defined by unfolding)"""
    return z3.Function("cq", I, I)


def unit_update(cls, loop_label="loop0"):
    spec = MANAGERS[cls]
    F = spec["file"]

    def setup(E, st):
        sym = Sym(st, cls)
        n, d, nq = z3.Int("n"), z3.Int("d"), z3.Int("n_q")
        st.assume(n >= 0, d >= 1, nq >= 0)
        cand = st.alloc(ArrData((n, d), fresh_sel("cand", "f", 2), "f"))
        qi = ListData(nq, fresh_sel("qidx", "i"), "i")
        qref = st.alloc(qi)
        for nm, g in list_sorted_below(qi, n):      # requires: what query_by_utility ensures about its result
            st.assume(g)
        sym.requires(st)
        sym.n = n
        cq = cq_fn()
        st.assume(cq(0) == 0)
        shared, summaries = step_summaries_of_query(cls)
        has_rng = "random_state_" in spec["fitted"]
        cmp_rng = has_rng and spec.get("rng_equiv", False)

        def cur_rng(s):
            return s.get(self_fields(s, sym)["random_state_"]) if has_rng else None

        def flag_at(s, k):
            q = s.get(s.env["queried"])
            return real(q.sel(k)) != 0

        def inv(E, s, k, pre):
            f = self_fields(s, sym)
            return [("Inv." + nm, g) for nm, g in sym.Inv_parts(field_vals(s, sym), sym.G0 + z3.ToReal(cq(k)),
                                                                sym.N0 + z3.ToReal(k))] + \
                   [("cq", z3.And(cq(k) >= 0, cq(k) <= k)), ("budget_", real(f["budget_"]) == sym.b)]

        def on_iter(E, s, k):
            # ghost definition of cq by unfolding, and granted_ok for the current instance
            g = flag_at(s, k)
            s.assume(cq(k + 1) == cq(k) + z3.If(g, 1, 0))
            s.assume(z3.Implies(g, sym.guard(field_vals(s, sym))))

        def step(E, head, end, k):
            goals = []
            v0, v1 = field_vals(head, sym), field_vals(end, sym)
            g = flag_at(head, k)
            sub = [(shared[f], (real(v) if f != "t_" else to_int(v))) for f, v in v0.items()]
            if cmp_rng:
                sub += [(shared["P"], cur_rng(head).pos), (shared["A"], cur_rng(head).aux)]
            for i, sm in enumerate(summaries):
                hyp = z3.And(*[z3.substitute(c, *sub) for c in sm["pc"]]) if sm["pc"] else z3.BoolVal(True)
                grant = z3.substitute(sm["granted"], *sub)
                eqs = [real(v1[f]) == z3.substitute(sm["vals"][f], *sub) for f in v1]
                if cmp_rng:
                    eqs.append(cur_rng(end).pos == z3.substitute(sm["pos"], *sub))
                    eqs.append(cur_rng(end).aux == z3.substitute(sm["aux"], *sub))
                goals.append((f"C10.step_equiv.qpath{i}", z3.Implies(z3.And(hyp, grant == g), z3.And(*eqs))))
            return goals
        return {"args": [sym.obj, cand, qref], "sym": sym, "cq": cq, "summaries": summaries,
                "loop_specs": {loop_label: LoopSpec(inv=inv, on_iter=on_iter, step=step)}, "cur_rng": cur_rng}

    def post(E, ctx, outs):
        sym, cq = ctx["sym"], ctx["cq"]
        rets = returns(outs)
        if not rets:
            E.oblige("reaches.return", [], z3.BoolVal(False))
        if not ctx["summaries"]:
            E.oblige("query.step.extracted", [], z3.BoolVal(False))
        if loop_label not in E.reached:
            E.oblige("loop.reached." + loop_label, [], z3.BoolVal(False))
        for o in raises(outs):
            # update must accept every result of query (C10): no raising path under the precondition
            E.oblige("C10.update_does_not_raise", o.state, z3.BoolVal(False), exc=str(o.value))
        for o in rets:
            G, N = sym.G0 + z3.ToReal(cq(sym.n)), sym.N0 + z3.ToReal(sym.n)
            for nm, g in sym.Inv_parts(field_vals(o.state, sym), G, N):
                E.oblige("ensures.C04.Inv." + nm, o.state, g)
            E.oblige("ensures.C04.bound", o.state, sym.bound(G, N))
            if spec.get("rng_bulk"):
                rng = ctx["cur_rng"](o.state)
                # the committed generator advances by exactly one uniform draw per instance: the draws query simulated
                E.oblige("ensures.C10.rng_advanced_by_n", o.state, z3.And(rng.pos == sym.pos0 + sym.n, rng.aux == sym.aux0))
    return se_unit(f"budget.{cls}.update", F, f"{cls}.update", cls, setup, post, inline=set(INLINE) | {"update"},
                   lib_factory=stream_lib)


# ------------------------------------------------------------------------------------------ _validate_data
def unit_validate(cls):
    """From a freshly constructed object: validation creates every fitted attribute, establishes Inv with G=N=0,
    and a second validation changes nothing (idempotence, C03)."""
    spec = MANAGERS[cls]
    F = spec["file"]

    def setup(E, st):
        sym = Sym(st, cls, fitted=False)
        util = st.alloc(ArrData((z3.Int("n"),), fresh_sel("util", "f"), "f"))
        st.assume(z3.Int("n") >= 0)
        return {"args": [sym.obj, util], "sym": sym}

    def post(E, ctx, outs):
        sym = ctx["sym"]
        rets = returns(outs)
        if not rets:
            E.oblige("reaches.return", [], z3.BoolVal(False))
        for o in rets:
            f = self_fields(o.state, sym)
            for a in spec["fitted"] + ["budget_"]:
                E.oblige(f"init.creates.{a}", o.state, z3.BoolVal(a in f))
            if not all(a in f for a in spec["fitted"]):
                continue
            for nm, g in sym.Inv_parts(field_vals(o.state, sym), z3.RealVal(0), z3.RealVal(0)):
                E.oblige("init.C04.Inv." + nm, o.state, g)
            E.oblige("init.budget_in_(0,1]", o.state, z3.And(real(f["budget_"]) > 0, real(f["budget_"]) <= 1))
            if "w" in f:
                E.oblige("init.w_positive", o.state, to_int(f["w"]) >= 1)
            # idempotence: run the real validation a second time on the resulting state
            st2 = o.state.fork()
            fields1 = dict(f)
            st1 = o.state.fork()
            E2 = Engine(E.repo, cls=cls, file=F, lib=E.lib, inline=INLINE)
            outs2 = E2.verify(E.repo.resolve_method(cls, "_validate_data")[1], st2, [sym.obj, ctx["args"][1]], cls=cls)
            for o2 in outs2:
                if o2.kind != "return":
                    E.oblige("idempotent.no_raise", o2.state, z3.BoolVal(False))
                    continue
                for nm, g in frame_goals(fields1, st1, o2.state, sym):
                    E.oblige("idempotent.C03." + nm, o2.state, g)
    ci, m = get_repo().resolve_method(cls, "_validate_data")
    return se_unit(f"budget.{cls}._validate_data", ci.file, f"{ci.name}._validate_data", cls, setup, post, inline=INLINE,
                   lib_factory=stream_lib)


UNITS = {}
for _c in MANAGERS:
    UNITS[f"{_c}.query_by_utility"] = unit_query(_c)
    UNITS[f"{_c}._validate_data"] = unit_validate(_c)
UNITS["FixedUncertaintyBudgetManager.update"] = unit_update("FixedUncertaintyBudgetManager", "EstimatedBudgetZliobaite.update.loop0")
UNITS["VariableUncertaintyBudgetManager.update"] = unit_update("VariableUncertaintyBudgetManager")
UNITS["RandomVariableUncertaintyBudgetManager.update"] = unit_update("RandomVariableUncertaintyBudgetManager")
UNITS["SplitBudgetManager.update"] = unit_update("SplitBudgetManager")
UNITS["RandomBudgetManager.update"] = unit_update("RandomBudgetManager", "EstimatedBudgetZliobaite.update.loop0")
UNITS["DensityBasedSplitBudgetManager.update"] = unit_update("DensityBasedSplitBudgetManager")
