"""Epilogue contracts of the pool strategies with the 'simple epilogue' shape — C01, C02 (and the hand-over of C06).

The WHOLE real `query` of each strategy is executed symbolically. Calls without a contract (model fitting, scoring, kernels)
are abstracted to opaque values (listed in the evidence); `_validate_data`, `_transform_candidates` are replaced by their
contracts (proved in contracts/pool_base.py) and `simple_batch` by a call-site check. Obligations per normal path and mode:

  E1  the array handed to simple_batch is NaN exactly off `mapping` (candidates=None / indices), under
      [A-score]: the score expression yields len(X_cand) non-NaN numbers — itself checked at run time by the bounded stand-in;
      for feature-row candidates the array is the score value itself (E1 is [A-score] only)
  E2  the batch size handed over is the clipped one returned by _validate_data
  E3  the generator handed over is self.random_state_
  E4  query returns the value of simple_batch unchanged (so the C01/C02 postconditions of simple_batch are those of query)
  E0  every normal path ends in that return (no other way out of query)
With the contract of simple_batch (contracts/selection.py): |result| = min(batch_size', #non-NaN) = min(batch_size, n_cand),
distinct, only candidates; utility rows as in C02.
"""
import ast
import z3

from pyvc.se import (State, ArrData, ListData, ObjData, RngData, Opaque, Ref, LoopSpec, Engine, fresh, fresh_fn, fresh_sel,
                     to_real, to_int, I, R, B, USort, is_z3, Unsupported, z3bool, _Raise, mk_fv, FV)
from pyvc.unit import se_unit, returns, raises, get_repo
from pyvc.lib import Lib, CNT, mask_array, as_array, arr_of, membership
from .pool_base import pool_lib, world, strategy_obj, MISSING, sym_of, SEEDED

# (file, class, extra constructor fields, modes)
STRATEGIES = [
    ("skactiveml/pool/_random_sampling.py", "RandomSampling", {}, ("none", "idx", "rows")),
    ("skactiveml/pool/_uncertainty_sampling.py", "UncertaintySampling", {"method": "least_confident"}, ("none", "idx", "rows")),
    ("skactiveml/pool/_query_by_committee.py", "QueryByCommittee", {"method": "KL_divergence"}, ("none", "idx", "rows")),
    ("skactiveml/pool/_probabilistic_al.py", "ProbabilisticAL", {}, ("none", "idx", "rows")),
    ("skactiveml/pool/_epistemic_uncertainty_sampling.py", "EpistemicUncertaintySampling", {}, ("none", "idx", "rows")),
    ("skactiveml/pool/_contrastive_al.py", "ContrastiveAL", {}, ("none", "idx", "rows")),
    ("skactiveml/pool/_expected_model_change_maximization.py", "ExpectedModelChangeMaximization", {}, ("none", "idx", "rows")),
    ("skactiveml/pool/_expected_model_output_change.py", "ExpectedModelOutputChange", {}, ("none", "idx", "rows")),
    ("skactiveml/pool/_expected_model_variance.py", "ExpectedModelVarianceReduction", {}, ("none", "idx", "rows")),
    ("skactiveml/pool/_information_gain_maximization.py", "KLDivergenceMaximization", {}, ("none", "idx", "rows")),
    ("skactiveml/pool/_expected_error_reduction.py", "MonteCarloEER", {}, ("none", "idx", "rows")),
    ("skactiveml/pool/_expected_error_reduction.py", "ValueOfInformationEER", {}, ("none", "idx")),
    ("skactiveml/pool/_quire.py", "Quire", {}, ("none", "idx")),
    ("skactiveml/pool/_cost_embedding_al.py", "CostEmbeddingAL", {}, ("none", "idx", "rows")),
    ("skactiveml/pool/_wrapper.py", "ParallelUtilityEstimationWrapper", {}, ("none", "idx", "rows")),
]


def epi_lib(ctx):
    L = pool_lib()

    def validate_contract(E, st, recv, args, kw, node):
        """contract of SingleAnnotatorPoolQueryStrategy._validate_data (units pool_base._validate_data.*)"""
        names = ["X", "y", "candidates", "batch_size", "return_utilities", "reset", "check_X_dict"]
        a = dict(zip(names, args))
        a.update(kw)
        X, y, cand, bs, ru = a["X"], a["y"], a["candidates"], a["batch_size"], a["return_utilities"]
        w = ctx["w"]
        od = st.get(recv)
        nf = dict(od.fields)
        nf["missing_label_"] = nf.get("missing_label")
        rng = st.alloc(RngData(fresh_fn("stream", I, R), fresh("pos", I), fresh("aux", I)))
        nf["random_state_"] = rng
        st.put(recv, ObjData(od.cls, nf))
        ctx["rng"] = rng
        st.assume(to_int(bs) >= 1)                        # check_scalar(batch_size, min_val=1) else raise
        bs2 = fresh("batch_size_clipped", I)
        st.assume(bs2 == z3.If(to_int(bs) <= w["n_cand"], to_int(bs), w["n_cand"]))
        ctx["bs_clipped"] = bs2
        cand2 = cand
        if w["mode"] == "idx":
            cand2 = w["cand_validated"]
        return (X, y, cand2, bs2, ru)

    def transform_contract(E, st, recv, args, kw, node):
        """contract of _transform_candidates (units pool_base._transform_candidates.*)"""
        names = ["candidates", "X", "y", "enforce_mapping", "allow_only_unlabeled"]
        a = dict(zip(names, args))
        a.update(kw)
        w = ctx["w"]
        if w["mode"] == "rows":
            if a.get("enforce_mapping") is True:
                raise _Raise("MappingError", st)
            return (a["candidates"], None)
        mp = w["mapping"]
        Xc = st.alloc(ArrData((mp_len(st, mp), w["d"]), fresh_sel("X_cand", "o", 2), "o"))
        ctx["X_cand"] = Xc
        return (Xc, mp)

    def mp_len(st, mp):
        return st.get(mp).shape[0]
    for cls in ("SingleAnnotatorPoolQueryStrategy", "PoolQueryStrategy"):
        L.contracts[f"{cls}._validate_data"] = validate_contract
        L.contracts[f"{cls}._transform_candidates"] = transform_contract

    def simple_batch_site(E, st, args, kw, node):
        names = ["utilities", "random_state", "batch_size", "return_utilities", "method"]
        a = dict(zip(names, args))
        a.update(kw)
        res = Opaque("simple_batch_result")
        ctx["sites"].append(dict(state=st.fork(), U=a.get("utilities"), rs=a.get("random_state"), bs=a.get("batch_size"),
                                 ru=a.get("return_utilities"), result=res, line=getattr(node, "lineno", 0)))
        return res
    L.functions["simple_batch"] = simple_batch_site

    # opaque score values scattered through `mapping`: [A-score]
    orig_store = L.array_store

    def array_store(E, d, sl, v, st, node):
        if isinstance(v, Opaque) and d.kind == "f" and d.ndim == 1:
            idx = E.eval(sl, st)
            ia = as_array(idx, st) if isinstance(idx, Ref) else None
            if ia is not None and ia.kind == "i" and ia.ndim == 1:
                mem, wit = membership(E, ia, st)
                sc = fresh_fn("score", I, R)
                old = d.sel
                ctx["assumed"].add("A-score: " + ast.unparse(node.value if hasattr(node, "value") else node)[:60])
                return ArrData(d.shape, lambda j: _ite(mem(j), sc(wit(j)), old(j)), "f")
            if is_z3(idx) and z3.is_int(idx):
                # a single opaque score stored at one position: a number ([A-score])
                sc = fresh("score", R)
                old = d.sel
                ctx["assumed"].add("A-score: " + ast.unparse(node)[:60])
                return ArrData(d.shape, lambda j, i0=idx: _ite(j == i0, sc, old(j)), "f")
        return orig_store(E, d, sl, v, st, node)
    L.array_store = array_store

    orig_binop = L.array_binop

    def array_binop(E, op, l, r, st):
        # tracked float array (x) opaque weights: values unknown, NaN pattern kept under [A-weight] (weights are numbers)
        for a_, b_ in ((l, r), (r, l)):
            d = arr_of(a_, st)
            if d is not None and d.kind == "f" and d.ndim == 1 and isinstance(b_, Opaque):
                ctx["assumed"].add("A-weight: the weight array multiplied onto the utilities contains numbers only")
                v = fresh_fn("weighted", I, R)
                return st.alloc(ArrData(d.shape, lambda j, d=d: mk_fv(to_real(d.sel(j))[0], v(j)), "f"))
        return orig_binop(E, op, l, r, st)
    L.array_binop = array_binop
    return L


def _ite(c, a, b):
    na, va = to_real(a)
    nb, vb = to_real(b)
    return mk_fv(z3.If(c, na, nb), z3.If(c, va, vb))


def QUIRE_SPECS(ctx):
    """Quire fills utilities_cand in a loop over mapping: after k iterations exactly mapping[0..k) are non-NaN ([A-score])"""
    def inv(E, s, k, pre):
        U = arr_of(s.env.get("utilities_cand"), s)
        mp = arr_of(ctx["w"]["mapping"], s)
        if U is None or mp is None:
            return [("quire.utilities_tracked", z3.BoolVal(False))]
        j, t = z3.Ints("j t")
        un = to_real(U.sel(j))[0]
        n = ctx["w"]["n"]
        return [("quire.filled_prefix", z3.ForAll([j], z3.Implies(z3.And(0 <= j, j < n),
                                                                 un == z3.Not(z3.Exists([t], z3.And(0 <= t, t < k, to_int(mp.sel(t)) == j))))))]
    return {"loop0": LoopSpec(inv=inv)}


def unit_epilogue(file, cls, extra, mode):
    ctx = {"sites": [], "assumed": set()}

    def setup(E, st):
        ctx["sites"].clear()
        ctx["assumed"].clear()
        n, d, X, y = world(st)
        repo = E.repo
        fields = {p: Opaque("param:" + p) for p in repo.init_params(cls)}
        fields.update(extra)
        fields["__open__"] = True
        selfo = st.alloc(ObjData(cls, fields))
        y0 = st.get(y)
        ml = fields["missing_label"]
        unl = lambda j: MISSING(y0.sel(j).sym, sym_of(ml))
        A = mask_array(unl)
        w = {"mode": mode, "n": n, "d": d}
        if mode == "none":
            w["n_cand"] = CNT(A, n)
            pos = fresh_fn("unl_pos", I, I)
            m = fresh("n_unl", I)
            t, u, j = z3.Ints("t u j")
            inv = fresh_fn("unl_rank", I, I)
            st.assume(m == CNT(A, n), m >= 0, m <= n)
            st.assume(z3.ForAll([t], z3.Implies(z3.And(0 <= t, t < m), z3.And(0 <= pos(t), pos(t) < n, unl(pos(t))))))
            st.assume(z3.ForAll([t, u], z3.Implies(z3.And(0 <= t, t < u, u < m), pos(t) < pos(u))))
            st.assume(z3.ForAll([j], z3.Implies(z3.And(0 <= j, j < n, unl(j)), z3.And(0 <= inv(j), inv(j) < m, pos(inv(j)) == j))))
            w["mapping"] = st.alloc(ArrData((m,), lambda i: pos(i), "i"))
            w["is_cand"] = lambda jj: z3.And(0 <= jj, jj < n, unl(jj))
            cand = None
        elif mode == "idx":
            m = fresh("n_idx", I)
            c = fresh_fn("cand", I, I)
            t, u = z3.Ints("t u")
            st.assume(m >= 0)
            st.assume(z3.ForAll([t, u], z3.Implies(z3.And(0 <= t, t < u, u < m), c(t) < c(u))))          # sorted, distinct (check_indices)
            st.assume(z3.ForAll([t], z3.Implies(z3.And(0 <= t, t < m), z3.And(0 <= c(t), c(t) < n))))
            w["n_cand"] = m
            w["cand_validated"] = st.alloc(ArrData((m,), lambda i: c(i), "i"))
            w["mapping"] = w["cand_validated"]
            w["is_cand"] = lambda jj: z3.Exists([t], z3.And(0 <= t, t < m, c(t) == jj))
            cand = st.alloc(ArrData((fresh("m_raw", I),), fresh_sel("cand_raw", "i"), "i"))
        else:
            m = fresh("n_rows", I)
            st.assume(m >= 0)
            w["n_cand"] = m
            cand = st.alloc(ArrData((m, d), fresh_sel("cand_rows", "o", 2), "o"))
        ctx["w"] = w
        owner, fn = repo.resolve_method(cls, "query")
        from contracts.frames import analysis
        E.frame = analysis()
        names = [a.arg for a in fn.args.args[1:]]
        bs = z3.Int("batch_size")
        ru = z3.Bool("return_utilities")
        kwargs = {}
        for nm in names + [a.arg for a in fn.args.kwonlyargs]:
            if nm == "X":
                kwargs[nm] = X
            elif nm == "y":
                kwargs[nm] = y
            elif nm == "candidates":
                kwargs[nm] = cand
            elif nm == "batch_size":
                kwargs[nm] = bs
            elif nm == "return_utilities":
                kwargs[nm] = ru
            else:
                kwargs[nm] = Opaque("arg:" + nm)
        if fn.args.kwarg:
            pass
        ctx["bs"], ctx["ru"] = bs, ru
        return {"args": [selfo], "kwargs": kwargs}

    def post(E, ctx2, outs):
        w = ctx["w"]
        n = w["n"]
        rets = returns(outs)
        if not rets:
            E.oblige("E0.reaches.return", [], z3.BoolVal(False))
        results = {id(s["result"]): s for s in ctx["sites"]}
        for o in rets:
            site = results.get(id(o.value))
            E.oblige("E4.returns_the_value_of_simple_batch", o.state, z3.BoolVal(site is not None))
        for s in ctx["sites"]:
            st = s["state"]
            E.oblige("E2.batch_size_is_the_clipped_one", st, z3.BoolVal(is_z3(s["bs"])) if not is_z3(s["bs"]) else s["bs"] == ctx["bs_clipped"])
            E.oblige("E3.random_state_is_self.random_state_", st, z3.BoolVal(isinstance(s["rs"], Ref) and s["rs"].id == ctx["rng"].id))
            E.oblige("E3b.return_utilities_forwarded", st, z3.BoolVal(is_z3(s["ru"])) if not is_z3(s["ru"]) else s["ru"] == ctx["ru"])
            U = arr_of(s["U"], st)
            if w["mode"] == "rows":
                E.oblige("E1.rows.utilities_are_the_score_value", st, z3.BoolVal(isinstance(s["U"], Opaque) or U is not None))
                continue
            if U is None or U.ndim != 1 or U.kind != "f":
                E.oblige("E1.utilities_tracked", st, z3.BoolVal(False))
                continue
            j = z3.Int("j")
            un = to_real(U.sel(j))[0]
            E.oblige("E1.length_is_len(X)", st, to_int(U.shape[0]) == n)
            E.oblige("E1.nan_exactly_off_the_candidates", st, z3.ForAll([j], z3.Implies(z3.And(0 <= j, j < n), un == z3.Not(w["is_cand"](j)))))
        if not ctx["sites"]:
            E.oblige("E0.simple_batch_reached", [], z3.BoolVal(False))
    owner, _fn = get_repo().resolve_method(cls, "query")
    specs = QUIRE_SPECS(ctx) if cls == "Quire" else None
    # a strategy's own _validate_data / _validate_init_params (which call the base contract through super()) are executed as they are
    inline = set()
    vo, _ = get_repo().resolve_method(cls, "_validate_data")
    if vo is not None and vo.name not in ("SingleAnnotatorPoolQueryStrategy", "PoolQueryStrategy"):
        inline |= {f"{vo.name}._validate_data", "_validate_init_params"}
    for c in get_repo().mro(cls)[1:]:
        if get_repo().has_cls(c) and "query" in get_repo().cls(c).methods and c != owner.name:
            inline.add(f"{c}.query")          # super().query(...) of a thin delegation is executed as it is
    inner = se_unit(f"epilogue.{cls}.{mode}", owner.file, f"{owner.name}.query", cls, setup, post, lib_factory=lambda: epi_lib(ctx),
                    max_paths=3000, loop_specs=specs, inline=inline)

    def runner(tier):
        r = inner(tier)
        r["assumed"] = sorted(ctx["assumed"])
        return r
    return runner


UNITS = {}
for _f, _c, _x, _modes in STRATEGIES:
    for _m in _modes:
        UNITS[f"epilogue.{_c}.{_m}"] = unit_epilogue(_f, _c, _x, _m)
