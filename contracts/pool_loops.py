"""Contracts for pool strategies whose batch is built by their own sequential loop — C01 / C02 beyond the 'simple epilogue' strategies.

k_greedy_center (skactiveml/pool/_core_set.py; CoreSet.query hands it the validated data):
  requires  mapping = strictly increasing sample indices (the candidates); batch_size <= number of unlabeled candidates
            (CoreSet scores a labeled candidate NaN: the known limitation behind 'labeled candidates', see DESIGN.md C01)
  assumed   pairwise_distances_argmin_min returns finite distances; rand_argmax contract (selection.rand_argmax, proved)
  ensures   query_indices: batch_size pairwise distinct unlabeled candidates;
            utilities[t, j] is NaN exactly for j outside the candidates, for labeled j and for j picked in steps 0..t-1   (C02)
  loop invariant: ghost mask sequence GHc(t) (selectable samples before step t), CNT(GHc(t)) = cnt0 - t, rows 0..i-1 of utilities
            have the NaN pattern of GHc(t), picks are members of GHc(t) and leave it.
"""
import z3

from pyvc.se import (State, ArrData, ListData, ObjData, RngData, Opaque, Ref, LoopSpec, fresh, fresh_fn, fresh_sel, to_int, to_real, I, R, B, USort,
                     z3bool, Unsupported, is_z3, mk_fv)
from pyvc.unit import se_unit, returns, raises
from pyvc.lib import as_array, arr_of, CNT, mask_array, cnt_lemma_instances, cnt_point_update
from .pool_base import pool_lib, MISSING
from .selection import rand_argmax_contract

FC = "skactiveml/pool/_core_set.py"
import os
DIAG = bool(os.environ.get("DIAG"))
GHc = z3.Function("GH_coreset", I, z3.ArraySort(I, B))


def loops_lib():
    L = rand_argmax_contract(pool_lib())

    @L.fn("check_array", "column_or_1d")
    def _same(E, st, args, kw, node):
        return args[0]

    @L.fn("check_consistent_length")
    def _noop(E, st, args, kw, node):
        return None

    @L.fn("check_random_state")
    def _crs(E, st, args, kw, node):
        v = args[0]
        if isinstance(v, Ref) and isinstance(st.get(v), RngData):
            return v
        return st.alloc(RngData(fresh_fn("stream", I, R), fresh("pos", I), fresh("aux", I)))

    @L.fn("pairwise_distances_argmin_min")
    def _pdam(E, st, args, kw, node):
        """sklearn: (argmin, min distance) per row of the first argument; distances are finite and >= 0"""
        A = as_array(args[0], st)
        dv = fresh_fn("min_dist", I, R)
        t = z3.Int("pd_t")
        st.assume(z3.ForAll([t], dv(t) >= 0))
        return (Opaque("argmin"), st.alloc(ArrData((A.shape[0],), lambda i: mk_fv(z3.BoolVal(False), dv(i)), "f")))

    @L.fn("np.minimum")
    def _minimum(E, st, args, kw, node):
        """np.minimum: elementwise minimum, NaN if either operand is NaN"""
        a, b = as_array(args[0], st), as_array(args[1], st)
        if a is None or b is None or a.ndim != 1 or b.ndim != 1:
            raise Unsupported("np.minimum: 1-D arrays")

        def sel(i):
            na, va = to_real(a.sel(i))
            nb, vb = to_real(b.sel(i))
            return mk_fv(z3.Or(na, nb), z3.If(va <= vb, va, vb))
        return st.alloc(ArrData(a.shape, sel, "f"))
    return L


def unit_k_greedy_center(rows=False):
    """rows=False: index candidates (mapping into X). rows=True: the call CoreSet.query makes for feature-row candidates: the m candidate
    rows come first (all unlabeled), the labeled samples follow, mapping = arange(m), n_new_cand = m; utilities have m columns."""
    def setup(E, st):
        N, d, m, bs = z3.Int("N"), z3.Int("d"), z3.Int("m"), z3.Int("batch_size")
        st.assume(N >= 1, d >= 1, m >= 0)
        X = st.alloc(ArrData((N, d), fresh_sel("X", "o", 2), "o"))
        yd = ArrData((N,), fresh_sel("y", "o"), "o")
        ml = Opaque("missing_label")
        t, u, j = z3.Ints("t u j")
        if rows:
            st.assume(m <= N)
            mp = ArrData((m,), lambda i: i, "i")
            st.assume(z3.ForAll([j], z3.Implies(z3.And(0 <= j, j < N), MISSING(yd.sel(j).sym, ml.sym) == (j < m))))
        else:
            mp = ArrData((m,), fresh_sel("mapping", "i"), "i")
        mp.strictly_increasing = True
        st.assume(z3.ForAll([t, u], z3.Implies(z3.And(0 <= t, t < u, u < m), to_int(mp.sel(t)) < to_int(mp.sel(u)))))
        st.assume(z3.ForAll([t], z3.Implies(z3.And(0 <= t, t < m), z3.And(0 <= to_int(mp.sel(t)), to_int(mp.sel(t)) < N))))
        if rows:
            in_map = lambda jj: z3.And(0 <= jj, jj < m)              # mapping = arange(m)
        else:
            in_map = lambda jj: z3.Exists([t], z3.And(0 <= t, t < m, to_int(mp.sel(t)) == jj))
        sel0 = lambda jj: z3.And(in_map(jj), MISSING(yd.sel(jj).sym, ml.sym))
        A0 = mask_array(sel0)
        NC = m if rows else N                      # number of utility columns
        cnt0 = z3.Int("cnt0")                       # named, so that facts about it survive when lambda-carrying hypotheses are dropped
        st.assume(cnt0 == CNT(A0, NC))
        for f in cnt_lemma_instances(A0, NC):
            st.assume(f)
        st.assume(GHc(0) == A0)
        st.assume(bs >= 1, bs <= cnt0)
        st.assume(cnt0 <= NC)                       # instance of lemmas.cnt.bounds (also among cnt_lemma_instances, restated lambda-free)
        rng = st.alloc(RngData(z3.Function("rng_stream", I, R), z3.Int("pos0"), z3.Int("aux0")))
        ctx = {"NC": NC, "N": N, "m": m, "bs": bs, "y": yd, "ml": ml, "mp": mp, "sel0": sel0, "A0": A0, "cnt0": cnt0, "in_map": in_map}

        def q_at(s, tt):
            return to_int(s.get(s.env["query_indices"]).sel(tt))

        def inv(E, s, k, pre):
            U = s.get(s.env["utilities"])
            t2 = z3.Int("t2")
            Un, Uv = to_real(U.sel(t2, j))
            inr = z3.And(0 <= j, j < NC)
            return [
                ("shapes", z3.And(to_int(U.shape[0]) == bs, to_int(U.shape[1]) == NC, to_int(s.get(s.env["query_indices"]).shape[0]) == bs)),
                ("ghost_def", z3.ForAll([t], z3.Implies(z3.And(1 <= t, t <= k), GHc(t) == z3.Store(GHc(t - 1), q_at(s, t - 1), False)))),
                ("ghost_subset", z3.ForAll([t, j], z3.Implies(z3.And(0 <= t, t <= k, inr, GHc(t)[j]), A0[j]))),
                ("picks_valid", z3.ForAll([t], z3.Implies(z3.And(0 <= t, t < k), z3.And(0 <= q_at(s, t), q_at(s, t) < NC, GHc(t)[q_at(s, t)])))),
                ("picks_stay_masked", z3.ForAll([t, t2], z3.Implies(z3.And(0 <= t, t < t2, t2 <= k), z3.Not(GHc(t2)[q_at(s, t)])))),
                ("ghost_count", CNT(GHc(k), NC) == cnt0 - k),
                ("rows_nan", z3.ForAll([t2, j], z3.Implies(z3.And(0 <= t2, t2 < k, inr), Un == z3.Not(GHc(t2)[j])))),
            ]

        def on_iter(E, s, k):
            for f in cnt_lemma_instances(GHc(k), NC):
                s.assume(f)

        def end_assume(E, head, end, k):
            r = q_at(end, k)
            end.assume(GHc(k + 1) == z3.Store(GHc(k), r, False))
            end.assume(cnt_point_update(GHc(k), r, NC))
        ctx["loop_specs"] = {"loop0": LoopSpec(inv=inv, on_iter=on_iter, end_assume=end_assume)}
        ctx["q_at"] = q_at
        ctx["args"] = [X, st.alloc(yd)]
        ctx["kwargs"] = {"batch_size": bs, "random_state": rng, "missing_label": ml, "mapping": st.alloc(mp)}
        if rows:
            ctx["kwargs"]["n_new_cand"] = m
        return ctx

    def post(E, ctx, outs):
        rets = returns(outs)
        if not rets:
            E.oblige("reaches.return", [], z3.BoolVal(False))
        for o in raises(outs):
            E.oblige("does_not_raise", o.state, z3.BoolVal(False), exc=str(o.value))
        N, bs = ctx["NC"], ctx["bs"]
        t, t2, j = z3.Ints("t t2 j")
        for o in rets:
            st = o.state
            if not (isinstance(o.value, tuple) and len(o.value) == 2):
                E.oblige("returns.pair", st, False)
                continue
            q, U = arr_of(o.value[0], st), arr_of(o.value[1], st)
            ok = q is not None and U is not None and q.ndim == 1 and U.ndim == 2 and q.kind == "i"
            E.oblige("C01.returns_integer_indices_and_utilities", st, z3.BoolVal(bool(ok)))
            if not ok:
                continue
            qa = lambda tt: to_int(q.sel(tt))
            E.oblige("C01.batch_size_indices", st, to_int(q.shape[0]) == bs)
            E.oblige("C01.indices_are_unlabeled_candidates", st, z3.ForAll([t], z3.Implies(z3.And(0 <= t, t < bs), z3.And(0 <= qa(t), qa(t) < N, ctx["A0"][qa(t)]))))
            E.oblige("C01.indices_pairwise_distinct", st, z3.ForAll([t, t2], z3.Implies(z3.And(0 <= t, t < t2, t2 < bs), qa(t) != qa(t2))))
            Un = to_real(U.sel(t2, j))[0]
            E.oblige("C02.utilities_shape", st, z3.And(to_int(U.shape[0]) == bs, to_int(U.shape[1]) == N))
            # stated recursively (as for simple_batch): row t is NaN exactly off S_t, S_0 = unlabeled candidates, S_{t+1} = S_t minus pick t;
            # this is 'NaN off the candidates and at the picks 0..t-1' unfolded
            E.oblige("C02.selectable_sets_shrink_by_the_pick", st, z3.And(GHc(0) == ctx["A0"],
                     z3.ForAll([t], z3.Implies(z3.And(0 <= t, t < bs), GHc(t + 1) == z3.Store(GHc(t), qa(t), False)))))
            E.oblige("C02.row_t_is_NaN_exactly_off_the_selectable_set_of_step_t", st, z3.ForAll([t2, j], z3.Implies(z3.And(0 <= t2, t2 < bs, 0 <= j, j < N),
                     Un == z3.Not(GHc(t2)[j]))))
    return se_unit(f"pool_loops.k_greedy_center.{'row_candidates' if rows else 'index_candidates'}", FC, "k_greedy_center", None, setup, post, lib_factory=loops_lib,
                   inline={"_update_distances"})


UNITS = {"C01.C02.k_greedy_center.idx": unit_k_greedy_center(False), "C01.C02.k_greedy_center.rows": unit_k_greedy_center(True)}
