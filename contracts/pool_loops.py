"""Contracts for pool strategies whose batch is built by their own sequential loop — C01 / C02 beyond the 'simple epilogue' strategies.

k_greedy_center (skactiveml/pool/_core_set.py; CoreSet.query hands it the validated data):
  requires  mapping = strictly increasing sample indices (the candidates); batch_size <= number of unlabeled candidates
            (CoreSet scores a labeled candidate NaN: the known limitation behind 'labeled candidates', see DESIGN.md C01)
  assumed   pairwise_distances_argmin_min returns finite distances; rand_argmax contract (selection.rand_argmax, proved)
  ensures   query_indices: batch_size pairwise distinct unlabeled candidates;
            utilities[t, j] is NaN exactly for j outside the candidates, for labeled j and for j picked in steps 0..t-1   (C02)
  loop invariant: ghost mask sequence GHc(t) (selectable samples before step t), CNT(GHc(t)) = cnt0 - t, rows 0..i-1 of utilities
            have the NaN pattern of GHc(t), picks are members of GHc(t) and leave it.
"""
import z3

from pyvc.se import (State, ArrData, ListData, ObjData, RngData, Opaque, Ref, LoopSpec, fresh, fresh_fn, fresh_sel, to_int, to_real, I, R, B, USort,
                     z3bool, Unsupported, is_z3, mk_fv)
from pyvc.unit import se_unit, returns, raises
from pyvc.lib import as_array, arr_of, CNT, mask_array, cnt_lemma_instances, cnt_point_update
from .pool_base import pool_lib, MISSING
from .selection import rand_argmax_contract

FC = "skactiveml/pool/_core_set.py"
import os
DIAG = bool(os.environ.get("DIAG"))
GHc = z3.Function("GH_coreset", I, z3.ArraySort(I, B))


def loops_lib():
    L = rand_argmax_contract(pool_lib())

    @L.fn("check_array", "column_or_1d")
    def _same(E, st, args, kw, node):
        return args[0]

    @L.fn("check_consistent_length")
    def _noop(E, st, args, kw, node):
        return None

    @L.fn("check_random_state")
    def _crs(E, st, args, kw, node):
        v = args[0]
        if isinstance(v, Ref) and isinstance(st.get(v), RngData):
            return v
        return st.alloc(RngData(fresh_fn("stream", I, R), fresh("pos", I), fresh("aux", I)))

    @L.fn("pairwise_distances_argmin_min")
    def _pdam(E, st, args, kw, node):
        """sklearn: (argmin, min distance) per row of the first argument; distances are finite and >= 0"""
        A = as_array(args[0], st)
        dv = fresh_fn("min_dist", I, R)
        t = z3.Int("pd_t")
        st.assume(z3.ForAll([t], dv(t) >= 0))
        return (Opaque("argmin"), st.alloc(ArrData((A.shape[0],), lambda i: mk_fv(z3.BoolVal(False), dv(i)), "f")))

    @L.fn("np.minimum")
    def _minimum(E, st, args, kw, node):
        """np.minimum: elementwise minimum, NaN if either operand is NaN"""
        a, b = as_array(args[0], st), as_array(args[1], st)
        if a is None or b is None or a.ndim != 1 or b.ndim != 1:
            raise Unsupported("np.minimum: 1-D arrays")

        def sel(i):
            na, va = to_real(a.sel(i))
            nb, vb = to_real(b.sel(i))
            return mk_fv(z3.Or(na, nb), z3.If(va <= vb, va, vb))
        return st.alloc(ArrData(a.shape, sel, "f"))
    return L


def unit_k_greedy_center(rows=False):
    """rows=False: index candidates (mapping into X). rows=True: the call CoreSet.query makes for feature-row candidates: the m candidate
    rows come first (all unlabeled), the labeled samples follow, mapping = arange(m), n_new_cand = m; utilities have m columns."""
    def setup(E, st):
        N, d, m, bs = z3.Int("N"), z3.Int("d"), z3.Int("m"), z3.Int("batch_size")
        st.assume(N >= 1, d >= 1, m >= 0)
        X = st.alloc(ArrData((N, d), fresh_sel("X", "o", 2), "o"))
        yd = ArrData((N,), fresh_sel("y", "o"), "o")
        ml = Opaque("missing_label")
        t, u, j = z3.Ints("t u j")
        if rows:
            st.assume(m <= N)
            mp = ArrData((m,), lambda i: i, "i")
            st.assume(z3.ForAll([j], z3.Implies(z3.And(0 <= j, j < N), MISSING(yd.sel(j).sym, ml.sym) == (j < m))))
        else:
            mp = ArrData((m,), fresh_sel("mapping", "i"), "i")
        mp.strictly_increasing = True
        st.assume(z3.ForAll([t, u], z3.Implies(z3.And(0 <= t, t < u, u < m), to_int(mp.sel(t)) < to_int(mp.sel(u)))))
        st.assume(z3.ForAll([t], z3.Implies(z3.And(0 <= t, t < m), z3.And(0 <= to_int(mp.sel(t)), to_int(mp.sel(t)) < N))))
        if rows:
            in_map = lambda jj: z3.And(0 <= jj, jj < m)              # mapping = arange(m)
        else:
            in_map = lambda jj: z3.Exists([t], z3.And(0 <= t, t < m, to_int(mp.sel(t)) == jj))
        sel0 = lambda jj: z3.And(in_map(jj), MISSING(yd.sel(jj).sym, ml.sym))
        A0 = mask_array(sel0)
        NC = m if rows else N                      # number of utility columns
        cnt0 = z3.Int("cnt0")                       # named, so that facts about it survive when lambda-carrying hypotheses are dropped
        st.assume(cnt0 == CNT(A0, NC))
        for f in cnt_lemma_instances(A0, NC):
            st.assume(f)
        st.assume(GHc(0) == A0)
        st.assume(bs >= 1, bs <= cnt0)
        st.assume(cnt0 <= NC)                       # instance of lemmas.cnt.bounds (also among cnt_lemma_instances, restated lambda-free)
        rng = st.alloc(RngData(z3.Function("rng_stream", I, R), z3.Int("pos0"), z3.Int("aux0")))
        ctx = {"NC": NC, "N": N, "m": m, "bs": bs, "y": yd, "ml": ml, "mp": mp, "sel0": sel0, "A0": A0, "cnt0": cnt0, "in_map": in_map}

        def q_at(s, tt):
            return to_int(s.get(s.env["query_indices"]).sel(tt))

        def inv(E, s, k, pre):
            U = s.get(s.env["utilities"])
            t2 = z3.Int("t2")
            Un, Uv = to_real(U.sel(t2, j))
            inr = z3.And(0 <= j, j < NC)
            return [
                ("shapes", z3.And(to_int(U.shape[0]) == bs, to_int(U.shape[1]) == NC, to_int(s.get(s.env["query_indices"]).shape[0]) == bs)),
                ("ghost_def", z3.ForAll([t], z3.Implies(z3.And(1 <= t, t <= k), GHc(t) == z3.Store(GHc(t - 1), q_at(s, t - 1), False)))),
                ("ghost_subset", z3.ForAll([t, j], z3.Implies(z3.And(0 <= t, t <= k, inr, GHc(t)[j]), A0[j]))),
                ("picks_valid", z3.ForAll([t], z3.Implies(z3.And(0 <= t, t < k), z3.And(0 <= q_at(s, t), q_at(s, t) < NC, GHc(t)[q_at(s, t)])))),
                ("picks_stay_masked", z3.ForAll([t, t2], z3.Implies(z3.And(0 <= t, t < t2, t2 <= k), z3.Not(GHc(t2)[q_at(s, t)])))),
                ("ghost_count", CNT(GHc(k), NC) == cnt0 - k),
                ("rows_nan", z3.ForAll([t2, j], z3.Implies(z3.And(0 <= t2, t2 < k, inr), Un == z3.Not(GHc(t2)[j])))),
            ]

        def on_iter(E, s, k):
            for f in cnt_lemma_instances(GHc(k), NC):
                s.assume(f)

        def end_assume(E, head, end, k):
            r = q_at(end, k)
            end.assume(GHc(k + 1) == z3.Store(GHc(k), r, False))
            end.assume(cnt_point_update(GHc(k), r, NC))
        ctx["loop_specs"] = {"loop0": LoopSpec(inv=inv, on_iter=on_iter, end_assume=end_assume)}
        ctx["q_at"] = q_at
        ctx["args"] = [X, st.alloc(yd)]
        ctx["kwargs"] = {"batch_size": bs, "random_state": rng, "missing_label": ml, "mapping": st.alloc(mp)}
        if rows:
            ctx["kwargs"]["n_new_cand"] = m
        return ctx

    def post(E, ctx, outs):
        rets = returns(outs)
        if not rets:
            E.oblige("reaches.return", [], z3.BoolVal(False))
        for o in raises(outs):
            E.oblige("does_not_raise", o.state, z3.BoolVal(False), exc=str(o.value))
        N, bs = ctx["NC"], ctx["bs"]
        t, t2, j = z3.Ints("t t2 j")
        for o in rets:
            st = o.state
            if not (isinstance(o.value, tuple) and len(o.value) == 2):
                E.oblige("returns.pair", st, False)
                continue
            q, U = arr_of(o.value[0], st), arr_of(o.value[1], st)
            ok = q is not None and U is not None and q.ndim == 1 and U.ndim == 2 and q.kind == "i"
            E.oblige("C01.returns_integer_indices_and_utilities", st, z3.BoolVal(bool(ok)))
            if not ok:
                continue
            qa = lambda tt: to_int(q.sel(tt))
            E.oblige("C01.batch_size_indices", st, to_int(q.shape[0]) == bs)
            E.oblige("C01.indices_are_unlabeled_candidates", st, z3.ForAll([t], z3.Implies(z3.And(0 <= t, t < bs), z3.And(0 <= qa(t), qa(t) < N, ctx["A0"][qa(t)]))))
            E.oblige("C01.indices_pairwise_distinct", st, z3.ForAll([t, t2], z3.Implies(z3.And(0 <= t, t < t2, t2 < bs), qa(t) != qa(t2))))
            Un = to_real(U.sel(t2, j))[0]
            E.oblige("C02.utilities_shape", st, z3.And(to_int(U.shape[0]) == bs, to_int(U.shape[1]) == N))
            # stated recursively (as for simple_batch): row t is NaN exactly off S_t, S_0 = unlabeled candidates, S_{t+1} = S_t minus pick t;
            # this is 'NaN off the candidates and at the picks 0..t-1' unfolded
            E.oblige("C02.selectable_sets_shrink_by_the_pick", st, z3.And(GHc(0) == ctx["A0"],
                     z3.ForAll([t], z3.Implies(z3.And(0 <= t, t < bs), GHc(t + 1) == z3.Store(GHc(t), qa(t), False)))))
            E.oblige("C02.row_t_is_NaN_exactly_off_the_selectable_set_of_step_t", st, z3.ForAll([t2, j], z3.Implies(z3.And(0 <= t2, t2 < bs, 0 <= j, j < N),
                     Un == z3.Not(GHc(t2)[j]))))
    return se_unit(f"pool_loops.k_greedy_center.{'row_candidates' if rows else 'index_candidates'}", FC, "k_greedy_center", None, setup, post, lib_factory=loops_lib,
                   inline={"_update_distances"})


UNITS = {"C01.C02.k_greedy_center.idx": unit_k_greedy_center(False), "C01.C02.k_greedy_center.rows": unit_k_greedy_center(True)}


# ========================================================================================== _greedy_sampling (GreedySamplingX / GreedySamplingTarget)
"""_greedy_sampling (skactiveml/pool/_greedy_sampling.py), the sequential selection shared by GreedySamplingX.query and both phases of
GreedySamplingTarget.query:
  requires  0 <= batch_size <= len(X_cand)
  assumed   [A-score] the aggregated distances (np.sum / np.min along axis 1 of the gathered distance block) are numbers; rand_argmax contract
            (selection.rand_argmax, proved); _measure_distance returns a matrix (its values are irrelevant here)
  ensures   query_indices: batch_size pairwise distinct positions in range(len(X_cand))                                              (C01)
            utilities[t, j] is NaN exactly for the positions picked in steps 0..t-1; pick t is maximal among the non-NaN entries of row t   (C02)
  loop invariant: ghost mask sequence GHg(t) (positions still selectable before step t) and ghost position function POSg(t, j) (where position j
            sits in `not_selected_candidates` before step t): not_selected_candidates enumerates GHg(k) bijectively, np.delete of the picked
            slot shifts the later ones down by one."""
FG = "skactiveml/pool/_greedy_sampling.py"
GHg = z3.Function("GH_greedy", I, z3.ArraySort(I, B))
POSg = z3.Function("POS_greedy", I, I, I)
WITg = z3.Function("WIT_greedy", I, I, I)         # step t2, position j masked before t2 -> the earlier step that picked j


def greedy_lib():
    L = loops_lib()

    @L.fn("_measure_distance")
    def _md(E, st, args, kw, node):
        """pairwise distances between the candidates and the samples `indices`: a (len(X_cand), len(indices)) matrix (values irrelevant)"""
        ind = as_array(args[0], st)
        Xc = as_array(kw["X_cand"], st)
        return st.alloc(ArrData((Xc.shape[0], ind.shape[0]), fresh_sel("dist", "f", 2), "f"))

    def agg(E, st, args, kw, node):
        """[A-score] np.sum(dist, axis=1) / np.min(dist, axis=1) of a distance block: one NUMBER per row"""
        a = as_array(args[0], st) if isinstance(args[0], Ref) else None
        if a is None or a.ndim != 2 or kw.get("axis") != 1:
            raise Unsupported("aggregate of something else than a distance block along axis 1")
        E.abstracted.add("A-score: " + ast_unparse(node)[:60])
        v = fresh_fn("agg", I, R)
        return st.alloc(ArrData((a.shape[0],), lambda i: mk_fv(z3.BoolVal(False), v(i)), "f"))
    L.functions["np.sum"] = agg
    L.functions["np.min"] = agg
    return L


def ast_unparse(node):
    import ast
    return ast.unparse(node)


def unit_greedy_sampling(start_empty):
    """start_empty: no sample is labeled yet (selected_indices is empty at the call)"""
    def setup(E, st):
        N, d, c, bs, L0 = z3.Int("N"), z3.Int("d"), z3.Int("c"), z3.Int("batch_size"), z3.Int("n_selected0")
        st.assume(N >= 1, d >= 1, c >= 0, bs >= 0, bs <= c)
        Xc = st.alloc(ArrData((c, d), fresh_sel("X_cand", "o", 2), "o"))
        X = st.alloc(ArrData((N, d), fresh_sel("X", "o", 2), "o"))
        si = st.alloc(ArrData((N,), lambda i: i, "i"))
        if start_empty:
            sel = st.alloc(ArrData((0,), fresh_sel("selected", "i"), "i"))
        else:
            st.assume(L0 >= 1)
            sel = st.alloc(ArrData((L0,), fresh_sel("selected", "i"), "i"))
        ci = st.alloc(ArrData((c,), fresh_sel("candidate_indices", "i"), "i"))
        rng = st.alloc(RngData(z3.Function("rng_stream", I, R), z3.Int("pos0"), z3.Int("aux0")))
        t, t2, j, p = z3.Ints("t t2 j p")
        inr = lambda jj: z3.And(0 <= jj, jj < c)
        st.assume(z3.ForAll([j], GHg(0)[j] == inr(j)))
        st.assume(z3.ForAll([j], z3.Implies(inr(j), POSg(0, j) == j)))

        def q_at(s, tt):
            return to_int(s.get(s.env["query_indices"]).sel(tt))

        def inv(E, s, k, pre):
            U = s.get(s.env["utilities"])
            nsc = s.get(s.env["not_selected_candidates"])
            Un, Uv = to_real(U.sel(t2, j))
            qn, qv = to_real(U.sel(t2, q_at(s, t2)))
            nj = to_int(nsc.sel(p))
            return [
                ("shapes", z3.And(to_int(U.shape[0]) == bs, to_int(U.shape[1]) == c, to_int(s.get(s.env["query_indices"]).shape[0]) == bs,
                                  to_int(nsc.shape[0]) == c - k, to_int(s.get(s.env["candidate_indices"]).shape[0]) == c - k)),
                ("ghost_def", z3.ForAll([t], z3.Implies(z3.And(1 <= t, t <= k), GHg(t) == z3.Store(GHg(t - 1), q_at(s, t - 1), False)))),
                ("enumerates.members", z3.ForAll([p], z3.Implies(z3.And(0 <= p, p < c - k), z3.And(inr(nj), GHg(k)[nj], POSg(k, nj) == p)))),
                ("enumerates.complete", z3.ForAll([j], z3.Implies(z3.And(inr(j), GHg(k)[j]),
                                                                    z3.And(0 <= POSg(k, j), POSg(k, j) < c - k, to_int(nsc.sel(POSg(k, j))) == j)))),
                ("ghost_in_range", z3.ForAll([t, j], z3.Implies(z3.And(0 <= t, t <= k, GHg(t)[j]), inr(j)))),
                ("picks_valid", z3.ForAll([t], z3.Implies(z3.And(0 <= t, t < k), z3.And(inr(q_at(s, t)), GHg(t)[q_at(s, t)])))),
                ("picks_stay_masked", z3.ForAll([t, t2], z3.Implies(z3.And(0 <= t, t < t2, t2 <= k), z3.Not(GHg(t2)[q_at(s, t)])))),
                ("rows_nan", z3.ForAll([t2, j], z3.Implies(z3.And(0 <= t2, t2 < k, inr(j)), Un == z3.Not(GHg(t2)[j])))),
                ("picks_maximal", z3.ForAll([t2, j], z3.Implies(z3.And(0 <= t2, t2 < k, inr(j), z3.Not(Un)), z3.And(z3.Not(qn), Uv <= qv)))),
                ("later_rows_untouched", z3.ForAll([t2, j], z3.Implies(z3.And(k <= t2, t2 < bs, inr(j)), Un))),
                ("masked_were_picked", z3.ForAll([t2, j], z3.Implies(z3.And(0 <= t2, t2 <= k, inr(j), z3.Not(GHg(t2)[j])),
                                                                       z3.And(0 <= WITg(t2, j), WITg(t2, j) < t2, q_at(s, WITg(t2, j)) == j)))),
            ]

        def end_assume(E, head, end, k):
            r = q_at(end, k)
            p0 = to_int(end.get(end.env["idx"]).sel(z3.IntVal(0)))
            end.assume(GHg(k + 1) == z3.Store(GHg(k), r, False))
            end.assume(z3.ForAll([j], POSg(k + 1, j) == z3.If(POSg(k, j) < p0, POSg(k, j), POSg(k, j) - 1)))
            end.assume(z3.ForAll([j], WITg(k + 1, j) == z3.If(j == r, k, WITg(k, j))))
        ctx = {"c": c, "bs": bs, "q_at": q_at, "inr": inr}
        ctx["loop_specs"] = {"loop0": LoopSpec(inv=inv, end_assume=end_assume)}
        ctx["args"] = []
        ctx["kwargs"] = {"X_cand": Xc, "X": X, "sample_indices": si, "selected_indices": sel, "candidate_indices": ci, "batch_size": bs,
                         "random_state": rng, "method": "x", "metric_x": None, "metric_dict_x": None}
        return ctx

    def post(E, ctx, outs):
        rets = returns(outs)
        if not rets:
            E.oblige("reaches.return", [], z3.BoolVal(False))
        for o in raises(outs):
            E.oblige("does_not_raise", o.state, z3.BoolVal(False), exc=str(o.value))
        c, bs, inr = ctx["c"], ctx["bs"], ctx["inr"]
        t, t2, j = z3.Ints("t t2 j")
        for o in rets:
            st = o.state
            if not (isinstance(o.value, tuple) and len(o.value) == 2):
                E.oblige("returns.pair", st, False)
                continue
            q, U = arr_of(o.value[0], st), arr_of(o.value[1], st)
            ok = q is not None and U is not None and q.ndim == 1 and U.ndim == 2 and q.kind == "i"
            E.oblige("C01.returns_integer_indices_and_utilities", st, z3.BoolVal(bool(ok)))
            if not ok:
                continue
            qa = lambda tt: to_int(q.sel(tt))
            E.oblige("C01.batch_size_indices", st, to_int(q.shape[0]) == bs)
            E.oblige("C01.indices_are_candidate_positions", st, z3.ForAll([t], z3.Implies(z3.And(0 <= t, t < bs), inr(qa(t)))))
            E.oblige("C01.indices_pairwise_distinct", st, z3.ForAll([t, t2], z3.Implies(z3.And(0 <= t, t < t2, t2 < bs), qa(t) != qa(t2))))
            Un, Uv = to_real(U.sel(t2, j))
            qn, qv = to_real(U.sel(t2, qa(t2)))
            E.oblige("C02.utilities_shape", st, z3.And(to_int(U.shape[0]) == bs, to_int(U.shape[1]) == c))
            E.oblige("C02.selectable_sets_shrink_by_the_pick", st, z3.And(z3.ForAll([j], GHg(0)[j] == inr(j)),
                     z3.ForAll([t], z3.Implies(z3.And(0 <= t, t < bs), GHg(t + 1) == z3.Store(GHg(t), qa(t), False)))))
            E.oblige("C02.row_t_is_NaN_exactly_at_the_earlier_picks", st, z3.ForAll([t2, j], z3.Implies(z3.And(0 <= t2, t2 < bs, inr(j)),
                     Un == z3.Not(GHg(t2)[j]))))
            E.oblige("C02.pick_t_is_maximal_in_row_t", st, z3.ForAll([t2, j], z3.Implies(z3.And(0 <= t2, t2 < bs, inr(j), z3.Not(Un)),
                     z3.And(z3.Not(qn), Uv <= qv))))
            E.oblige("C02.masked_positions_were_picked_in_an_earlier_step", st, z3.ForAll([t2, j], z3.Implies(
                z3.And(0 <= t2, t2 <= bs, inr(j), z3.Not(GHg(t2)[j])), z3.And(0 <= WITg(t2, j), WITg(t2, j) < t2, qa(WITg(t2, j)) == j))))
    return se_unit(f"pool_loops._greedy_sampling.{'no_labels_yet' if start_empty else 'some_labels'}", FG, "_greedy_sampling", None, setup, post,
                   lib_factory=greedy_lib)


UNITS["C01.C02._greedy_sampling.no_labels_yet"] = unit_greedy_sampling(True)
UNITS["C01.C02._greedy_sampling.some_labels"] = unit_greedy_sampling(False)


# ========================================================================================== GreedySamplingX.query / GreedySamplingTarget.query
"""The two strategies built on _greedy_sampling, verified against its CONTRACT (units pool_loops._greedy_sampling.*), not its body:
  G(X_cand with c rows, batch_size b):  requires 0 <= b <= c;  returns q (b pairwise distinct positions < c) and U (b x c) with row t NaN exactly
  at q[0..t) and q[t] maximal among the non-NaN entries of row t.
Ensures for query (C01 / C02, in the caller's index space: samples of X for None / index candidates, candidate rows otherwise):
  the batch has the validated size, consists of pairwise distinct candidates; utilities[t, j] is NaN exactly for non-candidates and the
  candidates picked in steps 0..t-1; the pick of step t is maximal among the non-NaN entries of row t.
GreedySamplingTarget splits the batch into a feature-space phase (the first batch_size_x picks) and a target-space phase on the remaining
candidates; the second phase's positions refer to the candidates left over and are translated back through `unselected_cands`."""
GQ = z3.Function("G_pick", I, I, I)              # call number, step -> picked position
GSEL = z3.Function("G_selectable", I, I, z3.ArraySort(I, B))   # call number, step -> positions selectable before that step
GW = z3.Function("G_picked_at", I, I, I, I)     # call number, step t2, position masked before t2 -> the earlier step that picked it


def greedy_callers_lib(ctx, mode):
    L = loops_lib()

    def validate_contract(E, st, recv, args, kw, node):
        names = ["X", "y", "candidates", "batch_size", "return_utilities", "reset", "check_X_dict"]
        a = dict(zip(names, args))
        a.update(kw)
        od = st.get(recv)
        nf = dict(od.fields)
        nf["missing_label_"] = nf.get("missing_label")
        rng = st.alloc(RngData(fresh_fn("stream", I, R), fresh("pos", I), fresh("aux", I)))
        nf["random_state_"] = rng
        st.put(recv, ObjData(od.cls, nf))
        bs2 = fresh("batch_size_validated", I)
        st.assume(to_int(a["batch_size"]) >= 1, bs2 == z3.If(to_int(a["batch_size"]) <= ctx["c"], to_int(a["batch_size"]), ctx["c"]))
        ctx["bs"] = bs2
        return (a["X"], a["y"], a["candidates"], bs2, a["return_utilities"])

    def transform_contract(E, st, recv, args, kw, node):
        if mode == "rows":
            return (args[0], None)
        X = as_array(args[1], st)
        mp = ctx["mapping"]
        Xc = ArrData((mp.shape[0], X.shape[1]), lambda i, j: X.sel(to_int(mp.sel(i)), j), "o")
        return (st.alloc(Xc), ctx["mapping_ref"])
    for c_ in ("SingleAnnotatorPoolQueryStrategy", "PoolQueryStrategy", "GreedySamplingX", "GreedySamplingTarget"):
        L.contracts[f"{c_}._validate_data"] = validate_contract
        L.contracts[f"{c_}._transform_candidates"] = transform_contract

    @L.fn("_greedy_sampling")
    def _gs(E, st, args, kw, node):
        kw = dict(zip(["X_cand", "X", "sample_indices", "selected_indices", "candidate_indices", "batch_size", "y_cand", "y", "random_state", "method"], args), **kw)
        Xc = as_array(kw["X_cand"], st)
        b = to_int(kw["batch_size"])
        cc = to_int(Xc.shape[0])
        k = len([e for e in st.events if e[0] == "gs_call"])          # per path: the events belong to the state
        E.oblige(f"call{k}._greedy_sampling.requires.0<=batch_size<=len(X_cand)", st, z3.And(0 <= b, b <= cc), line=getattr(node, "lineno", 0))
        t, t2, j = z3.Ints("g_t g_t2 g_j")
        inr = lambda jj: z3.And(0 <= jj, jj < cc)
        kk = z3.IntVal(k)
        U = ArrData((b, cc), fresh_sel(f"G{k}_U", "f", 2), "f")
        Un, Uv = to_real(U.sel(t2, j))
        qn, qv = to_real(U.sel(t2, GQ(kk, t2)))
        st.assume(z3.ForAll([j], GSEL(kk, 0)[j] == inr(j)))
        st.assume(z3.ForAll([t], z3.Implies(z3.And(0 <= t, t < b), z3.And(inr(GQ(kk, t)), GSEL(kk, t)[GQ(kk, t)],
                                                                           GSEL(kk, t + 1) == z3.Store(GSEL(kk, t), GQ(kk, t), False)))))
        st.assume(z3.ForAll([t, t2], z3.Implies(z3.And(0 <= t, t < t2, t2 < b), GQ(kk, t) != GQ(kk, t2))))
        st.assume(z3.ForAll([t, t2], z3.Implies(z3.And(0 <= t, t < t2, t2 <= b), z3.Not(GSEL(kk, t2)[GQ(kk, t)]))))
        st.assume(z3.ForAll([t2, j], z3.Implies(z3.And(0 <= t2, t2 < b, inr(j)), Un == z3.Not(GSEL(kk, t2)[j]))))
        st.assume(z3.ForAll([t2, j], z3.Implies(z3.And(0 <= t2, t2 < b, inr(j), z3.Not(Un)), z3.And(z3.Not(qn), Uv <= qv))))
        st.assume(z3.ForAll([t2, j], z3.Implies(z3.And(0 <= t2, t2 <= b, inr(j), z3.Not(GSEL(kk, t2)[j])),
                                                z3.And(0 <= GW(kk, t2, j), GW(kk, t2, j) < t2, GQ(kk, GW(kk, t2, j)) == j))))
        q = ArrData((b,), lambda i, kk=kk: GQ(kk, i), "i")
        st.events.append(("gs_call", k, dict(kw=dict(kw), b=b, c=cc, U=U, q=q)))
        return (st.alloc(q), st.alloc(U))

    @L.fn("check_type", "check_scalar")
    def _noop(E, st, args, kw, node):
        return None

    @L.fn("clone")
    def _clone(E, st, args, kw, node):
        return Opaque("clone")

    base_argwhere = L.functions["np.argwhere"]

    def _argwhere(E, st, args, kw, node):
        r = base_argwhere(E, st, args, kw, node)
        if isinstance(r, Ref) and hasattr(st.get(r), "filter_of"):
            st.events.append(("argwhere", st.get(r).filter_of, as_array(args[0], st)))
        return r
    L.functions["np.argwhere"] = _argwhere
    base_flatnonzero = L.functions["np.flatnonzero"]

    def _flatnonzero(E, st, args, kw, node):
        r = base_flatnonzero(E, st, args, kw, node)
        if isinstance(r, Ref) and hasattr(st.get(r), "filter_of"):
            st.events.append(("argwhere", st.get(r).filter_of, as_array(args[0], st)))
        return r
    L.functions["np.flatnonzero"] = _flatnonzero
    return L


def _greedy_world(ctx, st, mode):
    N, d, c = z3.Int("N"), z3.Int("d"), z3.Int("c")
    st.assume(N >= 1, d >= 1, c >= 0)
    Xd = ArrData((N, d), fresh_sel("X", "o", 2), "o")
    yd = ArrData((N,), fresh_sel("y", "o"), "o")
    X, y = st.alloc(Xd), st.alloc(yd)
    ctx.update(N=N, c=c, X=X, y=y, yd=yd)
    if mode == "rows":
        cand = st.alloc(ArrData((c, d), fresh_sel("candrows", "o", 2), "o"))
    else:
        mp = ArrData((c,), fresh_sel("mapping", "i"), "i")
        t, u = z3.Ints("mp_t mp_u")
        st.assume(z3.ForAll([t, u], z3.Implies(z3.And(0 <= t, t < u, u < c), to_int(mp.sel(t)) < to_int(mp.sel(u)))))
        st.assume(z3.ForAll([t], z3.Implies(z3.And(0 <= t, t < c), z3.And(0 <= to_int(mp.sel(t)), to_int(mp.sel(t)) < N))))
        mp.strictly_increasing = True
        ctx["mapping"] = mp
        ctx["mapping_ref"] = st.alloc(mp)
        cand = ctx["mapping_ref"] if mode == "idx" else None
    return X, y, cand


def _greedy_post(E, ctx, outs, mode, wit):
    """wit(t2, p) -> the step before t2 at which candidate position p was picked (composed from the witnesses of the callee contracts)"""
    rets = returns(outs)
    if not rets:
        E.oblige("reaches.return", [], z3.BoolVal(False))
    for o in raises(outs):
        E.oblige("does_not_raise", o.state, z3.BoolVal(False), exc=str(o.value))
    N, c = ctx["N"], ctx["c"]
    t, t2, j, p = z3.Ints("t t2 j p")
    for o in rets:
        st = o.state
        bs = ctx["bs"]
        if not (isinstance(o.value, tuple) and len(o.value) == 2):
            E.oblige("returns.pair", st, False)
            continue
        q, U = arr_of(o.value[0], st), arr_of(o.value[1], st)
        ok = q is not None and U is not None and q.ndim == 1 and U.ndim == 2 and q.kind == "i"
        E.oblige("C01.returns_integer_indices_and_utilities", st, z3.BoolVal(bool(ok)))
        if not ok:
            continue
        qa = lambda tt: to_int(q.sel(tt))
        if mode == "rows":
            NC = c
            is_cand = lambda jj: z3.And(0 <= jj, jj < c)
            posof = lambda jj: jj
        else:
            NC = N
            mp = ctx["mapping"]
            from pyvc.lib import membership
            is_cand, posof = membership(E, mp, st)
        E.oblige("C01.batch_size_indices", st, to_int(q.shape[0]) == bs)
        E.oblige("C01.indices_are_candidates", st, z3.ForAll([t], z3.Implies(z3.And(0 <= t, t < bs), z3.And(0 <= qa(t), qa(t) < NC, is_cand(qa(t))))))
        E.oblige("C01.indices_pairwise_distinct", st, z3.ForAll([t, t2], z3.Implies(z3.And(0 <= t, t < t2, t2 < bs), qa(t) != qa(t2))))
        Un, Uv = to_real(U.sel(t2, j))
        qn, qv = to_real(U.sel(t2, qa(t2)))
        inr = z3.And(0 <= t2, t2 < bs, 0 <= j, j < NC)
        E.oblige("C02.utilities_shape", st, z3.And(to_int(U.shape[0]) == bs, to_int(U.shape[1]) == NC))
        E.oblige("C02.non_candidates_are_NaN", st, z3.ForAll([t2, j], z3.Implies(z3.And(inr, z3.Not(is_cand(j))), Un)))
        E.oblige("C02.earlier_picks_are_NaN", st, z3.ForAll([t, t2], z3.Implies(z3.And(0 <= t, t < t2, t2 < bs), to_real(U.sel(t2, qa(t)))[0])))
        cases = wit(t2, posof(j))
        if not isinstance(cases, list):
            cases = [("", z3.BoolVal(True), cases)]
        for cname, cond, w in cases:          # one obligation per case of the witness (keeps every query small)
            E.oblige("C02.a_NaN_candidate_was_picked_in_an_earlier_step" + cname, st, z3.ForAll([t2, j], z3.Implies(z3.And(inr, is_cand(j), Un, cond),
                     z3.And(0 <= w, w < t2, qa(w) == j))))
        E.oblige("C02.pick_t_is_maximal_in_row_t", st, z3.ForAll([t2, j], z3.Implies(z3.And(inr, z3.Not(Un)), z3.And(z3.Not(qn), Uv <= qv))))


def unit_greedy_x(mode):
    ctx = {}

    def setup(E, st):
        ctx.clear()
        X, y, cand = _greedy_world(ctx, st, mode)
        selfo = st.alloc(ObjData("GreedySamplingX", {"metric": None, "metric_dict": None, "missing_label": Opaque("missing_label"),
                                                     "random_state": Opaque("random_state")}))
        bs = z3.Int("batch_size")
        return {"args": [selfo, X, y], "kwargs": {"candidates": cand, "batch_size": bs, "return_utilities": True}}

    def post(E, c_, outs):
        _greedy_post(E, ctx, outs, mode, lambda t2, p: GW(0, t2, p))
        for o in returns(outs):
            E.oblige("one_call_of__greedy_sampling", o.state, z3.BoolVal(len([e for e in o.state.events if e[0] == "gs_call"]) == 1))
    return se_unit(f"pool_loops.GreedySamplingX.query.{mode}", FG, "GreedySamplingX.query", "GreedySamplingX", setup, post,
                   lib_factory=lambda: greedy_callers_lib(ctx, mode))


for _m in ("none", "idx", "rows"):
    UNITS[f"C01.C02.GreedySamplingX.query.{_m}"] = unit_greedy_x(_m)


def unit_greedy_target(mode):
    ctx = {}

    def setup(E, st):
        ctx.clear()
        X, y, cand = _greedy_world(ctx, st, mode)
        nx = z3.Int("n_GSx_samples")
        st.assume(nx >= 0)
        selfo = st.alloc(ObjData("GreedySamplingTarget", {"method": None, "x_metric": None, "y_metric": None, "x_metric_dict": None, "y_metric_dict": None,
                                                          "n_GSx_samples": nx, "missing_label": Opaque("missing_label"), "random_state": Opaque("random_state")}))
        bs = z3.Int("batch_size")
        return {"args": [selfo, X, y, Opaque("reg")], "kwargs": {"candidates": cand, "batch_size": bs, "return_utilities": True, "fit_reg": z3.Bool("fit_reg")}}

    def post(E, c_, outs):
        t2, p = z3.Ints("w_t2 w_p")
        for o in returns(outs):
            st = o.state
            calls = [e for e in st.events if e[0] == "gs_call"]
            aw = [e for e in st.events if e[0] == "argwhere"]
            bs = ctx["bs"]
            # which phases ran on this path, and the witness 'candidate position p is masked in row t2 => it was picked at step wit(t2, p)'
            if len(calls) == 2:
                bx = calls[0][2]["b"]
                (mask, pos, m_, inv) = aw[-1][1]

                def wit(t2, p, bx=bx, inv=inv):
                    picked_x = z3.Not(GSEL(0, bx)[p])
                    return [(".during_the_first_phase", t2 < bx, GW(0, t2, p)),
                            (".second_phase.picked_in_the_first", z3.And(t2 >= bx, picked_x), GW(0, bx, p)),
                            (".second_phase.picked_in_the_second", z3.And(t2 >= bx, z3.Not(picked_x)), bx + GW(1, t2 - bx, inv(p)))]
            elif len(calls) == 1 and aw:
                kw = calls[0][2]["kw"]
                first_phase = kw.get("method") == "x"
                if first_phase:
                    wit = lambda t2, p: GW(0, t2, p)
                else:
                    (mask, pos, m_, inv) = aw[-1][1]
                    wit = lambda t2, p, inv=inv: GW(0, t2, inv(p))
            else:
                wit = lambda t2, p: z3.IntVal(-1)
            E.oblige("phases.at_most_two_calls_of__greedy_sampling", st, z3.BoolVal(len(calls) <= 2))
            _greedy_post(E, ctx, [o], mode, wit)
        if not returns(outs):
            E.oblige("reaches.return", [], z3.BoolVal(False))
    return se_unit(f"pool_loops.GreedySamplingTarget.query.{mode}", FG, "GreedySamplingTarget.query", "GreedySamplingTarget", setup, post,
                   lib_factory=lambda: greedy_callers_lib(ctx, mode))


for _m in ("none", "idx", "rows"):
    UNITS[f"C01.C02.GreedySamplingTarget.query.{_m}"] = unit_greedy_target(_m)
