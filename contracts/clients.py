"""C14 — client lemma of the standard pool active-learning loop, proved over the CONTRACT of query only (C01):

    while some sample is unlabeled:   idx = query(X, y, batch_size=b);   y[idx] = oracle(idx)

C01 (postcondition of query with candidates=None): idx holds exactly min(b, u_t) pairwise distinct samples, all unlabeled at
the time of the call (u_t = number of unlabeled samples before round t).

Lemma 1 (counting, induction on t):   u_t = max(u - t*b, 0)
Lemma 2 (exhaustion):                 with T = ceil(u/b) (i.e. (T-1)*b < u <= T*b):  u_T = 0  and  u_t > 0 for t < T
Lemma 3 (no sample twice, induction): ever-queried set Q_t is a subset of the labeled set L_t; a round selects outside L_t,
                                      hence outside Q_t; Q_{t+1} = Q_t + S_t  is again a subset of  L_{t+1} = L_t + S_t
The lemma transfers to a concrete strategy exactly as far as its C01 contract holds (proved for the simple_batch core,
bounded for the strategy-specific parts); the bounded stand-in runs the full loops.
"""
import z3

from pyvc.solve import solve_one

I, B = z3.IntSort(), z3.BoolSort()


def unit_loop(tier):
    u, b, t, T = z3.Ints("u b t T")
    ut, ut1, kt = z3.Ints("u_t u_t1 k_t")
    mx = lambda x: z3.If(x >= 0, x, 0)
    obs = []

    def ob(name, pc, goal):
        r = solve_one({"name": name, "pc": pc, "goal": goal, "meta": {}}, timeout_ms=20000)
        r["goal_text"] = str(goal)[:200]
        obs.append(r)
    base = [u >= 0, b >= 1, t >= 0]
    contract = [kt == z3.If(b <= ut, b, ut), ut1 == ut - kt]       # C01: exactly min(b, u_t) fresh samples are labeled
    ob("L1.count.base", base, mx(u - 0 * b) == u)
    ob("L1.count.step", base + contract + [ut == mx(u - t * b)], ut1 == mx(u - (t + 1) * b))
    ob("L1.progress", base + contract + [ut > 0], z3.And(kt >= 1, ut1 < ut))
    ob("L2.exhausted_after_T", base + [T >= 0, (T - 1) * b < u, u <= T * b], mx(u - T * b) == 0)
    ob("L2.not_before_T", base + [T >= 0, (T - 1) * b < u, u <= T * b, t < T], mx(u - t * b) > 0)
    ob("L2.T_unique", base + [T >= 0, (T - 1) * b < u, u <= T * b, t >= 0, (t - 1) * b < u, u <= t * b], t == T)
    # sets as characteristic functions
    L, Q, S = (z3.Array(n, I, B) for n in ("L", "Q", "S"))
    L1, Q1 = z3.Array("L1", I, B), z3.Array("Q1", I, B)
    j = z3.Int("j")
    sub = lambda A_, B_: z3.ForAll([j], z3.Implies(A_[j], B_[j]))
    disjoint = lambda A_, B_: z3.ForAll([j], z3.Not(z3.And(A_[j], B_[j])))
    union = lambda C_, A_, B_: z3.ForAll([j], C_[j] == z3.Or(A_[j], B_[j]))
    inv = sub(Q, L)
    c01 = disjoint(S, L)                                          # C01: only unlabeled samples are returned
    upd = [union(L1, L, S), union(Q1, Q, S)]
    ob("L3.never_twice.base", [z3.ForAll([j], z3.Not(Q[j]))], inv)
    ob("L3.never_twice.fresh", [inv, c01], disjoint(S, Q))
    ob("L3.never_twice.step", [inv, c01] + upd, sub(Q1, L1))
    return {"unit": "clients.al_loop", "target": "client lemma over the contract of <Strategy>.query (C01)", "kind": "lemma",
            "obligations": obs, "abstracted": [], "dropped": [], "lib": [], "paths": len(obs)}


UNITS = {"al_loop": unit_loop}
