"""Contract for SlidingWindowClassifier.fit / partial_fit (skactiveml/classifier/_wrapper.py) — C13.

Property statement: 'a sliding-window classifier equals a fit on exactly the last window_size samples it was given'.

Abstract view: H = the sequence of (sample, label, weight) triples handed over since (and including) the last `fit`, after the only_labeled
filter; window(H) = the last min(|H|, window_size) of them (all of them for window_size=None). Contracts:

  fit(X, y, w)          H := filter(X, y, w)          -- whatever the object held before (older windows, an older estimator_) is irrelevant
  partial_fit(X, y, w)  H := H_old ++ filter(X, y, w)
  both                  estimator_ is a fresh deep copy of `estimator`, fitted exactly once, on  X = window(H).X, y = window(H).y and
                        (if the estimator's fit takes it) sample_weight = window(H).w -- in this order, oldest first

Samples are modelled as opaque tokens (X is a sequence of n samples of arbitrary shape: check_array(allow_nd=True)); labels are opaque values.
The three bounded deques X_train_ / y_train_ / sample_weight_train_ are modelled by `DequeData` (logical sequence of everything appended; the
last min(n, maxlen) entries are visible; np.array(deque) = the visible entries in order).
Assumed: collections.deque(maxlen) semantics as just stated; check_* helpers validate only; deepcopy returns a fresh object.
"""
import z3

from pyvc.se import (ArrData, ListData, ObjData, RngData, Opaque, Ref, fresh, fresh_fn, fresh_sel, to_real, to_int, I, R, B, USort,
                     Unsupported, DictData, z3bool, FV, mk_fv)
from pyvc.unit import se_unit, returns, raises
from pyvc.lib import as_array
from .classifiers import model_lib
from .encoder import MISSING
from .stream_strategies import DequeData

FC = "skactiveml/classifier/_wrapper.py"
NOMAX = None


def _sel_eq(a, b, kind):
    if kind == "o":
        return a.sym == b.sym
    an, av = to_real(a)
    bn, bv = to_real(b)
    return z3.And(an == bn, z3.Or(an, av == bv))


def _ite(c, a, b, kind):
    if kind == "o":
        return Opaque("ite", z3.If(c, a.sym, b.sym))
    an, av = to_real(a)
    bn, bv = to_real(b)
    return mk_fv(z3.If(c, an, bn), z3.If(c, av, bv))


def visible(d):
    """(length, offset) of the visible part of a bounded deque"""
    n = to_int(d.n)
    if d.maxlen is NOMAX:
        return n, z3.IntVal(0)
    vis = z3.If(n <= d.maxlen, n, d.maxlen)
    return vis, n - vis


def sw_lib():
    L = model_lib()
    base_list_method = L.list_method

    def list_method(E, ref, d, name, args, kwargs, st):
        if isinstance(d, DequeData):
            if name == "extend":
                a = as_array(args[0], st) if isinstance(args[0], Ref) else None
                if a is None or a.ndim != 1:
                    raise Unsupported("deque.extend of something else than a sequence")
                kind = d.kind or a.kind
                if a.kind != kind:
                    raise Unsupported("deque.extend: element kind changes")
                old, n = d.sel, to_int(d.n)
                m = to_int(a.shape[0])
                if old is None:         # a deque created empty in this call
                    st.put(ref, DequeData(z3.simplify(n + m), lambda j, n=n, a=a: a.sel(j - n), kind, d.maxlen))
                else:
                    st.put(ref, DequeData(z3.simplify(n + m), lambda j, old=old, n=n, a=a, kind=kind: _ite(j >= n, a.sel(j - n), old(j), kind), kind, d.maxlen))
                return None
            raise Unsupported("deque method " + name)
        return base_list_method(E, ref, d, name, args, kwargs, st)
    L.list_method = list_method

    @L.fn("deque")
    def _deque(E, st, args, kw, node):
        if args:
            raise Unsupported("deque(iterable)")
        ml = kw.get("maxlen")
        return st.alloc(DequeData(0, None, None, NOMAX if ml is None else to_int(ml)))

    base_array = L.functions["np.array"]

    def _array(E, st, args, kw, node):
        v = args[0]
        if isinstance(v, Ref) and isinstance(st.get(v), DequeData):
            d = st.get(v)
            vis, off = visible(d)
            kind = d.kind or "o"
            r = ArrData((vis,), lambda j, d=d, off=off: d.sel(j + off), kind)
            r.window_of = d
            return st.alloc(r)
        return base_array(E, st, args, kw, node)
    L.functions["np.array"] = _array

    @L.fn("check_classifier_params", "check_consistent_length", "check_equal_missing_label", "check_scalar", "check_type")
    def _noop(E, st, args, kw, node):
        return None

    @L.fn("check_random_state")
    def _crs(E, st, args, kw, node):
        return st.alloc(RngData(fresh_fn("stream", I, R), fresh("pos", I), fresh("aux", I)))

    @L.fn("np.array_equiv", "np.array_equal")
    def _aeq(E, st, args, kw, node):
        return fresh("array_equal", B)
    return L


def unit_sw(which, only_labeled, weights, bounded, history):
    """which: fit | partial_fit; history: the object has been used before (deques and estimator_ exist and hold older samples)"""
    h = {}

    def setup(E, st):
        h.clear()
        n, w = z3.Int("n"), z3.Int("window_size")
        st.assume(n >= 0, w >= 1)
        X = ArrData((n,), fresh_sel("X", "o"), "o")
        y = ArrData((n,), fresh_sel("y", "o"), "o")
        sw = ArrData((n,), fresh_sel("w", "f"), "f") if weights else None
        ml = Opaque("missing_label")
        est = st.alloc(ObjData("__estimator__", {"__open__": True, "__isinstance__": ("SkactivemlClassifier",), "cost_matrix": None,
                                                 "classes": None, "missing_label": ml}))
        fields = {"estimator": est, "classes": None, "missing_label": ml, "cost_matrix": None, "random_state": Opaque("random_state"),
                  "window_size": w if bounded else None, "only_labeled": only_labeled, "__open__": False}
        if history:
            T = z3.Int("hist_len")
            st.assume(T >= 0)
            mx = w if bounded else NOMAX
            h["old"] = {"X": DequeData(T, fresh_sel("oldX", "o"), "o", mx), "y": DequeData(T, fresh_sel("oldy", "o"), "o", mx),
                        "w": DequeData(T, fresh_sel("oldw", "f"), "f", mx) if weights else None}
            fields["X_train_"] = st.alloc(h["old"]["X"])
            fields["y_train_"] = st.alloc(h["old"]["y"])
            fields["sample_weight_train_"] = st.alloc(h["old"]["w"]) if weights else None
            fields["estimator_"] = st.alloc(ObjData("__estimator__", {"__open__": True}))
            fields["random_state_"] = st.alloc(RngData(fresh_fn("old_stream", I, R), fresh("old_pos", I), fresh("old_aux", I)))
            fields["check_X_dict_"] = st.alloc(DictData({}, open=True))
            h["T"] = T
            h["old_est"] = fields["estimator_"]
        selfo = st.alloc(ObjData("SlidingWindowClassifier", fields))
        h.update(n=n, w=w, X=X, y=y, sw=sw, ml=ml, self=selfo, est=est)

        def conc(ev):
            from pyvc import cex
            nn = cex.ival(ev, n)
            T = cex.ival(ev, h["T"]) if history else 0
            if nn > cex.MAX_N or T > cex.MAX_N:
                raise cex.TooBig(max(nn, T))
            return {"family": "sliding_window", "sig": "counter-model", "which": which, "only_labeled": only_labeled, "weights": weights,
                    "window_size": cex.ival(ev, w) if bounded else None, "history": T if history else None, "n": nn,
                    "missing": [z3.is_true(ev(MISSING(y.sel(z3.IntVal(i)).sym, ml.sym))) for i in range(nn)],
                    "w": [cex.rval(ev, sw.sel(z3.IntVal(i))) for i in range(nn)] if weights else None}
        E.default_concretize = conc
        return {"args": [selfo, st.alloc(X), st.alloc(y)], "kwargs": {"sample_weight": st.alloc(sw) if weights else None}}

    def post(E, ctx, outs):
        rets = returns(outs)
        if not rets:
            E.oblige("reaches.return", [], z3.BoolVal(False))
        n, w, X, y, sw, ml = (h[k] for k in ("n", "w", "X", "y", "sw", "ml"))
        keep = (lambda i: z3.Not(MISSING(y.sel(i).sym, ml.sym))) if only_labeled else (lambda i: z3.BoolVal(True))
        for o in rets:
            st = o.state
            f = st.get(h["self"]).fields
            fits = [ev for ev in st.events if ev[0] == "call" and ev[1].split(".")[-1] in ("fit", "partial_fit")]
            E.oblige("C13.estimator_fitted_exactly_once", st, z3.BoolVal(len(fits) == 1 and fits[0][1].split(".")[-1] == "fit"))
            e_ = f.get("estimator_")
            E.oblige("C13.estimator__is_a_fresh_copy_of_estimator", st, z3.BoolVal(
                isinstance(e_, Ref) and e_.id != h["est"].id and (not history or e_.id != h["old_est"].id) and
                isinstance(st.get(e_), ObjData) and st.get(e_).cls == "__estimator__"))
            if len(fits) != 1:
                continue
            ev = fits[0]
            E.oblige("C13.the_fitted_object_is_estimator_", st, z3.BoolVal(isinstance(e_, Ref) and len(ev[2]) >= 0 and ("estimator_" in ev[1])))
            kw = ev[3]
            pre = ev[5] if len(ev) > 5 else {}
            got = {}
            for nm, key in (("X", "X"), ("y", "y"), ("w", "sample_weight")):
                v = kw.get(key)
                got[nm] = pre.get(v.id) if isinstance(v, Ref) else v
            # H: the logical sequence = (older part, only for partial_fit with history) ++ filter(X, y, w)
            # described through the deque the arrays were taken from: window_of
            fitsw = z3.Bool("estimator_fit_has_sample_weight")
            for nm, src, kind in (("X", X, "o"), ("y", y, "o"), ("w", sw, "f")):
                a = got[nm]
                if nm == "w":
                    if not weights:
                        E.oblige("C13.no_weights_given_no_weights_passed", st, z3.BoolVal(a is None))
                        continue
                    if not isinstance(a, ArrData):
                        E.oblige("C13.weights_passed_if_supported", st, z3.Not(fitsw))
                        continue
                if not isinstance(a, ArrData) or a.ndim != 1:
                    E.oblige(f"C13.fit_receives_{nm}_as_an_array", st, z3.BoolVal(False))
                    continue
                L_ = to_int(a.shape[0])
                # the kept new samples: the order-preserving filter of the given sequence by 'is labeled' (the library's filter contract supplies
                # the position witness; a filter by the same mask function shares it)
                if only_labeled:
                    km = ArrData((n,), keep, "b")
                    spec_new = st.get(E.lib.filter(E, src, km, st))
                    m = to_int(spec_new.shape[0])
                else:
                    spec_new, m = src, n
                wit = []
                i = z3.Int("ki")
                old_n = h["T"] if (history and which == "partial_fit") else z3.IntVal(0)
                if history and which == "partial_fit" and bounded:
                    # the older deque already shows only its last min(T, w) entries; entries before that can never come back
                    pass
                tot = old_n + m
                vis = z3.If(tot <= w, tot, w) if bounded else tot
                off = tot - vis

                def H(j, nm=nm, spec_new=spec_new, kind=kind, old_n=old_n):
                    new = spec_new.sel(j - old_n)
                    if history and which == "partial_fit":
                        return _ite(j >= old_n, new, h["old"][nm].sel(j), kind)
                    return new
                E.oblige(f"C13.{nm}_has_the_length_of_the_last_window", st, z3.Implies(z3.And(*wit), L_ == vis))
                E.oblige(f"C13.{nm}_is_exactly_the_last_window_size_samples_given", st, z3.Implies(z3.And(*wit), z3.ForAll([i], z3.Implies(
                    z3.And(0 <= i, i < vis), _sel_eq(a.sel(i), H(i + off), kind)))))
    tag = ".".join([which, "only_labeled" if only_labeled else "all_samples", "weights" if weights else "noweights",
                    "window" if bounded else "unbounded", "used_before" if history else "fresh"])
    return se_unit(f"sliding_window.{tag}", FC, f"SlidingWindowClassifier.{which}", "SlidingWindowClassifier", setup, post,
                   inline={"_add_samples", "_fit", "_validate_data"}, lib_factory=sw_lib)


UNITS = {}
for which in ("fit", "partial_fit"):
    for ol in (False, True):
        for wg in (False, True):
            for bd in (True, False):
                for hs in (False, True):
                    u_tag = ".".join([which, "only_labeled" if ol else "all_samples", "weights" if wg else "noweights",
                                      "window" if bd else "unbounded", "used_before" if hs else "fresh"])
                    UNITS[u_tag] = unit_sw(which, ol, wg, bd, hs)
