"""Regressor contracts (C12, C15) — defined in contracts/classifiers.py next to the shared model library."""
from .classifiers import REG_UNITS as UNITS  # noqa
