"""Contracts for SubSamplingWrapper.query (skactiveml/pool/_wrapper.py) — C20, the index re-translation.

Verified against ASSUMED contracts of the callees (each proved or checked elsewhere):
  self._validate_data       (pool_base._validate_data.*: X, y unchanged, index candidates strictly increasing, batch size >= 1)
  inner.query(X', y', candidates=c', batch_size, return_utilities=True) -> (q, U)      (C01 / C02 of the wrapped strategy)
        q[t] is one of the offered candidates (an entry of c' for index candidates, a row number for feature rows),
        U has one column per sample of X' (index candidates) or per candidate row
  random_state.choice(a, size=k, replace=False): the entries of a at k distinct positions (numpy)
  np.union1d / np.sort / np.searchsorted (numpy, stated in pyvc/lib.py)

Ensures, for every data set, candidate set, batch size and max_candidates (int or ratio), with CI = the caller's candidates
(unlabeled samples / the given indices / the row numbers) and NC = the drawn sub-sample:
  size       exactly one draw without replacement from CI of the documented size min(max_candidates or ceil(ratio*|CI|), |CI|)
  inner      the wrapped strategy is queried exactly once; with exclude_non_subsample it sees X[S], y[S] for a strictly increasing S that
             contains every labeled sample and NC but no other unlabeled candidate, and candidates c' with {S[c'[t]]} = NC; otherwise it
             sees X, y and c' = NC
  selection  every returned index is a member of NC, expressed in the caller's index space
  utilities  column j of the result equals the wrapped strategy's column for j (re-translated through S resp. the drawn row numbers) if
             j is in NC, is -inf for the other members of CI and NaN outside CI
"""
import ast
import z3

from pyvc.se import (State, ArrData, ListData, ObjData, RngData, Opaque, Ref, fresh, fresh_fn, fresh_sel, to_int, to_real, I, R, B, USort, z3bool,
                     Unsupported, is_z3, mk_fv)
from pyvc.unit import se_unit, returns, raises
from pyvc.lib import as_array, arr_of, NEG_INF
from .pool_base import pool_lib, MISSING

FW = "skactiveml/pool/_wrapper.py"
CLS = "SubSamplingWrapper"


def wrapper_lib(ctx):
    L = pool_lib()

    def validate_contract(E, st, recv, args, kw, node):
        names = ["X", "y", "candidates", "batch_size", "return_utilities", "reset", "check_X_dict"]
        a = dict(zip(names, args))
        a.update(kw)
        od = st.get(recv)
        nf = dict(od.fields)
        nf["missing_label_"] = nf.get("missing_label")
        nf["random_state_"] = st.alloc(RngData(fresh_fn("stream", I, R), fresh("pos", I), fresh("aux", I)))
        st.put(recv, ObjData(od.cls, nf))
        st.assume(to_int(a["batch_size"]) >= 1)
        return (a["X"], a["y"], a["candidates"], a["batch_size"], a["return_utilities"])
    for c in ("SingleAnnotatorPoolQueryStrategy", "PoolQueryStrategy", CLS):
        L.contracts[f"{c}._validate_data"] = validate_contract

    def inner_query(E, st, recv, args, kw, node):
        """assumed contract of the wrapped strategy's query (its own C01/C02)"""
        X, y, cand = (as_array(kw[k], st) for k in ("X", "y", "candidates"))
        b = fresh("n_selected", I)
        st.assume(b >= 0, b <= to_int(kw["batch_size"]))
        q = fresh_fn("inner_q", I, I)
        t = z3.Int("iq_t")
        w = fresh_fn("inner_q_wit", I, I)
        if cand.ndim == 1:
            st.assume(z3.ForAll([t], z3.Implies(z3.And(0 <= t, t < b), z3.And(0 <= w(t), w(t) < to_int(cand.shape[0]), q(t) == to_int(cand.sel(w(t)))))))
            ncols = X.shape[0]
        else:
            st.assume(z3.ForAll([t], z3.Implies(z3.And(0 <= t, t < b), z3.And(0 <= q(t), q(t) < to_int(cand.shape[0])))))
            ncols = cand.shape[0]
        qa = st.alloc(ArrData((b,), lambda i: q(i), "i"))
        U = ArrData((b, ncols), fresh_sel("inner_U", "f", 2), "f")
        Ur = st.alloc(U)
        ctx.setdefault("inner_calls", []).append(dict(X=X, y=y, cand=cand, b=b, q=st.get(qa), U=U, kw=dict(kw), state_len=len(st.pc)))
        if kw.get("return_utilities") is True:
            return (qa, Ur)
        return qa
    L.contracts["__inner__.query"] = inner_query

    @L.fn("check_scalar")
    def _cs(E, st, args, kw, node):
        """check_scalar raises unless the bounds hold (raising branch cut): min_val / max_val with inclusiveness"""
        v = args[0]
        if is_z3(v) or isinstance(v, (int, float)):
            if "min_val" in kw and kw["min_val"] is not None:
                nanv, x = to_real(v)
                lo = to_real(kw["min_val"])[1]
                st.assume(x >= lo if kw.get("min_inclusive", True) else x > lo)
            if "max_val" in kw and kw["max_val"] is not None:
                nanv, x = to_real(v)
                hi = to_real(kw["max_val"])[1]
                st.assume(x <= hi if kw.get("max_inclusive", True) else x < hi)
        return None
    return L


def unit_subsampling(mode, excl, mc_kind, ru=True):
    ctx_holder = {}

    def lib():
        return wrapper_lib(ctx_holder)

    def setup(E, st):
        ctx_holder.clear()
        n, d = z3.Int("n"), z3.Int("d")
        st.assume(n >= 1, d >= 1)
        Xd = ArrData((n, d), fresh_sel("X", "o", 2), "o")
        yd = ArrData((n,), fresh_sel("y", "o"), "o")
        X, y = st.alloc(Xd), st.alloc(yd)
        ml = Opaque("missing_label")
        if mc_kind == "int":
            mc = z3.Int("max_candidates")
        else:
            mc = mk_fv(z3.BoolVal(False), z3.Real("max_candidates_ratio"))
        inner = st.alloc(ObjData("__inner__", {"__open__": True, "__isinstance__": ("SingleAnnotatorPoolQueryStrategy", "PoolQueryStrategy", "QueryStrategy")}))
        selfo = st.alloc(ObjData(CLS, {"query_strategy": inner, "max_candidates": mc, "exclude_non_subsample": excl, "missing_label": ml,
                                       "random_state": Opaque("random_state")}))
        ctx = ctx_holder
        ctx.update(n=n, d=d, X=Xd, y=yd, ml=ml, mc=mc, self=selfo)
        if mode == "none":
            cand = None
        elif mode == "idx":
            m = z3.Int("m")
            st.assume(m >= 1)
            c = ArrData((m,), fresh_sel("cand", "i"), "i")
            c.strictly_increasing = True
            t, u = z3.Ints("c_t c_u")
            st.assume(z3.ForAll([t, u], z3.Implies(z3.And(0 <= t, t < u, u < m), to_int(c.sel(t)) < to_int(c.sel(u)))))
            st.assume(z3.ForAll([t], z3.Implies(z3.And(0 <= t, t < m), z3.And(0 <= to_int(c.sel(t)), to_int(c.sel(t)) < n))))
            cand = st.alloc(c)
            ctx.update(m=m, cand=c)
        else:
            m = z3.Int("m")
            st.assume(m >= 1)
            c = ArrData((m, d), fresh_sel("candrows", "o", 2), "o")
            cand = st.alloc(c)
            ctx.update(m=m, cand=c)
        bs = z3.Int("batch_size")
        ctx["bs"] = bs
        ctx["args"] = [selfo, X, y]
        ctx["kwargs"] = {"candidates": cand, "batch_size": bs, "return_utilities": ru}
        return ctx

    def post(E, ctx, outs):
        rets = returns(outs)
        if not rets:
            E.oblige("reaches.return", [], z3.BoolVal(False))
        n, yd, ml = ctx["n"], ctx["y"], ctx["ml"]
        miss = lambda j: MISSING(yd.sel(j).sym, ml.sym)
        t, u, j, r, p = z3.Ints("pt pu pj pr pp")
        calls_all = ctx.get("inner_calls", [])
        for o in rets:
            st = o.state
            # --- the draw
            ch = [e for e in st.events if e[0] == "choice"]
            E.oblige("C20.sub.exactly_one_draw", st, z3.BoolVal(len(ch) == 1))
            if len(ch) != 1:
                continue
            nc = st.get(ch[0][2]) if ch[0][2].id in st.heap else None
            src, npop, k, f = nc.choice_of
            # CI: membership predicate and size
            if mode == "none":
                in_ci = lambda jj: z3.And(0 <= jj, jj < n, miss(jj))
                E.oblige("C20.sub.draw_from_the_unlabeled_samples", st, z3.BoolVal(src is not None) if src is None else z3.And(
                    z3.ForAll([t], z3.Implies(z3.And(0 <= t, t < npop), in_ci(to_int(src.sel(t))))),
                    z3.ForAll([t, u], z3.Implies(z3.And(0 <= t, t < u, u < npop), to_int(src.sel(t)) < to_int(src.sel(u)))),
                    z3.ForAll([j], z3.Implies(in_ci(j), z3.Exists([t], z3.And(0 <= t, t < npop, to_int(src.sel(t)) == j))))))
            elif mode == "idx":
                c = ctx["cand"]
                in_ci = lambda jj: z3.Exists([u], z3.And(0 <= u, u < ctx["m"], to_int(c.sel(u)) == jj))
                E.oblige("C20.sub.draw_from_the_given_indices", st, z3.BoolVal(src is not None) if src is None else z3.And(
                    npop == ctx["m"], z3.ForAll([t], z3.Implies(z3.And(0 <= t, t < npop), to_int(src.sel(t)) == to_int(c.sel(t))))))
            else:
                in_ci = lambda jj: z3.And(0 <= jj, jj < ctx["m"])
                E.oblige("C20.sub.draw_from_the_row_numbers", st, z3.And(npop == ctx["m"], z3.BoolVal(src is None) if src is None else
                         z3.ForAll([t], z3.Implies(z3.And(0 <= t, t < npop), to_int(src.sel(t)) == t))))
            if mc_kind == "int":
                want = z3.If(ctx["mc"] <= npop, ctx["mc"], npop)
                E.oblige("C20.sub.documented_size", st, k == want)
            else:
                ratio = to_real(ctx["mc"])[1]
                ce = z3.Int("ceil_w")
                E.oblige("C20.sub.documented_size", st, z3.ForAll([ce], z3.Implies(
                    z3.And(z3.ToReal(ce) >= z3.ToReal(npop) * ratio, z3.ToReal(ce) < z3.ToReal(npop) * ratio + 1), k == z3.If(ce <= npop, ce, npop))))
            in_nc = lambda jj: z3.Exists([t], z3.And(0 <= t, t < k, to_int(nc.sel(t)) == jj))
            # --- the inner query
            calls = [c_ for c_ in calls_all if c_["state_len"] <= len(st.pc) and all(z3.eq(a_, b_) for a_, b_ in zip(st.pc[:c_["state_len"]], st.pc))] \
                if False else calls_all
            mine = [c_ for c_ in calls if any(ev[0] == "call" for ev in [("call",)])]
            call = None
            for c_ in calls:
                # the call whose result array is the one used on this path: identify through the batch symbol appearing in the path condition
                if any(c_["b"].get_id() == sub.get_id() for h in st.pc for sub in _subterms(h)):
                    call = c_ if call is None else "many"
            E.oblige("C20.sub.inner_strategy_queried_exactly_once", st, z3.BoolVal(isinstance(call, dict)))
            if not isinstance(call, dict):
                continue
            Xi, yi, ci, U, q, b = call["X"], call["y"], call["cand"], call["U"], call["q"], call["b"]
            E.oblige("C20.sub.inner_batch_size_is_the_callers", st, z3.BoolVal(call["kw"].get("batch_size") is ctx["bs"] or
                                                                               (is_z3(call["kw"].get("batch_size")) and z3.eq(call["kw"]["batch_size"], ctx["bs"]))))
            X0 = ctx["X"]
            jj2 = z3.Int("pj2")
            if mode in ("none", "idx"):
                if excl:
                    S = getattr(Xi, "gather_of", (None, None))[1]
                    okS = S is not None and getattr(Xi, "gather_of")[0] is X0 and getattr(yi, "gather_of", (None, None))[0] is yd \
                        and getattr(yi, "gather_of")[1] is S
                    E.oblige("C20.sub.inner_sees_rows_of_the_training_data", st, z3.BoolVal(bool(okS)))
                    if not okS:
                        continue
                    ns = to_int(S.shape[0])
                    Sv = lambda pp_: to_int(S.sel(pp_))
                    E.oblige("C20.sub.reduced_set_strictly_increasing_in_range", st, z3.ForAll([t, u], z3.Implies(z3.And(0 <= t, t < u, u < ns),
                             z3.And(0 <= Sv(t), Sv(t) < Sv(u), Sv(u) < n))))
                    # which unlabeled NON-candidates stay in the reduced set is not part of the property (the class documents 'unlabeled
                    # candidates outside the sub-sample are excluded'); required: no candidate outside the sub-sample stays
                    pc_ = fresh("p", I)
                    E.oblige("C20.sub.reduced_set_excludes_the_other_unlabeled_candidates", st.pc + [0 <= pc_, pc_ < ns],
                             z3.Implies(z3.And(in_ci(Sv(pc_)), miss(Sv(pc_))), in_nc(Sv(pc_))))
                    jc = fresh("j", I)
                    E.oblige("C20.sub.reduced_set_has_every_labeled_and_subsampled_sample", st.pc + [0 <= jc, jc < n],
                             z3.Implies(z3.Or(z3.Not(miss(jc)), in_nc(jc)), z3.Exists([p], z3.And(0 <= p, p < ns, Sv(p) == jc))))
                    tr = Sv
                else:
                    E.oblige("C20.sub.inner_sees_the_training_data", st, z3.BoolVal(Xi is X0 and yi is yd))
                    ns = n
                    tr = lambda pp_: pp_
                nci = to_int(ci.shape[0])
                tc = fresh("t", I)
                E.oblige("C20.sub.inner_candidates_are_subsampled", st.pc + [0 <= tc, tc < nci],
                         z3.And(0 <= to_int(ci.sel(tc)), to_int(ci.sel(tc)) < ns, in_nc(tr(to_int(ci.sel(tc))))) if ci.ndim == 1 else z3.BoolVal(False))
                jc2 = fresh("j", I)
                E.oblige("C20.sub.every_subsampled_candidate_is_offered", st.pc + [in_nc(jc2)],
                         z3.Exists([t], z3.And(0 <= t, t < nci, tr(to_int(ci.sel(t))) == jc2)) if ci.ndim == 1 else z3.BoolVal(False))
            else:
                if excl:
                    S = getattr(Xi, "gather_of", (None, None))[1]
                    okS = S is not None and getattr(Xi, "gather_of")[0] is X0 and getattr(yi, "gather_of", (None, None))[1] is S
                    E.oblige("C20.sub.inner_sees_rows_of_the_training_data", st, z3.BoolVal(bool(okS)))
                    if okS:
                        ns = to_int(S.shape[0])
                        Sv = lambda pp_: to_int(S.sel(pp_))
                        pc_ = fresh("p", I)
                        E.oblige("C20.sub.reduced_set_is_the_labeled_samples", st, z3.And(
                            z3.ForAll([t, u], z3.Implies(z3.And(0 <= t, t < u, u < ns), z3.And(0 <= Sv(t), Sv(t) < Sv(u), Sv(u) < n))),
                            z3.ForAll([t], z3.Implies(z3.And(0 <= t, t < ns), z3.Not(miss(Sv(t))))),
                            z3.ForAll([j], z3.Implies(z3.And(0 <= j, j < n, z3.Not(miss(j))), z3.Exists([p], z3.And(0 <= p, p < ns, Sv(p) == j))))))
                else:
                    E.oblige("C20.sub.inner_sees_the_training_data", st, z3.BoolVal(Xi is X0 and yi is yd))
                g = getattr(ci, "gather_of", None)
                E.oblige("C20.sub.inner_candidates_are_the_drawn_rows", st, z3.BoolVal(g is not None and g[0] is ctx["cand"] and g[1] is nc))
            # --- result
            val = o.value
            if not ru:
                qo = arr_of(val, st) if isinstance(val, Ref) else None
                if qo is None or qo.ndim != 1:
                    E.oblige("C20.sub.returns_indices", st, False)
                    continue
                E.oblige("C20.sub.one_index_per_inner_selection", st, to_int(qo.shape[0]) == b)
                tq = fresh("t", I)
                E.oblige("C20.sub.selected_only_from_the_subsample", st.pc + [0 <= tq, tq < b], in_nc(to_int(qo.sel(tq))))
                continue
            if not (isinstance(val, tuple) and len(val) == 2):
                E.oblige("C20.sub.returns_indices_and_utilities", st, False)
                continue
            qo, NU = arr_of(val[0], st), arr_of(val[1], st)
            if qo is None or NU is None or qo.ndim != 1 or NU.ndim != 2:
                E.oblige("C20.sub.returns_indices_and_utilities", st, False)
                continue
            E.oblige("C20.sub.one_index_per_inner_selection", st, to_int(qo.shape[0]) == b)
            tq = fresh("t", I)
            E.oblige("C20.sub.selected_only_from_the_subsample", st.pc + [0 <= tq, tq < b], in_nc(to_int(qo.sel(tq))))
            ncols = n if mode != "rows" else ctx["m"]
            E.oblige("C20.sub.utilities_shape", st, z3.And(to_int(NU.shape[0]) == b, to_int(NU.shape[1]) == ncols))
            rc, jc3 = fresh("r", I), fresh("j", I)
            hyp = st.pc + [0 <= rc, rc < b, 0 <= jc3, jc3 < ncols]
            nanv, valv = to_real(NU.sel(rc, jc3))
            E.oblige("C20.sub.utilities_NaN_outside_the_candidates", hyp, z3.Implies(z3.Not(in_ci(jc3)), nanv))
            E.oblige("C20.sub.utilities_minus_inf_for_candidates_outside_the_subsample", hyp,
                     z3.Implies(z3.And(in_ci(jc3), z3.Not(in_nc(jc3))), z3.And(z3.Not(nanv), valv == NEG_INF)))
            if mode in ("none", "idx"):
                inner_col = z3.Exists([p], z3.And(0 <= p, p < ns, tr(p) == jc3, _same_fv(NU.sel(rc, jc3), U.sel(rc, p))))
            else:
                inner_col = z3.Exists([t], z3.And(0 <= t, t < k, to_int(nc.sel(t)) == jc3, _same_fv(NU.sel(rc, jc3), U.sel(rc, t))))
            E.oblige("C20.sub.utilities_of_the_subsample_are_the_wrapped_strategys", hyp, z3.Implies(in_nc(jc3), inner_col))
    return se_unit(f"pool_wrappers.SubSamplingWrapper.query.{mode}.{'exclude' if excl else 'keep'}.{mc_kind}{'' if ru else '.indices_only'}", FW, f"{CLS}.query", CLS, setup, post,
                   lib_factory=lib)


def _same_fv(a, b):
    na, va = to_real(a)
    nb, vb = to_real(b)
    return z3.And(na == nb, z3.Implies(z3.Not(na), va == vb))


def _subterms(t):
    seen, stack = set(), [t]
    while stack:
        x = stack.pop()
        if x.get_id() in seen:
            continue
        seen.add(x.get_id())
        yield x
        if z3.is_quantifier(x):
            stack.append(x.body())
        else:
            stack.extend(x.children())


UNITS = {}
for md in ("none", "idx", "rows"):
    for ex in (False, True):
        for mk in ("int", "ratio"):
            UNITS[f"sub.{md}.{ex}.{mk}"] = unit_subsampling(md, ex, mk)
        UNITS[f"sub.{md}.{ex}.int.indices_only"] = unit_subsampling(md, ex, "int", ru=False)


# ========================================================================================== ParallelUtilityEstimationWrapper.query (C20)
"""ParallelUtilityEstimationWrapper.query: 'returns the same utilities and (for equal seeds) the same selection as the wrapped strategy for any
number of jobs'.

Assumed contract of the wrapped strategy (what makes chunked evaluation meaningful at all; checked per strategy by the bounded stand-in):
its utilities are sample-wise -- query(X, y, candidates=<rows C>, batch_size=1, return_utilities=True)[1][0][i] = u(X, y, C[i]) for an
(uninterpreted) scoring function u.  Ensures, for n_jobs = 1, 2, 3 (each for every data set with at least n_jobs candidates, every candidate mode):
  chunks      the candidates are split into n_jobs consecutive, non-empty chunks covering them in order (numpy array_split); the wrapped
              strategy is queried once per chunk on the caller's (validated) X, y with batch_size=1 and return_utilities=True
  utilities   the vector handed to simple_batch holds u(X, y, x_c) at the position of candidate c (index space of X for None / index
              candidates, candidate order for feature rows) and NaN at every non-candidate -- independent of n_jobs
  selection   the result is simple_batch(utilities, random_state_, batch_size, return_utilities) (its contract: contracts/selection.py)
Samples are modelled with ONE opaque feature (the wrapper never looks at features).  joblib: Parallel(n_jobs=k)(delayed(f)(c) for c in chunks)
= [f(c) for c in chunks] (order preserved)."""
PCLS = "ParallelUtilityEstimationWrapper"
UF = z3.Function("inner_utility", USort, R)
UFNAN = z3.Function("inner_utility_is_nan", USort, B)


def _select_py(vals, j):
    if isinstance(j, int):
        return vals[j]
    js = z3.simplify(j)
    if z3.is_int_value(js):
        return vals[js.as_long()]
    raise Unsupported("symbolic position in a short python list")


def parallel_lib(ctx, mode):
    from pyvc.se import NativeFn, DictData
    L = pool_lib()

    def validate_contract(E, st, recv, args, kw, node):
        names = ["X", "y", "candidates", "batch_size", "return_utilities", "reset", "check_X_dict"]
        a = dict(zip(names, args))
        a.update(kw)
        od = st.get(recv)
        nf = dict(od.fields)
        nf["missing_label_"] = nf.get("missing_label")
        rng = st.alloc(RngData(fresh_fn("stream", I, R), fresh("pos", I), fresh("aux", I)))
        nf["random_state_"] = rng
        ctx["rng"] = rng
        st.put(recv, ObjData(od.cls, nf))
        bs2 = fresh("batch_size_validated", I)
        st.assume(to_int(a["batch_size"]) >= 1, bs2 >= 0, bs2 <= to_int(a["batch_size"]))
        ctx["bs_validated"] = bs2
        return (a["X"], a["y"], a["candidates"], bs2, a["return_utilities"])

    def transform_contract(E, st, recv, args, kw, node):
        """contract of _transform_candidates (units pool_base._transform_candidates.*): feature rows come back as they are without a mapping;
        otherwise mapping = the candidate indices (None: the unlabeled ones), strictly increasing, and X_cand = X[mapping]"""
        if mode == "rows":
            return (args[0], None)
        X = as_array(args[1], st)
        mp = ctx["mapping"]
        Xc = ArrData((mp.shape[0], 1), lambda i, j: X.sel(to_int(mp.sel(i)), j), "o")
        ctx["X_cand"] = Xc
        return (st.alloc(Xc), ctx["mapping_ref"])
    for c in ("SingleAnnotatorPoolQueryStrategy", "PoolQueryStrategy", PCLS):
        L.contracts[f"{c}._validate_data"] = validate_contract
        L.contracts[f"{c}._transform_candidates"] = transform_contract

    def inner_query(E, st, recv, args, kw, node):
        cand = as_array(kw["candidates"], st)
        if cand.ndim != 2:
            raise Unsupported("inner strategy queried with something else than feature rows")
        U = ArrData((1, cand.shape[0]), lambda r, i, cand=cand: mk_fv(UFNAN(cand.sel(i, z3.IntVal(0)).sym), UF(cand.sel(i, z3.IntVal(0)).sym)), "f")
        q = st.alloc(ArrData((1,), fresh_sel("inner_q", "i"), "i"))
        ctx.setdefault("inner_calls", []).append(dict(kw=dict(kw), args=list(args), cand=cand))
        if kw.get("return_utilities") is True:
            return (q, st.alloc(U))
        return q
    L.contracts["__inner__.query"] = inner_query

    @L.fn("Parallel")
    def _parallel(E, st, args, kw, node):
        ctx.setdefault("parallel_kw", []).append(dict(kw))

        def run(E, st, a, k, node):
            lst = st.get(a[0]) if isinstance(a[0], Ref) else None
            if not isinstance(lst, ListData) or not isinstance(lst.n, int):
                raise Unsupported("Parallel(...) applied to something else than a short list of delayed calls")
            out = []
            for j in range(lst.n):
                d = st.get(lst.sel(j))
                out.append(E.call_funcval(d.fields["f"], list(d.fields["args"]), dict(d.fields["kwargs"]), st))
            return st.alloc(ListData(len(out), lambda j, out=tuple(out): _select_py(out, j), "o"))
        return NativeFn("Parallel(...)", run)

    @L.fn("delayed")
    def _delayed(E, st, args, kw, node):
        f = args[0]

        def mk(E, st, a, k, node):
            return st.alloc(ObjData("__delayed__", {"f": f, "args": tuple(a), "kwargs": dict(k)}))
        return NativeFn("delayed(f)", mk)

    base_min = L.functions["min"]

    @L.fn("min")
    def _min(E, st, args, kw, node):
        """min(k, n) for a constant k and a length n that is known to be at least k on this path: k"""
        if len(args) == 2 and isinstance(args[0], int) and is_z3(args[1]):
            s = z3.Solver()
            s.set("timeout", 2000)
            s.add(*st.pc)
            s.add(to_int(args[1]) < args[0])
            if s.check() == z3.unsat:
                return args[0]
        return base_min(E, st, args, kw, node)

    @L.fn("np.array_split")
    def _split(E, st, args, kw, node):
        """np.array_split(a, k) along axis 0 for a constant k: k consecutive chunks, the first len(a) % k of length len(a) // k + 1, the others
        of length len(a) // k"""
        a = as_array(args[0], st) if isinstance(args[0], Ref) else None
        k = args[1]
        if a is None or not isinstance(k, int) or k < 1 or k > 4 or kw:
            raise Unsupported("np.array_split with a non-constant number of chunks")
        n = to_int(a.shape[0])
        q, r = n / k, n % k
        offs = [z3.IntVal(0)]
        for i in range(k):
            offs.append(z3.simplify(offs[-1] + q + z3.If(i < r, 1, 0)))
        chunks = []
        for i in range(k):
            lo, sz = offs[i], z3.simplify(offs[i + 1] - offs[i])
            if a.ndim == 2:
                c = ArrData((sz, a.shape[1]), lambda t, j, lo=lo: a.sel(lo + t, j), a.kind)
            else:
                c = ArrData((sz,), lambda t, lo=lo: a.sel(lo + t), a.kind)
            chunks.append(st.alloc(c))
        ctx["chunks"] = (offs, chunks)
        return st.alloc(ListData(k, lambda j, ch=tuple(chunks): _select_py(ch, j), "o"))

    @L.fn("cpu_count")
    def _cpu(E, st, args, kw, node):
        return fresh("cpu_count", I)

    def simple_batch_site(E, st, args, kw, node):
        names = ["utilities", "random_state", "batch_size", "return_utilities", "method"]
        a = dict(zip(names, args))
        a.update(kw)
        res = Opaque("simple_batch_result")
        ctx.setdefault("sites", []).append(dict(U=a.get("utilities"), rs=a.get("random_state"), bs=a.get("batch_size"), ru=a.get("return_utilities"),
                                            method=a.get("method"), result=res, pre={r.id: st.heap.get(r.id) for r in [a.get("utilities")] if isinstance(r, Ref)}))
        return res
    L.functions["simple_batch"] = simple_batch_site
    return L


def unit_parallel(mode, k):
    ctx = {}

    def setup(E, st):
        ctx.clear()
        n = z3.Int("n")
        st.assume(n >= 1)
        Xd = ArrData((n, 1), fresh_sel("X", "o", 2), "o")
        yd = ArrData((n,), fresh_sel("y", "o"), "o")
        X, y = st.alloc(Xd), st.alloc(yd)
        inner = st.alloc(ObjData("__inner__", {"__open__": True, "__isinstance__": ("SingleAnnotatorPoolQueryStrategy", "PoolQueryStrategy", "QueryStrategy")}))
        selfo = st.alloc(ObjData(PCLS, {"query_strategy": inner, "n_jobs": k, "parallel_dict": None, "missing_label": Opaque("missing_label"),
                                        "random_state": Opaque("random_state")}))
        c = z3.Int("n_candidates")
        st.assume(c >= k)                                  # at least one candidate per job
        if mode == "rows":
            cd = ArrData((c, 1), fresh_sel("candrows", "o", 2), "o")
            cand = st.alloc(cd)
            ctx["X_cand"] = cd
        else:
            mp = ArrData((c,), fresh_sel("mapping", "i"), "i")
            t, u = z3.Ints("mp_t mp_u")
            st.assume(z3.ForAll([t, u], z3.Implies(z3.And(0 <= t, t < u, u < c), to_int(mp.sel(t)) < to_int(mp.sel(u)))))
            st.assume(z3.ForAll([t], z3.Implies(z3.And(0 <= t, t < c), z3.And(0 <= to_int(mp.sel(t)), to_int(mp.sel(t)) < n))))
            mp.strictly_increasing = True
            ctx["mapping"] = mp
            ctx["mapping_ref"] = st.alloc(mp)
            cand = ctx["mapping_ref"] if mode == "idx" else None
        bs, ru = z3.Int("batch_size"), z3.Bool("return_utilities")
        ctx.update(n=n, c=c, X=X, y=y, self=selfo, bs=bs, ru=ru, Xd=Xd)
        return {"args": [selfo, X, y], "kwargs": {"candidates": cand, "batch_size": bs, "return_utilities": ru}}

    def post(E, c_, outs):
        rets = returns(outs)
        if not rets:
            E.oblige("reaches.return", [], z3.BoolVal(False))
        n, c = ctx["n"], ctx["c"]
        for o in rets:
            st = o.state
            sites = ctx.get("sites", [])
            E.oblige("C20.parallel.result_is_simple_batch_of_the_utilities", st, z3.BoolVal(len(sites) == 1 and o.value is sites[0]["result"]))
            calls = ctx.get("inner_calls", [])
            E.oblige("C20.parallel.one_inner_query_per_job", st, z3.BoolVal(len(calls) == k))
            pk = ctx.get("parallel_kw", [])
            E.oblige("C20.parallel.pool_created_with_n_jobs", st, z3.BoolVal(len(pk) == 1 and pk[0].get("n_jobs") == k))
            for cl in calls:
                kw = cl["kw"]
                E.oblige("C20.parallel.inner_query_sees_the_callers_data", st, z3.BoolVal(
                    isinstance(kw.get("X"), Ref) and kw["X"].id == ctx["X"].id and isinstance(kw.get("y"), Ref) and kw["y"].id == ctx["y"].id
                    and kw.get("batch_size") == 1 and kw.get("return_utilities") is True))
            if len(sites) != 1:
                continue
            s = sites[0]
            E.oblige("C20.parallel.selection_uses_random_state__batch_size_and_flag", st, z3.And(
                z3.BoolVal(isinstance(s["rs"], Ref) and s["rs"].id == ctx["rng"].id and s["method"] in (None, "max")),
                to_int(s["bs"]) == ctx["bs_validated"], z3bool(s["ru"]) == ctx["ru"]))
            U = s["pre"].get(s["U"].id) if isinstance(s["U"], Ref) else None
            if not isinstance(U, ArrData) or U.ndim != 1:
                E.oblige("C20.parallel.utilities_form_a_vector", st, z3.BoolVal(False))
                continue
            Xc = ctx["X_cand"]
            i, j = z3.Ints("pu_i pu_j")
            tok = Xc.sel(i, z3.IntVal(0)).sym
            if mode == "rows":
                pos = i
                E.oblige("C20.parallel.one_utility_per_candidate", st, to_int(U.shape[0]) == c)
            else:
                pos = to_int(ctx["mapping"].sel(i))
                E.oblige("C20.parallel.one_utility_per_sample", st, to_int(U.shape[0]) == n)
                un, uv = to_real(U.sel(j))
                E.oblige("C20.parallel.non_candidates_are_nan", st, z3.ForAll([j], z3.Implies(
                    z3.And(0 <= j, j < n, z3.Not(z3.Exists([i], z3.And(0 <= i, i < c, to_int(ctx["mapping"].sel(i)) == j)))), un)))
            un, uv = to_real(U.sel(pos))
            E.oblige("C20.parallel.utility_of_candidate_is_the_wrapped_strategys_score", st, z3.ForAll([i], z3.Implies(
                z3.And(0 <= i, i < c), z3.And(un == UFNAN(tok), z3.Or(un, uv == UF(tok))))))
    return se_unit(f"pool_wrappers.ParallelUtilityEstimationWrapper.query.{mode}.jobs{k}", FW, f"{PCLS}.query", PCLS, setup, post,
                   lib_factory=lambda: parallel_lib(ctx, mode))


for _m in ("none", "idx", "rows"):
    for _k in (1, 2, 3):
        UNITS[f"ParallelUtilityEstimationWrapper.query.{_m}.jobs{_k}"] = unit_parallel(_m, _k)
