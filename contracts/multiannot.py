"""Contracts for MultiAnnotatorPoolQueryStrategy._transform_cand_annot (skactiveml/base.py) — C07.

For each of the ways of specifying candidates x annotators the availability mask A_cand handed to the strategies is a BOOLEAN
array of shape (#selectable samples, #annotators) that is true exactly at the available pairs:
  (None, None)      the samples with a missing label, A_cand[r, j] <=> y[cand[r], j] is missing
  (None, indices)   all samples, A_cand[i, j] <=> j is among the given annotators
  (None, matrix)    all samples, A_cand = the given matrix
  (indices, None)   the given samples, every annotator
  (indices, idx)    the given samples, A_cand[r, j] <=> j is among the given annotators
  (indices, matrix) A_cand = the given matrix
  (rows, *)         as above with the candidate rows, no mapping
(The boolean-ness obligation failed on the original tree for (None, indices): np.full_like(y, False) inherited y's dtype.)
"""
import z3

from pyvc.se import (State, ArrData, ObjData, Opaque, Ref, fresh, fresh_fn, fresh_sel, to_int, I, B, USort, z3bool, Unsupported)
from pyvc.unit import se_unit, returns, raises
from pyvc.lib import as_array, arr_of
from .pool_base import pool_lib, MISSING, sym_of

FB = "skactiveml/base.py"
CASES = [(c, a) for c in ("none", "idx", "rows") for a in ("none", "idx", "matrix")]


def unit_transform(cmode, amode):
    def setup(E, st):
        n, d, na = z3.Int("n"), z3.Int("d"), z3.Int("n_annotators")
        st.assume(n >= 1, d >= 1, na >= 1)
        X = st.alloc(ArrData((n, d), fresh_sel("X", "o", 2), "o"))
        yd = ArrData((n, na), fresh_sel("y", "o", 2), "o")
        y = st.alloc(yd)
        ml = Opaque("missing_label_")
        selfo = st.alloc(ObjData("MultiAnnotatorPoolQueryStrategy", {"missing_label_": ml, "__open__": True}))
        m = z3.Int("m")
        st.assume(m >= 0)
        ctx = {"n": n, "na": na, "y": yd, "ml": ml, "m": m}
        if cmode == "none":
            cand = None
            nsel = None
        elif cmode == "idx":
            c = ArrData((m,), fresh_sel("cand", "i"), "i")
            tq, uq = z3.Ints("pre_t pre_u")
            # requires (established by _validate_data / check_indices): strictly increasing sample indices within range
            st.assume(z3.ForAll([tq], z3.Implies(z3.And(0 <= tq, tq < m), z3.And(0 <= to_int(c.sel(tq)), to_int(c.sel(tq)) < n))))
            st.assume(z3.ForAll([tq, uq], z3.Implies(z3.And(0 <= tq, tq < uq, uq < m), to_int(c.sel(tq)) < to_int(c.sel(uq)))))
            cand = st.alloc(c)
            ctx["cand"] = c
        else:
            cand = st.alloc(ArrData((m, d), fresh_sel("candrows", "o", 2), "o"))
        if amode == "none":
            ann = None
        elif amode == "idx":
            k = z3.Int("k")
            st.assume(k >= 0)
            a_ = ArrData((k,), fresh_sel("annot", "i"), "i")
            tq = z3.Int("pre_a")
            st.assume(z3.ForAll([tq], z3.Implies(z3.And(0 <= tq, tq < k), z3.And(0 <= to_int(a_.sel(tq)), to_int(a_.sel(tq)) < na))))   # requires: valid annotator indices
            ann = st.alloc(a_)
            ctx["ann"] = a_
            ctx["k"] = k
        else:
            rows = n if cmode == "none" else m
            a_ = ArrData((rows, na), fresh_sel("avail", "b", 2), "b")
            ann = st.alloc(a_)
            ctx["annm"] = a_
        ctx["args"] = [selfo, cand, ann, X, y]

        def conc(ev):
            from pyvc import cex
            ca = st.get(cand) if cand is not None else None
            aa = st.get(ann) if ann is not None else None
            return {"family": "transform_cand_annot", "sig": "counter-model", "cmode": cmode, "amode": amode, "y": cex.arr(ev, yd),
                    "missing": cex.missing_flags(ev, yd, MISSING, ml), "cand": None if ca is None else cex.arr(ev, ca) if cmode == "idx" else
                    [[float(r_), 0.0] for r_ in range(cex.dim(ev, ca))], "ann": None if aa is None else cex.arr(ev, aa)}
        E.default_concretize = conc
        return ctx

    def post(E, ctx, outs):
        rets = returns(outs)
        if not rets:
            E.oblige("reaches.return", [], z3.BoolVal(False))
        n, na, m = ctx["n"], ctx["na"], ctx["m"]
        i, j, t = z3.Ints("i j t")
        for o in rets:
            st = o.state
            if not (isinstance(o.value, tuple) and len(o.value) == 3):
                E.oblige("returns.triple", st, False)
                continue
            Xc, mp, A = o.value
            Ad = arr_of(A, st)
            E.oblige("C07.A_cand_is_a_boolean_matrix", st, z3.BoolVal(Ad is not None and Ad.kind == "b" and Ad.ndim == 2))
            if Ad is None or Ad.ndim != 2 or Ad.kind != "b":
                continue
            E.oblige("C07.A_cand_has_one_column_per_annotator", st, to_int(Ad.shape[1]) == na)
            mpd = arr_of(mp, st)
            if cmode == "rows":
                E.oblige("C07.no_mapping_for_feature_rows", st, z3.BoolVal(mp is None))
                rows = m
                sample_of = None
            else:
                E.oblige("C07.mapping_returned", st, z3.BoolVal(mpd is not None and mpd.ndim == 1))
                if mpd is None:
                    continue
                rows = to_int(mpd.shape[0])
                sample_of = lambda r: to_int(mpd.sel(r))
            E.oblige("C07.A_cand_has_one_row_per_selectable_sample", st, to_int(Ad.shape[0]) == rows)
            rng = z3.And(0 <= i, i < rows, 0 <= j, j < na)
            if amode == "idx":
                ann, k = ctx["ann"], ctx["k"]
                avail = z3.Exists([t], z3.And(0 <= t, t < k, to_int(ann.sel(t)) == j))
            elif amode == "matrix":
                avail = z3bool(ctx["annm"].sel(i, j))
            elif cmode == "none":
                avail = MISSING(ctx["y"].sel(sample_of(i), j).sym, ctx["ml"].sym)
            else:
                avail = z3.BoolVal(True)
            E.oblige("C07.A_cand_true_exactly_at_the_available_pairs", st, z3.ForAll([i, j], z3.Implies(rng, z3bool(Ad.sel(i, j)) == avail)))
            if cmode == "none" and amode == "none":
                # the selectable samples are exactly those with at least one missing label
                has_missing = lambda s_: z3.Exists([j], z3.And(0 <= j, j < na, MISSING(ctx["y"].sel(s_, j).sym, ctx["ml"].sym)))
                ic = fresh("row", I)
                hyp = st.pc + [0 <= ic, ic < rows]
                E.oblige("C07.selectable_samples_are_valid_rows", hyp, z3.And(0 <= sample_of(ic), sample_of(ic) < n))
                E.oblige("C07.selectable_samples_have_a_missing_label", hyp, has_missing(sample_of(ic)))
            if cmode == "none" and amode != "none":
                E.oblige("C07.all_samples_selectable", st, z3.And(rows == n, z3.ForAll([i], z3.Implies(z3.And(0 <= i, i < n), sample_of(i) == i))))
            if cmode == "idx":
                E.oblige("C07.mapping_is_the_given_indices", st, z3.ForAll([i], z3.Implies(z3.And(0 <= i, i < rows), sample_of(i) == to_int(ctx["cand"].sel(i)))))
    return se_unit(f"multiannot._transform_cand_annot.{cmode}.{amode}", FB, "MultiAnnotatorPoolQueryStrategy._transform_cand_annot",
                   "MultiAnnotatorPoolQueryStrategy", setup, post, lib_factory=pool_lib)


UNITS = {f"_transform_cand_annot.{c}.{a}": unit_transform(c, a) for c, a in CASES}


# ------------------------------------------------------------------------------------------ _validate_data: batch size clipped to the pairs
def unit_validate(cmode, amode):
    """MultiAnnotatorPoolQueryStrategy._validate_data: the batch size handed on is min(batch size of the base-class validation, number of
    candidate pairs), where the number of pairs is |candidates| x |annotators| for index / None specifications and the number of True
    entries of the availability matrix resp. of the missing-label mask otherwise; annotator indices come back validated by check_indices,
    an availability matrix comes back boolean with its rows re-ordered like the (sorted) candidate indices."""
    def lib():
        L = pool_lib()

        def base_validate(E, st, recv, args, kw, node):
            """assumed contract of PoolQueryStrategy._validate_data (units pool_base._validate_data.*): data unchanged, index candidates
            sorted (ascending rearrangement of the given ones), batch size not increased"""
            names = ["X", "y", "candidates", "batch_size", "return_utilities", "reset", "check_X_dict"]
            a = dict(zip(names, args))
            a.update(kw)
            od = st.get(recv)
            st.put(recv, ObjData(od.cls, dict(od.fields, missing_label_=od.fields.get("missing_label"))))
            bs_s = fresh("batch_size_base", I)
            st.assume(bs_s >= 0, bs_s <= to_int(a["batch_size"]))
            ctxh["bs_s"] = bs_s
            cand = a["candidates"]
            if cmode == "idx":
                c = st.get(cand)
                srt = L.functions["np.sort"](E, st, [cand], {}, node)          # validated candidates: ascending rearrangement
                ctxh["cand_sorted"] = st.get(srt)
                cand = srt
            return (a["X"], a["y"], cand, bs_s, a["return_utilities"])
        for c in ("PoolQueryStrategy", "SingleAnnotatorPoolQueryStrategy"):
            L.contracts[f"{c}._validate_data"] = base_validate

        @L.fn("check_array")
        def _ca(E, st, args, kw, node):
            """check_array(a, dtype=bool) of an integer matrix: a NEW boolean array, True exactly at the non-zero entries (numpy's astype(bool));
            otherwise the validated array itself (validation only)"""
            a = as_array(args[0], st)
            if kw.get("dtype") is not None and a.kind == "i" and a.ndim == 2:
                r = ArrData(a.shape, lambda i, j, a=a: to_int(a.sel(i, j)) != 0, "b")
                return st.alloc(r)
            return args[0]

        @L.fn("check_indices")
        def _ci(E, st, args, kw, node):
            """check_indices(annotators, y, dim=1): strictly increasing, the same set of indices, all below y.shape[1]"""
            a = as_array(args[0], st)
            r = L.functions["np.unique"](E, st, [args[0]], {}, node)
            rd = st.get(r)
            t = z3.Int("ci_t")
            lim = to_int(as_array(args[1], st).shape[kw.get("dim", 0)])
            st.assume(z3.ForAll([t], z3.Implies(z3.And(0 <= t, t < to_int(rd.shape[0])), to_int(rd.sel(t)) < lim)))
            ctxh["annot_checked"] = rd
            return r

        @L.fn("np.argsort")
        def _argsort(E, st, args, kw, node):
            """np.argsort of a 1-D integer array: a bijection p of the positions with a[p[0]] <= a[p[1]] <= ..."""
            a = as_array(args[0], st)
            n = to_int(a.shape[0])
            p, pi = fresh_fn("argsort", I, I), fresh_fn("argsort_inv", I, I)
            t, u = z3.Ints("as_t as_u")
            st.assume(z3.ForAll([t], z3.Implies(z3.And(0 <= t, t < n), z3.And(0 <= p(t), p(t) < n, pi(p(t)) == t))))
            st.assume(z3.ForAll([t], z3.Implies(z3.And(0 <= t, t < n), z3.And(0 <= pi(t), pi(t) < n, p(pi(t)) == t))))
            st.assume(z3.ForAll([t, u], z3.Implies(z3.And(0 <= t, t < u, u < n), to_int(a.sel(p(t))) <= to_int(a.sel(p(u))))))
            srt = getattr(a, "_sorted", None)
            if srt is not None:
                st.assume(z3.ForAll([t], z3.Implies(z3.And(0 <= t, t < n), to_int(srt.sel(t)) == to_int(a.sel(p(t))))))   # numpy: sort(a) == a[argsort(a)]
            r = ArrData((n,), lambda i: p(i), "i")
            r.argsort_of = (a, p, pi)
            return st.alloc(r)

        @L.fn("int")
        def _int(E, st, args, kw, node):
            return to_int(args[0])

        @L.fn("warnings.warn")
        def _warn(E, st, args, kw, node):
            return None
        return L
    ctxh = {}

    def setup(E, st):
        ctxh.clear()
        n, d, na, bs = z3.Int("n"), z3.Int("d"), z3.Int("n_annotators"), z3.Int("batch_size")
        st.assume(n >= 1, d >= 1, na >= 1, bs >= 1)
        X = st.alloc(ArrData((n, d), fresh_sel("X", "o", 2), "o"))
        yd = ArrData((n, na), fresh_sel("y", "o", 2), "o")
        ml = Opaque("missing_label")
        selfo = st.alloc(ObjData("MultiAnnotatorPoolQueryStrategy", {"missing_label": ml, "random_state": Opaque("rs"), "__open__": True}))
        m, k = z3.Int("m"), z3.Int("k")
        st.assume(m >= 1, k >= 1)
        cand = ann = None
        if cmode == "idx":
            c = ArrData((m,), fresh_sel("cand", "i"), "i")
            t, u = z3.Ints("d_t d_u")
            st.assume(z3.ForAll([t, u], z3.Implies(z3.And(0 <= t, t < u, u < m), to_int(c.sel(t)) != to_int(c.sel(u)))))     # distinct indices
            st.assume(z3.ForAll([t], z3.Implies(z3.And(0 <= t, t < m), z3.And(0 <= to_int(c.sel(t)), to_int(c.sel(t)) < n))))   # of samples
            cand = st.alloc(c)
            ctxh["cand"] = c
        if amode == "idx":
            a_ = ArrData((k,), fresh_sel("annot", "i"), "i")
            tv = z3.Int("va_t")
            st.assume(z3.ForAll([tv], z3.Implies(z3.And(0 <= tv, tv < k), z3.And(0 <= to_int(a_.sel(tv)), to_int(a_.sel(tv)) < na))))   # valid annotator indices
            ann = st.alloc(a_)
            ctxh["ann"] = a_
        elif amode in ("matrix", "matrix_int"):
            rows = n if cmode == "none" else m
            if amode == "matrix":
                a_ = ArrData((rows, na), fresh_sel("avail", "b", 2), "b")
                ctxh["avail"] = lambda i, j: z3bool(a_.sel(i, j))
            else:       # the availability matrix handed over as a 0/1 integer array-like: the validation has to convert it
                a_ = ArrData((rows, na), fresh_sel("avail01", "i", 2), "i")
                ti, tj = z3.Ints("av_i av_j")
                st.assume(z3.ForAll([ti, tj], z3.Or(to_int(a_.sel(ti, tj)) == 0, to_int(a_.sel(ti, tj)) == 1)))
                ctxh["avail"] = lambda i, j: to_int(a_.sel(i, j)) != 0
            ann = st.alloc(a_)
            ctxh["annm"] = a_
        ctxh.update(n=n, na=na, bs=bs, m=m, k=k, y=yd, ml=ml)
        ctxh["args"] = [selfo, X, st.alloc(yd), cand, ann, bs, True, True]

        def conc(ev):
            from pyvc import cex
            return {"family": "multi_validate", "sig": "counter-model", "cmode": cmode, "amode": amode, "y": cex.arr(ev, yd),
                    "missing": cex.missing_flags(ev, yd, MISSING, ml), "bs": cex.ival(ev, bs),
                    "cand": None if cand is None else cex.arr(ev, st.get(cand)), "ann": None if ann is None else cex.arr(ev, st.get(ann))}
        E.default_concretize = conc
        return ctxh

    def post(E, ctx, outs):
        rets = returns(outs)
        if not rets:
            E.oblige("reaches.return", [], z3.BoolVal(False))
        n, na, m = ctx["n"], ctx["na"], ctx["m"]
        for o in rets:
            st = o.state
            if not (isinstance(o.value, tuple) and len(o.value) == 6):
                E.oblige("returns.six_values", st, False)
                continue
            X2, y2, c2, a2, bs2, ru2 = o.value
            nrows = n if cmode == "none" else to_int(st.get(c2).shape[0])
            # number of candidate pairs as the property defines it
            if amode == "none" and cmode == "none":
                cnt = [c for a_, c in getattr(E, "counted", []) if a_.ndim == 2 and z3.is_true(z3.simplify(
                    z3bool(a_.sel(z3.Int("pi"), z3.Int("pj"))) == MISSING(ctx["y"].sel(z3.Int("pi"), z3.Int("pj")).sym, ctx["ml"].sym)))]
                pairs = cnt[-1] if cnt else None
            elif amode == "none":
                pairs = nrows * na
            elif amode == "idx":
                pairs = nrows * to_int(ctx["annot_checked"].shape[0])
            else:
                ad = st.get(a2)
                cnt = [c for a_, c in getattr(E, "counted", []) if a_ is ad]
                pairs = cnt[-1] if cnt else None
            E.oblige("C07.validate.pair_count_identified", st, z3.BoolVal(pairs is not None))
            if pairs is None:
                continue
            bs_s = ctx["bs_s"]
            E.oblige("C07.validate.batch_size_clipped_to_the_candidate_pairs", st, to_int(bs2) == z3.If(pairs < bs_s, pairs, bs_s))
            if amode in ("matrix", "matrix_int"):
                ad = st.get(a2)
                E.oblige("C07.validate.availability_matrix_boolean_same_shape", st, z3.And(z3.BoolVal(ad.kind == "b" and ad.ndim == 2),
                         to_int(ad.shape[0]) == nrows, to_int(ad.shape[1]) == na))
                if cmode == "idx":
                    # row r of the returned matrix belongs to the r-th validated (sorted) candidate: it is the given row of that candidate
                    cs, cg, A0 = st.get(c2), ctx["cand"], ctx["annm"]
                    r, t, j = z3.Ints("vr vt vj")
                    E.oblige("C07.validate.matrix_rows_follow_the_sorted_candidates", st, z3.ForAll([r, t, j], z3.Implies(
                        z3.And(0 <= r, r < nrows, 0 <= t, t < m, 0 <= j, j < na, to_int(cg.sel(t)) == to_int(cs.sel(r))),
                        z3bool(ad.sel(r, j)) == ctx["avail"](t, j))))
                else:
                    i, j = z3.Ints("vi vj")
                    E.oblige("C07.validate.matrix_unchanged", st, z3.ForAll([i, j], z3.Implies(z3.And(0 <= i, i < n, 0 <= j, j < na),
                             z3bool(ad.sel(i, j)) == ctx["avail"](i, j))))
    return se_unit(f"multiannot._validate_data.{cmode}.{amode}", FB, "MultiAnnotatorPoolQueryStrategy._validate_data",
                   "MultiAnnotatorPoolQueryStrategy", setup, post, lib_factory=lib)


for c_ in ("none", "idx"):
    for a_ in ("none", "idx", "matrix", "matrix_int"):
        UNITS[f"_validate_data.{c_}.{a_}"] = unit_validate(c_, a_)
