"""Contracts for MultiAnnotatorPoolQueryStrategy._transform_cand_annot (skactiveml/base.py) — C07.

For each of the ways of specifying candidates x annotators the availability mask A_cand handed to the strategies is a BOOLEAN
array of shape (#selectable samples, #annotators) that is true exactly at the available pairs:
  (None, None)      the samples with a missing label, A_cand[r, j] <=> y[cand[r], j] is missing
  (None, indices)   all samples, A_cand[i, j] <=> j is among the given annotators
  (None, matrix)    all samples, A_cand = the given matrix
  (indices, None)   the given samples, every annotator
  (indices, idx)    the given samples, A_cand[r, j] <=> j is among the given annotators
  (indices, matrix) A_cand = the given matrix
  (rows, *)         as above with the candidate rows, no mapping
(The boolean-ness obligation failed on the original tree for (None, indices): np.full_like(y, False) inherited y's dtype.)
"""
import z3

from pyvc.se import (State, ArrData, ObjData, Opaque, Ref, fresh, fresh_fn, fresh_sel, to_int, I, B, USort, z3bool, Unsupported)
from pyvc.unit import se_unit, returns, raises
from pyvc.lib import as_array, arr_of
from .pool_base import pool_lib, MISSING, sym_of

FB = "skactiveml/base.py"
CASES = [(c, a) for c in ("none", "idx", "rows") for a in ("none", "idx", "matrix")]


def unit_transform(cmode, amode):
    def setup(E, st):
        n, d, na = z3.Int("n"), z3.Int("d"), z3.Int("n_annotators")
        st.assume(n >= 1, d >= 1, na >= 1)
        X = st.alloc(ArrData((n, d), fresh_sel("X", "o", 2), "o"))
        yd = ArrData((n, na), fresh_sel("y", "o", 2), "o")
        y = st.alloc(yd)
        ml = Opaque("missing_label_")
        selfo = st.alloc(ObjData("MultiAnnotatorPoolQueryStrategy", {"missing_label_": ml, "__open__": True}))
        m = z3.Int("m")
        st.assume(m >= 0)
        ctx = {"n": n, "na": na, "y": yd, "ml": ml, "m": m}
        if cmode == "none":
            cand = None
            nsel = None
        elif cmode == "idx":
            c = ArrData((m,), fresh_sel("cand", "i"), "i")
            cand = st.alloc(c)
            ctx["cand"] = c
        else:
            cand = st.alloc(ArrData((m, d), fresh_sel("candrows", "o", 2), "o"))
        if amode == "none":
            ann = None
        elif amode == "idx":
            k = z3.Int("k")
            st.assume(k >= 0)
            a_ = ArrData((k,), fresh_sel("annot", "i"), "i")
            ann = st.alloc(a_)
            ctx["ann"] = a_
            ctx["k"] = k
        else:
            rows = n if cmode == "none" else m
            a_ = ArrData((rows, na), fresh_sel("avail", "b", 2), "b")
            ann = st.alloc(a_)
            ctx["annm"] = a_
        ctx["args"] = [selfo, cand, ann, X, y]
        return ctx

    def post(E, ctx, outs):
        rets = returns(outs)
        if not rets:
            E.oblige("reaches.return", [], z3.BoolVal(False))
        n, na, m = ctx["n"], ctx["na"], ctx["m"]
        i, j, t = z3.Ints("i j t")
        for o in rets:
            st = o.state
            if not (isinstance(o.value, tuple) and len(o.value) == 3):
                E.oblige("returns.triple", st, False)
                continue
            Xc, mp, A = o.value
            Ad = arr_of(A, st)
            E.oblige("C07.A_cand_is_a_boolean_matrix", st, z3.BoolVal(Ad is not None and Ad.kind == "b" and Ad.ndim == 2))
            if Ad is None or Ad.ndim != 2 or Ad.kind != "b":
                continue
            E.oblige("C07.A_cand_has_one_column_per_annotator", st, to_int(Ad.shape[1]) == na)
            mpd = arr_of(mp, st)
            if cmode == "rows":
                E.oblige("C07.no_mapping_for_feature_rows", st, z3.BoolVal(mp is None))
                rows = m
                sample_of = None
            else:
                E.oblige("C07.mapping_returned", st, z3.BoolVal(mpd is not None and mpd.ndim == 1))
                if mpd is None:
                    continue
                rows = to_int(mpd.shape[0])
                sample_of = lambda r: to_int(mpd.sel(r))
            E.oblige("C07.A_cand_has_one_row_per_selectable_sample", st, to_int(Ad.shape[0]) == rows)
            rng = z3.And(0 <= i, i < rows, 0 <= j, j < na)
            if amode == "idx":
                ann, k = ctx["ann"], ctx["k"]
                avail = z3.Exists([t], z3.And(0 <= t, t < k, to_int(ann.sel(t)) == j))
            elif amode == "matrix":
                avail = z3bool(ctx["annm"].sel(i, j))
            elif cmode == "none":
                avail = MISSING(ctx["y"].sel(sample_of(i), j).sym, ctx["ml"].sym)
            else:
                avail = z3.BoolVal(True)
            E.oblige("C07.A_cand_true_exactly_at_the_available_pairs", st, z3.ForAll([i, j], z3.Implies(rng, z3bool(Ad.sel(i, j)) == avail)))
            if cmode == "none" and amode == "none":
                # the selectable samples are exactly those with at least one missing label
                has_missing = lambda s_: z3.Exists([j], z3.And(0 <= j, j < na, MISSING(ctx["y"].sel(s_, j).sym, ctx["ml"].sym)))
                ic = fresh("row", I)
                hyp = st.pc + [0 <= ic, ic < rows]
                E.oblige("C07.selectable_samples_are_valid_rows", hyp, z3.And(0 <= sample_of(ic), sample_of(ic) < n))
                E.oblige("C07.selectable_samples_have_a_missing_label", hyp, has_missing(sample_of(ic)))
            if cmode == "none" and amode != "none":
                E.oblige("C07.all_samples_selectable", st, z3.And(rows == n, z3.ForAll([i], z3.Implies(z3.And(0 <= i, i < n), sample_of(i) == i))))
            if cmode == "idx":
                E.oblige("C07.mapping_is_the_given_indices", st, z3.ForAll([i], z3.Implies(z3.And(0 <= i, i < rows), sample_of(i) == to_int(ctx["cand"].sel(i)))))
    return se_unit(f"multiannot._transform_cand_annot.{cmode}.{amode}", FB, "MultiAnnotatorPoolQueryStrategy._transform_cand_annot",
                   "MultiAnnotatorPoolQueryStrategy", setup, post, lib_factory=pool_lib)


UNITS = {f"_transform_cand_annot.{c}.{a}": unit_transform(c, a) for c, a in CASES}
