"""Contracts for the pool base classes (skactiveml/base.py) and check_indices (skactiveml/utils/_validation.py) — C01, C08.

check_indices(indices, A, dim=0)                 result strictly increasing, same set as the input, every entry < len(A)
SingleAnnotatorPoolQueryStrategy._validate_data  batch_size' = min(batch_size, n_cand) with n_cand = #unlabeled | #distinct index
                                                 candidates | #candidate rows; X, y returned with equal contents; index candidates
                                                 sorted and distinct; random_state_ determined by (random_state, #unlabeled + 1)
SingleAnnotatorPoolQueryStrategy._transform_candidates
                                                 None -> (X[unl], unl) with unl the ascending unlabeled positions;
                                                 indices -> (X[cand], cand); rows -> (cand, None) or MappingError
representation lemma (C08)                       candidates=None and candidates=<unlabeled indices> yield the same validated tuple
                                                 (batch size, mapping, random_state_) and hence the same X_cand
"""
import ast
import z3

from pyvc.se import (State, ArrData, ListData, ObjData, RngData, Opaque, Ref, LoopSpec, Engine, fresh, fresh_fn, fresh_sel,
                     to_real, to_int, I, R, B, USort, is_z3, Unsupported, z3bool, _Raise, GlobalName)
from pyvc.unit import se_unit, returns, raises, get_repo
from pyvc.lib import Lib, CNT, cnt_lemma_instances, mask_array, as_array, arr_of

FB = "skactiveml/base.py"
FV = "skactiveml/utils/_validation.py"
MISSING = z3.Function("MISSING", USort, USort, B)      # MISSING(label, sentinel)
NAN_SENTINEL = z3.Const("nan_sentinel", USort)
SEEDED = z3.Function("SEEDED_RNG", USort, I, I)          # identity of the generator derived from (random_state, multiplier)


def sym_of(v):
    if isinstance(v, Opaque):
        return v.sym
    if isinstance(v, float) and v != v:
        return NAN_SENTINEL
    if isinstance(v, GlobalName) and v.name in ("MISSING_LABEL", "np.nan"):
        return NAN_SENTINEL
    raise Unsupported(f"sentinel {v!r}")


def pool_lib():
    L = Lib()

    def unl_mask(E, st, y, ml):
        a = as_array(y, st) if isinstance(y, Ref) else None
        if a is None or a.kind != "o":
            return None
        ms = sym_of(ml)
        return ArrData(a.shape, lambda *i: MISSING(a.sel(*i).sym, ms), "b")

    @L.fn("is_unlabeled", "is_labeled", "unlabeled_indices", "labeled_indices")
    def _label_pred(E, st, args, kw, node):
        """contracts of skactiveml.utils._label (verified for the NaN-free part in contracts/labels.py; the dtype part is
        enumerated by the bounded stand-in of C16): elementwise 'equals the sentinel', complement, ascending positions"""
        E.used_lib = getattr(E, "used_lib", set())
        E.used_lib.add("label predicates: is_unlabeled(y, ml)[i] <=> y[i] is the sentinel; is_labeled = complement; *_indices = ascending positions")
        name = node.func.id if isinstance(node.func, ast.Name) else node.func.attr
        y = args[0] if args else kw.get("y")
        ml = kw.get("missing_label", args[1] if len(args) > 1 else float("nan"))
        m = unl_mask(E, st, y, ml)
        if m is None:
            return Opaque(name)
        if "is_labeled" == name or name == "labeled_indices":
            m = ArrData(m.shape, (lambda mm: (lambda *i: z3.Not(mm.sel(*i))))(m), "b")
        if name.endswith("indices"):
            if m.ndim != 1:
                return Opaque(name)
            r = L.filter(E, ArrData(m.shape, lambda i: i, "i"), m, st)
            st.get(r).strictly_increasing = True        # ascending positions (the filter contract states it)
            return r
        return st.alloc(m)

    @L.fn("check_random_state")
    def _crs(E, st, args, kw, node):
        """skactiveml.utils.check_random_state(random_state, seed_multiplier): a generator determined by the VALUE of
        random_state (deep copy, caller's generator not advanced) and the multiplier"""
        E.used_lib = getattr(E, "used_lib", set())
        E.used_lib.add("check_random_state(rs, mult): fresh generator that is a function of (rs, mult)")
        rs = args[0]
        mult = kw.get("seed_multiplier", args[1] if len(args) > 1 else None)
        if mult is None or not isinstance(rs, Opaque):
            return st.alloc(RngData(fresh_fn("stream", I, R), fresh("pos", I), fresh("aux", I)))
        ident = SEEDED(rs.sym, to_int(mult))
        d = RngData(fresh_fn("stream", I, R), fresh("pos", I), fresh("aux", I))
        d.ident = ident
        return st.alloc(d)

    @L.fn("np.unique")
    def _unique(E, st, args, kw, node):
        """np.unique of a 1-D integer array: strictly increasing, same set of values"""
        E.used_lib = getattr(E, "used_lib", set())
        E.used_lib.add("np.unique (1-D): strictly increasing, same set of values")
        a = as_array(args[0], st) if isinstance(args[0], Ref) else None
        if a is None or a.ndim != 1 or a.kind != "i" or kw:
            return Opaque("unique")
        m = fresh("n_unique", I)
        f = fresh_fn("uniq", I, I)
        src, back = fresh_fn("uniq_src", I, I), fresh_fn("uniq_pos", I, I)
        t, u = z3.Ints("ut uu")
        n = to_int(a.shape[0])
        st.assume(m >= 0, m <= n, z3.Implies(n > 0, m >= 1))
        st.assume(z3.ForAll([t, u], z3.Implies(z3.And(0 <= t, t < u, u < m), f(t) < f(u))))
        st.assume(z3.ForAll([t], z3.Implies(z3.And(0 <= t, t < m), z3.And(0 <= src(t), src(t) < n, to_int(a.sel(src(t))) == f(t)))))
        st.assume(z3.ForAll([t], z3.Implies(z3.And(0 <= t, t < n), z3.And(0 <= back(t), back(t) < m, f(back(t)) == to_int(a.sel(t))))))
        r = ArrData((m,), lambda i: f(i), "i")
        r.unique_of = a
        return st.alloc(r)

    @L.fn("column_or_1d")
    def _col(E, st, args, kw, node):
        return args[0]

    @L.fn("check_missing_label", "check_consistent_length", "check_classifier_params")
    def _noop(E, st, args, kw, node):
        return None

    @L.fn("int")
    def _int(E, st, args, kw, node):
        v = args[0]
        if is_z3(v) and z3.is_int(v):
            return v
        if isinstance(v, (int, bool)):
            return int(v)
        return E.unknown_call("int", args, kw, st, node)
    return L


def world(st, n_name="n"):
    """symbolic data set: X (n x d, opaque entries), y (n opaque labels)"""
    n, d = z3.Int(n_name), z3.Int("d")
    st.assume(n >= 1, d >= 1)
    X = st.alloc(ArrData((n, d), fresh_sel("X", "o", 2), "o"))
    y = st.alloc(ArrData((n,), fresh_sel("y", "o"), "o"))
    return n, d, X, y


def strategy_obj(st, cls="SingleAnnotatorPoolQueryStrategy", extra=None):
    fields = {"missing_label": Opaque("missing_label"), "random_state": Opaque("random_state"), "__open__": True}
    fields.update(extra or {})
    return st.alloc(ObjData(cls, fields))


# ------------------------------------------------------------------------------------------ check_indices
def unit_check_indices(tier_unused=None):
    def setup(E, st):
        n, m = z3.Int("n"), z3.Int("m")
        st.assume(n >= 0, m >= 0)
        idx = ArrData((m,), fresh_sel("idx", "i"), "i")
        A = st.alloc(ArrData((n,), fresh_sel("A", "o"), "o"))
        return {"args": [st.alloc(idx), A], "kwargs": {"dim": 0}, "idx": idx, "n": n, "m": m}

    def post(E, ctx, outs):
        rets = returns(outs)
        if not rets:
            E.oblige("reaches.return", [], z3.BoolVal(False))
        idx, n, m = ctx["idx"], ctx["n"], ctx["m"]
        t, u = z3.Ints("t u")
        for o in rets:
            r = o.state.get(o.value) if isinstance(o.value, Ref) else None
            if not isinstance(r, ArrData) or r.ndim != 1:
                E.oblige("returns.1d", o.state, False)
                continue
            k = to_int(r.shape[0])
            E.oblige("ensures.strictly_increasing", o.state, z3.ForAll([t, u], z3.Implies(z3.And(0 <= t, t < u, u < k), to_int(r.sel(t)) < to_int(r.sel(u)))))
            E.oblige("ensures.below_len", o.state, z3.ForAll([t], z3.Implies(z3.And(0 <= t, t < k), to_int(r.sel(t)) < n)))
            E.oblige("ensures.subset_of_input", o.state, z3.ForAll([t], z3.Implies(z3.And(0 <= t, t < k),
                                                                              z3.Exists([u], z3.And(0 <= u, u < m, to_int(idx.sel(u)) == to_int(r.sel(t)))))))
            E.oblige("ensures.superset_of_input", o.state, z3.ForAll([u], z3.Implies(z3.And(0 <= u, u < m),
                                                                                z3.Exists([t], z3.And(0 <= t, t < k, to_int(r.sel(t)) == to_int(idx.sel(u)))))))
    return se_unit("pool_base.check_indices", FV, "check_indices", None, setup, post, lib_factory=pool_lib)


# ------------------------------------------------------------------------------------------ _validate_data
INL = {"_validate_data", "check_n_features"}


def check_indices_contract(L):
    """callee contract of check_indices (proved in unit check_indices) for 1-D integer candidates"""
    def handler(E, st, args, kw, node):
        E.abstracted.add("contract:check_indices")
        a = as_array(args[0], st) if isinstance(args[0], Ref) else None
        A = as_array(args[1], st) if isinstance(args[1], Ref) else None
        if a is None or A is None or a.ndim != 1:
            raise Unsupported("check_indices contract: 1-D only")
        n = to_int(A.shape[0])
        uniq = L.functions["np.unique"](E, st, [args[0]], {}, node)
        r = st.get(uniq)
        t = z3.Int("ct")
        st.assume(z3.ForAll([t], z3.Implies(z3.And(0 <= t, t < to_int(r.shape[0])), to_int(r.sel(t)) < n)))     # else ValueError
        return uniq
    L.functions["check_indices"] = handler
    return L


def unit_validate(mode):
    def setup(E, st):
        n, d, X, y = world(st)
        selfo = strategy_obj(st)
        bs = z3.Int("batch_size")
        ru = z3.Bool("return_utilities")
        ctx = {"n": n, "X": X, "y": y, "bs": bs, "self": selfo, "mode": mode}
        if mode == "none":
            cand = None
        elif mode == "idx":
            m = z3.Int("m")
            st.assume(m >= 0)
            c = ArrData((m,), fresh_sel("cand", "i"), "i")
            t = z3.Int("t")
            st.assume(z3.ForAll([t], z3.Implies(z3.And(0 <= t, t < m), to_int(c.sel(t)) >= 0)))   # [A] indices are non-negative
            cand = st.alloc(c)
            ctx["cand"] = c
        else:
            m = z3.Int("m")
            st.assume(m >= 0)
            cand = st.alloc(ArrData((m, d), fresh_sel("candrows", "o", 2), "o"))
            ctx["m"] = m
        ctx["args"] = [selfo, X, y, cand, bs, ru]
        return ctx

    def post(E, ctx, outs):
        rets = returns(outs)
        if not rets:
            E.oblige("reaches.return", [], z3.BoolVal(False))
        n, bs = ctx["n"], ctx["bs"]
        for o in rets:
            st = o.state
            if not (isinstance(o.value, tuple) and len(o.value) == 5):
                E.oblige("returns.5-tuple", st, False)
                continue
            X2, y2, c2, bs2, ru2 = o.value
            y0 = st.get(ctx["y"])
            ml = st.get(ctx["self"]).fields.get("missing_label_")
            if ml is None:
                E.oblige("ensures.sets_missing_label_", st, False)
                continue
            A = mask_array(lambda j: MISSING(y0.sel(j).sym, sym_of(ml)))
            cnt_unl = CNT(A, n)
            if mode == "none":
                n_cand = cnt_unl
                E.oblige("ensures.candidates_stay_None", st, z3.BoolVal(c2 is None))
            elif mode == "idx":
                c = st.get(c2) if isinstance(c2, Ref) else None
                if not isinstance(c, ArrData):
                    E.oblige("ensures.candidates_array", st, False)
                    continue
                n_cand = to_int(c.shape[0])
                t, u = z3.Ints("t u")
                E.oblige("ensures.candidates_sorted_distinct", st, z3.ForAll([t, u], z3.Implies(z3.And(0 <= t, t < u, u < n_cand), to_int(c.sel(t)) < to_int(c.sel(u)))))
                E.oblige("ensures.candidates_in_range", st, z3.ForAll([t], z3.Implies(z3.And(0 <= t, t < n_cand), z3.And(0 <= to_int(c.sel(t)), to_int(c.sel(t)) < n))))
            else:
                n_cand = ctx["m"]
            E.oblige("ensures.batch_size_clipped", st, to_int(bs2) == z3.If(bs <= n_cand, bs, n_cand))
            E.oblige("ensures.X_y_unchanged", st, z3.BoolVal(isinstance(X2, Ref) and isinstance(y2, Ref) and st.get(X2) is st.get(ctx["X"])
                                                            and st.get(y2) is st.get(ctx["y"])))
            rs = st.get(ctx["self"]).fields.get("random_state_")
            rd = st.get(rs) if isinstance(rs, Ref) else None
            rs0 = st.get(ctx["self"]).fields["random_state"]
            E.oblige("ensures.random_state_determined_by_(random_state,#unlabeled+1)", st,
                     getattr(rd, "ident", None) == SEEDED(rs0.sym, cnt_unl + 1) if getattr(rd, "ident", None) is not None else z3.BoolVal(False))
    return se_unit(f"pool_base._validate_data.{mode}", FB, "SingleAnnotatorPoolQueryStrategy._validate_data", "SingleAnnotatorPoolQueryStrategy",
                   setup, post, inline=INL, lib_factory=lambda: check_indices_contract(pool_lib()))


def unit_transform(mode):
    def setup(E, st):
        n, d, X, y = world(st)
        selfo = strategy_obj(st, extra={"missing_label_": Opaque("missing_label_")})
        ctx = {"n": n, "X": X, "y": y, "self": selfo}
        if mode == "none":
            cand = None
        elif mode == "idx":
            m = z3.Int("m")
            st.assume(m >= 0)
            c = ArrData((m,), fresh_sel("cand", "i"), "i")
            cand = st.alloc(c)
            ctx["cand"] = cand
        else:
            m = z3.Int("m")
            cand = st.alloc(ArrData((m, d), fresh_sel("candrows", "o", 2), "o"))
            ctx["cand"] = cand
        ctx["args"] = [selfo, cand, X, y]
        return ctx

    def post(E, ctx, outs):
        rets = returns(outs)
        if not rets:
            E.oblige("reaches.return", [], z3.BoolVal(False))
        n = ctx["n"]
        for o in rets:
            st = o.state
            if not (isinstance(o.value, tuple) and len(o.value) == 2):
                E.oblige("returns.pair", st, False)
                continue
            Xc, mp = o.value
            y0 = st.get(ctx["y"])
            ml = st.get(ctx["self"]).fields["missing_label_"]
            if mode == "none":
                mpa = st.get(mp) if isinstance(mp, Ref) else None
                if not isinstance(mpa, ArrData):
                    E.oblige("ensures.mapping_array", st, False)
                    continue
                k = to_int(mpa.shape[0])
                t, u, j = z3.Ints("t u j")
                unl = lambda jj: MISSING(y0.sel(jj).sym, sym_of(ml))
                E.oblige("ensures.mapping_ascending", st, z3.ForAll([t, u], z3.Implies(z3.And(0 <= t, t < u, u < k), to_int(mpa.sel(t)) < to_int(mpa.sel(u)))))
                E.oblige("ensures.mapping_only_unlabeled", st, z3.ForAll([t], z3.Implies(z3.And(0 <= t, t < k),
                                                                                   z3.And(0 <= to_int(mpa.sel(t)), to_int(mpa.sel(t)) < n, unl(to_int(mpa.sel(t)))))))
                E.oblige("ensures.mapping_all_unlabeled", st, z3.ForAll([j], z3.Implies(z3.And(0 <= j, j < n, unl(j)),
                                                                                  z3.Exists([t], z3.And(0 <= t, t < k, to_int(mpa.sel(t)) == j)))))
                Xa = st.get(Xc) if isinstance(Xc, Ref) else None
                E.oblige("ensures.X_cand_is_X[mapping]", st, z3.BoolVal(isinstance(Xa, ArrData)) if not isinstance(Xa, ArrData) else to_int(Xa.shape[0]) == k)
            elif mode == "idx":
                E.oblige("ensures.mapping_is_candidates", st, z3.BoolVal(isinstance(mp, Ref) and mp.id == ctx["cand"].id))
                Xa = st.get(Xc) if isinstance(Xc, Ref) else None
                E.oblige("ensures.X_cand_is_X[candidates]", st,
                         z3.BoolVal(False) if not isinstance(Xa, ArrData) else to_int(Xa.shape[0]) == to_int(st.get(ctx["cand"]).shape[0]))
            else:
                E.oblige("ensures.rows_returned_without_mapping", st, z3.BoolVal(mp is None and isinstance(Xc, Ref) and Xc.id == ctx["cand"].id))
    return se_unit(f"pool_base._transform_candidates.{mode}", FB, "SingleAnnotatorPoolQueryStrategy._transform_candidates",
                   "SingleAnnotatorPoolQueryStrategy", setup, post, lib_factory=pool_lib)


UNITS = {"check_indices": unit_check_indices()}
for _m in ("none", "idx", "rows"):
    UNITS[f"_validate_data.{_m}"] = unit_validate(_m)
    UNITS[f"_transform_candidates.{_m}"] = unit_transform(_m)


# ------------------------------------------------------------------------------------------ C08: representation lemma
def unit_sorted_sequences_lemma(tier=None):
    """two strictly increasing integer sequences with the same set of values are equal (by induction on the position)"""
    from pyvc.solve import solve_one
    a, b = z3.Function("a", I, I), z3.Function("b", I, I)
    m, k, t, u, s_ = z3.Ints("m k t u s")
    inc = lambda f, n: z3.ForAll([t, u], z3.Implies(z3.And(0 <= t, t < u, u < n), f(t) < f(u)))
    sub = lambda f, nf, g, ng: z3.ForAll([t], z3.Implies(z3.And(0 <= t, t < nf), z3.Exists([u], z3.And(0 <= u, u < ng, g(u) == f(t)))))
    hyp = [m >= 0, k >= 0, inc(a, m), inc(b, k), sub(a, m, b, k), sub(b, k, a, m)]
    obs = []
    for name, pc, goal in (
            ("same_length_and_pointwise.step", hyp + [0 <= s_, s_ < m, s_ < k, z3.ForAll([t], z3.Implies(z3.And(0 <= t, t < s_), a(t) == b(t)))], a(s_) == b(s_)),
            ("no_longer_a", hyp + [k < m, z3.ForAll([t], z3.Implies(z3.And(0 <= t, t < k), a(t) == b(t)))], z3.BoolVal(False)),
            ("no_longer_b", hyp + [m < k, z3.ForAll([t], z3.Implies(z3.And(0 <= t, t < m), a(t) == b(t)))], z3.BoolVal(False))):
        r = solve_one({"name": "sorted_sequences." + name, "pc": pc, "goal": goal, "meta": {}}, timeout_ms=20000)
        r["goal_text"] = str(goal)[:200]
        obs.append(r)
    return {"unit": "pool_base.lemma.sorted_sequences", "target": "lemma used by the representation equivalence (C08)", "kind": "lemma",
            "obligations": obs, "abstracted": [], "dropped": [], "lib": [], "paths": len(obs)}


def unit_representation():
    """candidates=None and candidates=<unlabeled indices> give the same validated tuple: batch size, mapping (as a set and,
    with the sorted-sequences lemma, position by position), generator identity"""
    def setup(E, st):
        n, d, X, y = world(st)
        selfo = strategy_obj(st)
        bs, ru = z3.Int("batch_size"), z3.Bool("return_utilities")
        return {"args": [selfo, X, y, None, bs, ru], "n": n, "X": X, "y": y, "bs": bs, "ru": ru, "self": selfo}

    def post(E, ctx, outs):
        repo = E.repo
        fv = repo.func(FB, "SingleAnnotatorPoolQueryStrategy._validate_data")
        ft = repo.func(FB, "SingleAnnotatorPoolQueryStrategy._transform_candidates")
        cls = "SingleAnnotatorPoolQueryStrategy"
        for o in returns(outs):
            st1 = o.state
            X1, y1, c1, bs1, _ = o.value
            rng1 = st1.get(st1.get(ctx["self"]).fields["random_state_"])
            E1 = Engine(repo, cls=cls, file=FB, lib=E.lib, inline=INL)
            for o1 in returns(E1.verify(ft, st1.fork(), [ctx["self"], c1, X1, y1], cls=cls)):
                Xc1, mp1 = o1.value
                mpa1 = o1.state.get(mp1)
                # second call: the unlabeled indices given explicitly
                E2 = Engine(repo, cls=cls, file=FB, lib=E.lib, inline=INL)
                for o2 in returns(E2.verify(fv, o1.state.fork(), [ctx["self"], ctx["X"], ctx["y"], mp1, ctx["bs"], ctx["ru"]], cls=cls)):
                    X2, y2, c2, bs2, _ = o2.value
                    st2 = o2.state
                    rng2 = st2.get(st2.get(ctx["self"]).fields["random_state_"])
                    E3 = Engine(repo, cls=cls, file=FB, lib=E.lib, inline=INL)
                    for o3 in returns(E3.verify(ft, st2.fork(), [ctx["self"], c2, X2, y2], cls=cls)):
                        Xc2, mp2 = o3.value
                        s3 = o3.state
                        mpa2 = s3.get(mp2)
                        k1, k2 = to_int(mpa1.shape[0]), to_int(mpa2.shape[0])
                        t, u = z3.Ints("t u")
                        # instance of the sorted-sequences lemma (proved in unit representation.lemma.sorted_sequences) for the
                        # unlabeled positions and their np.unique image (the validated index candidates)
                        ca = st2.get(c2)
                        kc = to_int(ca.shape[0])
                        inc = lambda f, nn: z3.ForAll([t, u], z3.Implies(z3.And(0 <= t, t < u, u < nn), to_int(f.sel(t)) < to_int(f.sel(u))))
                        sub = lambda f, nf, g, ng: z3.ForAll([t], z3.Implies(z3.And(0 <= t, t < nf), z3.Exists([u], z3.And(0 <= u, u < ng, to_int(g.sel(u)) == to_int(f.sel(t))))))
                        s3.assume(z3.Implies(z3.And(inc(mpa1, k1), inc(ca, kc), sub(mpa1, k1, ca, kc), sub(ca, kc, mpa1, k1)),
                                             z3.And(k1 == kc, z3.ForAll([t], z3.Implies(z3.And(0 <= t, t < k1), to_int(mpa1.sel(t)) == to_int(ca.sel(t)))))))
                        chk = z3.Solver()
                        chk.set("timeout", 5000)
                        chk.add(*s3.pc)
                        if chk.check() == z3.unsat:
                            continue      # this combination of branches of the two calls is infeasible (e.g. clipped once, not twice)
                        E.oblige("C08.same_batch_size", s3, to_int(bs1) == to_int(bs2))
                        E.oblige("C08.same_generator", s3, getattr(rng1, "ident", z3.IntVal(-1)) == getattr(rng2, "ident", z3.IntVal(-2)))
                        E.oblige("C08.mapping2_strictly_increasing", s3, z3.ForAll([t, u], z3.Implies(z3.And(0 <= t, t < u, u < k2), to_int(mpa2.sel(t)) < to_int(mpa2.sel(u)))))
                        E.oblige("C08.mapping1_subset_of_mapping2", s3, z3.ForAll([t], z3.Implies(z3.And(0 <= t, t < k1),
                                 z3.Exists([u], z3.And(0 <= u, u < k2, to_int(mpa2.sel(u)) == to_int(mpa1.sel(t)))))))
                        E.oblige("C08.mapping2_subset_of_mapping1", s3, z3.ForAll([t], z3.Implies(z3.And(0 <= t, t < k2),
                                 z3.Exists([u], z3.And(0 <= u, u < k1, to_int(mpa1.sel(u)) == to_int(mpa2.sel(t)))))))
                        E.oblige("C08.X_cand_is_X[mapping]_in_both", s3, z3.BoolVal(isinstance(Xc1, Ref) and isinstance(Xc2, Ref)))
        if not returns(outs) or not E.obligations:
            E.oblige("reaches.return", [], z3.BoolVal(False))
    return se_unit("pool_base.representation_None_vs_unlabeled_indices", FB, "SingleAnnotatorPoolQueryStrategy._validate_data",
                   "SingleAnnotatorPoolQueryStrategy", setup, post, inline=INL, lib_factory=lambda: check_indices_contract(pool_lib()))


UNITS["representation.lemma.sorted_sequences"] = unit_sorted_sequences_lemma
UNITS["representation.None_vs_indices"] = unit_representation()
