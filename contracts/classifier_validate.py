"""Contract for SkactivemlClassifier._validate_data (skactiveml/base.py) — C11 (decision half) and C13 (history-freeness).

predict minimises  predict_proba(X) @ cost_matrix_  over the positions of classes_ (unit classifiers.SkactivemlClassifier.predict); that is a
decision of minimal expected cost *under the user's cost matrix* only if cost_matrix_ is the user's matrix re-indexed from the user's class
order to the order of classes_:

    classes_[i] = classes[P(i)]  (P = the ascending rearrangement of the declared classes)   =>   cost_matrix_[i, j] = cost_matrix[P(i), P(j)]

and, without a user matrix, 0 on the diagonal and 1 elsewhere.  For C13 (fit is history-free) the validation has to re-derive every fitted
attribute it owns from the constructor parameters of *this* call: random_state_ is the generator returned by check_random_state(random_state)
in this call, _le is the encoder created in this call, classes_ its classes — also when the object has been fitted before.

Assumed: the contract of ExtLabelEncoder (contracts/encoder.py) extended by 'classes_ is the ascending rearrangement of the declared classes
and the code of classes_[i] is i' (numpy: sort(a) == a[argsort(a)]; declared classes are pairwise distinct, check_classifier_params), the
classes are totally ordered by an uninterpreted key, check_* helpers validate only.
"""
import z3

from pyvc.se import (ArrData, ListData, ObjData, RngData, Opaque, Ref, fresh, fresh_fn, fresh_sel, to_real, to_int, I, R, B, USort,
                     Unsupported, DictData)
from pyvc.unit import se_unit, returns, raises
from pyvc.lib import as_array
from .classifiers import model_lib

FB = "skactiveml/base.py"
KEY = z3.Function("class_order_key", USort, I)        # the total order numpy sorts the classes by


def unit_validate(classes_given, cost_given, refit):
    h = {}

    def lib():
        L = model_lib()
        base_ctor = L.functions["ExtLabelEncoder"]

        def argsort_witness(E, st, arr):
            """P, PI: the bijection of positions that sorts `arr` (opaque, pairwise distinct values) ascending by KEY; one witness per array"""
            if "P" not in h:
                K = to_int(arr.shape[0]) if isinstance(arr, ArrData) else to_int(arr.n)
                P, PI = fresh_fn("argsort", I, I), fresh_fn("argsort_inv", I, I)
                t, u = z3.Ints("as_t as_u")
                st.assume(z3.ForAll([t], z3.Implies(z3.And(0 <= t, t < K), z3.And(0 <= P(t), P(t) < K, PI(P(t)) == t))))
                st.assume(z3.ForAll([t], z3.Implies(z3.And(0 <= t, t < K), z3.And(0 <= PI(t), PI(t) < K, P(PI(t)) == t))))
                st.assume(z3.ForAll([t, u], z3.Implies(z3.And(0 <= t, t < u, u < K), KEY(arr.sel(P(t)).sym) < KEY(arr.sel(P(u)).sym))))
                h["P"], h["PI"] = P, PI
            return h["P"], h["PI"]

        def ctor(E, st, args, kw, node):
            le = base_ctor(E, st, args, kw, node)
            od = st.get(le)
            h["le_created"] = le
            cl = kw.get("classes", args[0] if args else None)
            if isinstance(cl, Ref):
                ca = st.get(cl)
                K = od.fields["__K__"]
                P, PI = argsort_witness(E, st, ca)
                cls_ = st.get(od.fields["classes_"])
                t = z3.Int("le_t")
                st.assume(K == h["K"])
                st.assume(z3.ForAll([t], z3.Implies(z3.And(0 <= t, t < K), z3.And(cls_.sel(t).sym == ca.sel(P(t)).sym,
                                                                                  od.fields["__code__"](cls_.sel(t).sym) == t))))
            else:
                st.assume(od.fields["__K__"] == h["K"])
            return le
        L.functions["ExtLabelEncoder"] = ctor

        @L.fn("np.argsort")
        def _argsort(E, st, args, kw, node):
            a = st.get(args[0])
            if not (a is h.get("classes")):
                raise Unsupported("np.argsort of something else than the declared classes")
            P, PI = argsort_witness(E, st, a)
            return st.alloc(ArrData((h["K"],), lambda i: P(i), "i"))

        @L.fn("check_classifier_params", "check_classification_targets", "check_consistent_length")
        def _noop(E, st, args, kw, node):
            return None

        @L.fn("check_cost_matrix")
        def _ccm(E, st, args, kw, node):
            """check_cost_matrix(C, K): raises unless C is a K x K matrix of finite numbers; returns it as an array with equal entries"""
            cm = args[0] if args else kw["cost_matrix"]
            k = args[1] if len(args) > 1 else kw["n_classes"]
            a = as_array(cm, st)
            st.assume(to_int(a.shape[0]) == to_int(k), to_int(a.shape[1]) == to_int(k))
            return cm

        @L.fn("check_n_features")
        def _cnf(E, st, args, kw, node):
            est = args[0] if args else kw["estimator"]
            od = st.get(est)
            st.put(est, ObjData(od.cls, dict(od.fields, n_features_in_=Opaque("n_features_in_"))))
            return None

        @L.fn("check_random_state")
        def _crs(E, st, args, kw, node):
            r = st.alloc(RngData(fresh_fn("stream", I, R), fresh("pos", I), fresh("aux", I)))
            h.setdefault("rng_created", []).append((r, args[0] if args else kw.get("random_state")))
            return r
        return L

    def setup(E, st):
        h.clear()
        n, d, K = z3.Int("n"), z3.Int("d"), z3.Int("K")
        st.assume(n >= 1, d >= 1, K >= 1)
        h["K"] = K
        X = st.alloc(ArrData((n, d), fresh_sel("X", "o", 2), "o"))
        y = st.alloc(ArrData((n,), fresh_sel("y", "o"), "o"))
        fields = {"missing_label": Opaque("missing_label"), "random_state": Opaque("random_state"), "__open__": False}
        if classes_given:
            ca = ArrData((K,), fresh_sel("classes", "o"), "o")
            t, u = z3.Ints("cd_t cd_u")
            st.assume(z3.ForAll([t, u], z3.Implies(z3.And(0 <= t, t < u, u < K), KEY(ca.sel(t).sym) != KEY(ca.sel(u).sym))))      # pairwise distinct
            h["classes"] = ca
            fields["classes"] = st.alloc(ca)
        else:
            fields["classes"] = None
        if cost_given:
            cm = ArrData((K, K), fresh_sel("cost", "f", 2), "f")
            i, j = z3.Ints("cm_i cm_j")
            st.assume(z3.ForAll([i, j], z3.Not(to_real(cm.sel(i, j))[0])))          # finite numbers
            h["cost"] = cm
            fields["cost_matrix"] = st.alloc(cm)
        else:
            fields["cost_matrix"] = None
        if refit:       # the object has been fitted before: every fitted attribute holds some older value
            fields["random_state_"] = st.alloc(RngData(fresh_fn("old_stream", I, R), fresh("old_pos", I), fresh("old_aux", I)))
            fields["_le"] = Opaque("old_le")
            fields["classes_"] = Opaque("old_classes_")
            fields["cost_matrix_"] = Opaque("old_cost_matrix_")
            fields["n_features_in_"] = Opaque("old_n_features_in_")
        selfo = st.alloc(ObjData("SkactivemlClassifier", fields))
        h["self"] = selfo

        def conc(ev):
            from pyvc import cex
            k = cex.ival(ev, K)
            if k > cex.MAX_N:
                raise cex.TooBig(k)
            keys = [cex.ival(ev, KEY(h["classes"].sel(z3.IntVal(t)).sym)) for t in range(k)] if classes_given else None
            return {"family": "classifier_validate", "sig": "counter-model", "K": k, "class_keys": keys, "refit": refit,
                    "cost": cex.arr(ev, h["cost"]) if cost_given else None}
        E.default_concretize = conc
        h["rs_param"] = fields["random_state"]
        return {"args": [selfo, X, y], "self": selfo, "K": K}

    def post(E, ctx, outs):
        rets = returns(outs)
        if not rets:
            E.oblige("reaches.return", [], z3.BoolVal(False))
        K = ctx["K"]
        for o in rets:
            st = o.state
            f = st.get(ctx["self"]).fields
            # C13: the fitted attributes are re-derived in this call
            rs_ = f.get("random_state_")
            made = [r for r, seed in h.get("rng_created", []) if seed is h["rs_param"]]
            E.oblige("C13.random_state__is_check_random_state(random_state)_of_this_call", st,
                     z3.BoolVal(isinstance(rs_, Ref) and any(rs_.id == r.id for r in made)))
            le = f.get("_le")
            E.oblige("C13._le_is_the_encoder_created_in_this_call", st, z3.BoolVal(isinstance(le, Ref) and isinstance(h.get("le_created"), Ref)
                                                                                  and le.id == h["le_created"].id))
            if not (isinstance(le, Ref) and isinstance(st.get(le), ObjData)):
                continue
            led = st.get(le)
            E.oblige("C13.classes__are_the_encoder's_classes", st, z3.BoolVal(isinstance(f.get("classes_"), Ref) and
                                                                             f["classes_"].id == led.fields["classes_"].id))
            cm_ = f.get("cost_matrix_")
            cmd = st.get(cm_) if isinstance(cm_, Ref) else None
            if not isinstance(cmd, ArrData) or cmd.ndim != 2:
                E.oblige("C11.cost_matrix__is_a_matrix", st, z3.BoolVal(False))
                continue
            i, j = z3.Ints("ci cj")
            rng = z3.And(0 <= i, i < K, 0 <= j, j < K)
            E.oblige("C11.cost_matrix__has_one_row_and_column_per_class", st, z3.And(to_int(cmd.shape[0]) == K, to_int(cmd.shape[1]) == K))
            en, ev = to_real(cmd.sel(i, j))
            if cost_given:
                cm = h["cost"]
                if classes_given:
                    P = h["P"]
                    un, uv = to_real(cm.sel(P(i), P(j)))
                    E.oblige("C11.cost_matrix__is_the_user's_matrix_in_the_order_of_classes_", st, z3.ForAll([i, j], z3.Implies(rng, z3.And(z3.Not(en), ev == uv))))
                else:
                    un, uv = to_real(cm.sel(i, j))
                    E.oblige("C11.cost_matrix__is_the_user's_matrix", st, z3.ForAll([i, j], z3.Implies(rng, z3.And(z3.Not(en), ev == uv))))
            else:
                E.oblige("C11.default_cost_matrix_is_zero_one_loss", st, z3.ForAll([i, j], z3.Implies(rng, z3.And(z3.Not(en), ev == z3.If(i == j, z3.RealVal(0), z3.RealVal(1))))))
    tag = ("classes" if classes_given else "noclasses") + "." + ("cost" if cost_given else "nocost") + "." + ("refit" if refit else "first_fit")
    return se_unit(f"classifier_validate._validate_data.{tag}", FB, "SkactivemlClassifier._validate_data", "SkactivemlClassifier", setup, post,
                   lib_factory=lib)


UNITS = {}
for cg in (True, False):
    for kg in (True, False):
        for rf in (False, True):
            if kg and not cg:
                continue        # check_classifier_params rejects a cost matrix without declared classes
            tag = ("classes" if cg else "noclasses") + "." + ("cost" if kg else "nocost") + "." + ("refit" if rf else "first_fit")
            UNITS[f"_validate_data.{tag}"] = unit_validate(cg, kg, rf)
