"""Contracts for ClassFrequencyEstimator.predict_proba (skactiveml/base.py) and check_class_prior (utils/_validation.py) — C11, the
probability half for the frequency-based classifiers (ParzenWindowClassifier, MixtureModelClassifier).

Assumed: predict_freq returns a finite, non-negative (n x K) matrix (kernel sums / mixture responsibilities; C11 assumption).
Proved from the bodies, for every n, K >= 1, frequencies and prior:
  check_class_prior        returns K finite, non-negative prior counts (scalar prior: the scalar repeated K times) or raises
  predict_proba            with P0 = freq + prior and s_i = the row sum numpy computes for row i:
                             s_i > 0  ->  P[i, j] = P0[i, j] / s_i          (pointwise)
                             s_i = 0  ->  P[i, j] = 1 / K
                           every entry is finite and lies in [0, 1]
  lemma rowsum (induction over K, spec function SUM): terms >= 0 -> SUM bounds every term, SUM = 0 iff all terms are 0 (the clauses the
                           np.sum(axis=1) contract in pyvc/lib.py assumes); b_j = a_j / s for all j -> SUM(b) = SUM(a) / s; b_j = c -> SUM(b) = K c;
                           hence both cases above give rows that sum to one.
Real arithmetic stands for float64 (rounding is outside the model: 'sums to one' is exact here, 1e-12-close at run time).
"""
import z3

from pyvc.se import (State, ArrData, ListData, ObjData, Opaque, Ref, fresh, fresh_fn, fresh_sel, to_int, to_real, I, R, B, USort, z3bool,
                     Unsupported, is_z3, mk_fv)
from pyvc.unit import se_unit, returns, raises
from pyvc.lib import as_array, arr_of, Lib
from pyvc.solve import solve_one

FB = "skactiveml/base.py"
FV_ = "skactiveml/utils/_validation.py"


def nonneg_matrix(st, name, n, k):
    nanf = fresh_fn(name + "_nan", I, I, B)
    val = fresh_fn(name + "_val", I, I, R)
    i, j = z3.Ints("nm_i nm_j")
    st.assume(z3.ForAll([i, j], z3.Implies(z3.And(0 <= i, i < n, 0 <= j, j < k), z3.And(z3.Not(nanf(i, j)), val(i, j) >= 0))))
    return ArrData((n, k), lambda a, b: mk_fv(nanf(a, b), val(a, b)), "f")


def proba_lib(ctx):
    L = Lib()

    def predict_freq(E, st, recv, args, kw, node):
        """assumed contract of predict_freq: finite, non-negative (n x K) frequency estimates"""
        F = nonneg_matrix(st, "freq", ctx["n"], ctx["K"])
        ctx["F"] = F
        return st.alloc(F)
    for c in ("ClassFrequencyEstimator", "ParzenWindowClassifier", "MixtureModelClassifier", "__CFE__"):
        L.contracts[f"{c}.predict_freq"] = predict_freq
    return L


def unit_predict_proba():
    ctx_h = {}

    def setup(E, st):
        ctx_h.clear()
        n, K = z3.Int("n"), z3.Int("K")
        st.assume(n >= 0, K >= 1)
        pn, pv = fresh_fn("prior_nan", I, B), fresh_fn("prior_val", I, R)
        j = z3.Int("pj")
        st.assume(z3.ForAll([j], z3.Implies(z3.And(0 <= j, j < K), z3.And(z3.Not(pn(j)), pv(j) >= 0))))       # check_class_prior (unit below)
        prior = ArrData((K,), lambda t: mk_fv(pn(t), pv(t)), "f")
        classes = ArrData((K,), fresh_sel("classes_", "o"), "o")
        o = st.alloc(ObjData("__CFE__", {"class_prior_": st.alloc(prior), "classes_": st.alloc(classes), "__open__": True}))
        X = st.alloc(ArrData((n, z3.Int("d")), fresh_sel("X", "o", 2), "o"))
        ctx_h.update(n=n, K=K, prior=prior, args=[o, X])

        def conc(ev):
            from pyvc import cex
            F = ctx_h["F"]
            n_, K_ = cex.dim(ev, F, 0), cex.dim(ev, F, 1)
            return {"family": "predict_proba", "sig": "counter-model", "n": n_, "K": K_, "F": [v for row in cex.arr(ev, F) for v in row], "prior": cex.arr(ev, prior)}
        E.default_concretize = conc
        return ctx_h

    def post(E, ctx, outs):
        rets = returns(outs)
        if not rets:
            E.oblige("reaches.return", [], z3.BoolVal(False))
        n, K = ctx["n"], ctx["K"]
        for o in rets:
            st = o.state
            P = arr_of(o.value, st)
            ok = P is not None and P.ndim == 2 and P.kind == "f"
            E.oblige("C11.predict_proba.returns_a_real_matrix", st, z3.BoolVal(bool(ok)))
            if not ok:
                continue
            E.oblige("C11.predict_proba.one_row_per_sample_one_column_per_class", st, z3.And(to_int(P.shape[0]) == n, to_int(P.shape[1]) == K))
            F, prior = ctx["F"], ctx["prior"]
            # the row sums numpy computed: the (only) rowsum symbol introduced on this path
            sums = [d for d in st.heap.values() if isinstance(d, ArrData) and hasattr(d, "rowsum_of")]
            E.oblige("C11.predict_proba.normaliser_is_the_row_sum", st, z3.BoolVal(len(sums) == 1))
            if len(sums) != 1:
                continue
            src, rs = sums[0].rowsum_of
            ic, jc = fresh("i", I), fresh("j", I)
            hyp = st.pc + [0 <= ic, ic < n, 0 <= jc, jc < K]
            p0 = to_real(F.sel(ic, jc))[1] + to_real(prior.sel(jc))[1]
            E.oblige("C11.predict_proba.row_sum_is_taken_over_freq_plus_prior", hyp, z3.And(z3.Not(to_real(src.sel(ic, jc))[0]), to_real(src.sel(ic, jc))[1] == p0))
            pn, pv = to_real(P.sel(ic, jc))
            E.oblige("C11.predict_proba.positive_rows_are_divided_by_their_sum", hyp, z3.Implies(rs(ic) > 0, z3.And(z3.Not(pn), pv == p0 / rs(ic))))
            E.oblige("C11.predict_proba.empty_rows_become_uniform", hyp, z3.Implies(rs(ic) == 0, z3.And(z3.Not(pn), pv == 1 / z3.ToReal(K))))
            E.oblige("C11.predict_proba.entries_are_probabilities", hyp, z3.And(z3.Not(pn), pv >= 0, pv <= 1))
    return se_unit("probabilities.ClassFrequencyEstimator.predict_proba", FB, "ClassFrequencyEstimator.predict_proba", "ClassFrequencyEstimator", setup, post,
                   lib_factory=lambda: proba_lib(ctx_h))


def unit_check_class_prior(kind):
    def setup(E, st):
        K = z3.Int("n_classes")
        if kind == "scalar":
            cp = mk_fv(z3.BoolVal(False), z3.Real("class_prior"))
            ctx = {"cp": cp}
            arg = cp
        else:
            m = z3.Int("m")
            st.assume(m >= 0)
            a = ArrData((m,), fresh_sel("class_prior", "f"), "f")
            j = z3.Int("cj")
            st.assume(z3.ForAll([j], z3.Implies(z3.And(0 <= j, j < m), z3.Not(to_real(a.sel(j))[0]))))       # check_array rejects NaN / inf
            ctx = {"cp": a, "m": m}
            arg = st.alloc(a)
        ctx.update(K=K, args=[arg, K])
        from pyvc import cex
        E.default_concretize = lambda ev: {"family": "class_prior", "sig": "counter-model", "scalar": kind == "scalar", "K": cex.ival(ev, K),
                                           "cp": cex.rval(ev, ctx["cp"]) if kind == "scalar" else cex.arr(ev, ctx["cp"])}
        return ctx

    def lib():
        L = Lib()

        @L.fn("check_array")
        def _ca(E, st, args, kw, node):
            return args[0]

        @L.fn("check_scalar")
        def _cs(E, st, args, kw, node):
            v = args[0]
            if "min_val" in kw and kw["min_val"] is not None and (is_z3(v) or hasattr(v, "val") or isinstance(v, (int, float))):
                st.assume(to_real(v)[1] >= to_real(kw["min_val"])[1], z3.Not(to_real(v)[0]))
            return None
        return L

    def post(E, ctx, outs):
        rets = returns(outs)
        if not rets:
            E.oblige("reaches.return", [], z3.BoolVal(False))
        K = ctx["K"]
        j = z3.Int("j")
        for o in rets:
            r = arr_of(o.value, o.state)
            ok = r is not None and r.ndim == 1
            E.oblige("C11.class_prior.returns_a_vector", o.state, z3.BoolVal(bool(ok)))
            if not ok:
                continue
            E.oblige("C11.class_prior.one_entry_per_class", o.state, z3.And(to_int(r.shape[0]) == K, K >= 1))
            nanv, val = to_real(r.sel(j))
            E.oblige("C11.class_prior.finite_and_non_negative", o.state, z3.ForAll([j], z3.Implies(z3.And(0 <= j, j < K), z3.And(z3.Not(nanv), val >= 0))))
            if kind == "scalar":
                E.oblige("C11.class_prior.scalar_is_repeated", o.state, z3.ForAll([j], z3.Implies(z3.And(0 <= j, j < K), val == to_real(ctx["cp"])[1])))
    return se_unit(f"probabilities.check_class_prior.{kind}", FV_, "check_class_prior", None, setup, post, lib_factory=lib)


def unit_rowsum_lemmas(tier):
    IS, RS = z3.IntSort(), z3.RealSort()
    a, b = z3.Array("a", IS, RS), z3.Array("b", IS, RS)
    k, j, j0 = z3.Ints("k j j0")
    s, c = z3.Reals("s c")
    SUM = z3.RecFunction("SUM", z3.ArraySort(IS, RS), IS, RS)
    z3.RecAddDefinition(SUM, [a, k], z3.If(k <= 0, z3.RealVal(0), SUM(a, k - 1) + a[k - 1]))
    nonneg = lambda arr, kk: z3.ForAll([j], z3.Implies(z3.And(0 <= j, j < kk), arr[j] >= 0))
    lemmas = {
        "nonneg_terms_give_nonneg_sum": lambda kk: z3.Implies(nonneg(a, kk), SUM(a, kk) >= 0),
        "sum_bounds_every_term": lambda kk: z3.Implies(z3.And(nonneg(a, kk), 0 <= j0, j0 < kk), a[j0] <= SUM(a, kk)),
        "zero_sum_iff_all_terms_zero": lambda kk: z3.Implies(nonneg(a, kk), (SUM(a, kk) == 0) == z3.ForAll([j], z3.Implies(z3.And(0 <= j, j < kk), a[j] == 0))),
        "scaling": lambda kk: z3.Implies(z3.And(s != 0, z3.ForAll([j], z3.Implies(z3.And(0 <= j, j < kk), b[j] == a[j] / s))), SUM(b, kk) == SUM(a, kk) / s),
        "constant_row": lambda kk: z3.Implies(z3.And(kk >= 0, z3.ForAll([j], z3.Implies(z3.And(0 <= j, j < kk), b[j] == c))), SUM(b, kk) == z3.ToReal(kk) * c),
    }
    obs = []
    for name, Lm in lemmas.items():
        extra = []
        if name in ("sum_bounds_every_term", "zero_sum_iff_all_terms_zero"):
            extra = [lemmas["nonneg_terms_give_nonneg_sum"](k - 1)]
        for part, pc in (("base", [k <= 0]), ("step", [k > 0, Lm(k - 1)] + extra)):
            r = solve_one({"name": f"rowsum.{name}.{part}", "pc": pc, "goal": Lm(k), "meta": {}}, timeout_ms=20000)
            r["goal_text"] = str(Lm(k))[:200]
            obs.append(r)
    # corollaries: the two cases of predict_proba give rows that sum to one
    K = z3.Int("K")
    cor1 = {"name": "rowsum.corollary.divided_rows_sum_to_one", "pc": [lemmas["scaling"](K), K >= 1, s == SUM(a, K), s > 0,
                                                                        z3.ForAll([j], z3.Implies(z3.And(0 <= j, j < K), b[j] == a[j] / s))],
            "goal": SUM(b, K) == 1, "meta": {}}
    cor2 = {"name": "rowsum.corollary.uniform_rows_sum_to_one", "pc": [lemmas["constant_row"](K), K >= 1, c == 1 / z3.ToReal(K),
                                                                        z3.ForAll([j], z3.Implies(z3.And(0 <= j, j < K), b[j] == c))],
            "goal": SUM(b, K) == 1, "meta": {}}
    for ob in (cor1, cor2):
        r = solve_one(ob, timeout_ms=20000)
        r["goal_text"] = str(ob["goal"])
        obs.append(r)
    return {"unit": "probabilities.lemma.rowsum", "target": "spec function SUM (row sums), np.sum(axis=1) contract in pyvc/lib.py", "kind": "lemma",
            "obligations": obs, "abstracted": [], "dropped": [], "lib": [], "paths": len(obs)}


UNITS = {"C11.predict_proba": unit_predict_proba(), "C11.check_class_prior.scalar": unit_check_class_prior("scalar"),
         "C11.check_class_prior.array": unit_check_class_prior("array"), "C11.lemma.rowsum": unit_rowsum_lemmas}
