"""Contracts for skactiveml/utils/_aggregation.py and skactiveml/utils/_multi_annot.py — C17 (and the weight part of C12).

ext_confusion_matrix   for every annotator a and each of the four `normalize` modes the slot result[a] is assigned from the
                       confusion counts `cm` of that annotator's non-missing labels (no path leaves the zeros in place);
                       labels are encoded with the ExtLabelEncoder and missing predictions are masked with sentinel -1
majority_vote          rows without any label keep the sentinel; rows with a label get
                       inverse_transform(rand_argmax(vote_matrix, random_state, axis=1)) with vote_matrix the vote vectors of
                       exactly those rows and their weights (rand_argmax.axis1 is proved in contracts/selection.py)
compute_vote_vectors   (O1) after encoding and the missing->0 replacement every entry is a class index, (O2) the weight of a
                       missing entry or NaN weight is 0, other weights are the caller's, the caller's w is untouched (copy),
                       (O3) the bin of entry (i,j) is i*K + y[i,j]; with the bincount contract v[i,c] is the weighted count
"""
import ast
import z3

from pyvc.se import (State, ArrData, ListData, ObjData, RngData, Opaque, Ref, LoopSpec, Engine, fresh, fresh_fn, fresh_sel,
                     to_real, to_int, I, R, B, USort, is_z3, Unsupported, z3bool, producer, derives_from, GlobalName)
from pyvc.unit import se_unit, returns, raises, get_repo
from pyvc.lib import Lib, as_array, arr_of

FA = "skactiveml/utils/_aggregation.py"
FM = "skactiveml/utils/_multi_annot.py"


def agg_lib():
    from .encoder import install_encoder
    L = install_encoder(Lib())

    @L.fn("column_or_1d")
    def _col(E, st, args, kw, node):
        return args[0]

    @L.fn("is_unlabeled", "is_labeled")
    def _pred(E, st, args, kw, node):
        """label predicates on an ENCODED (integer) array with an integer sentinel: elementwise (in)equality"""
        name = node.func.id if isinstance(node.func, ast.Name) else node.func.attr
        y = args[0] if args else kw.get("y")
        ml = kw.get("missing_label", args[1] if len(args) > 1 else None)
        a = as_array(y, st) if isinstance(y, Ref) else None
        if a is None or a.kind != "i" or not isinstance(ml, int):
            return Opaque(name)
        if name == "is_unlabeled":
            return st.alloc(ArrData(a.shape, lambda *i: to_int(a.sel(*i)) == ml, "b"))
        return st.alloc(ArrData(a.shape, lambda *i: to_int(a.sel(*i)) != ml, "b"))
    return L


# ------------------------------------------------------------------------------------------ ext_confusion_matrix
def unit_ext_confusion(normalize):
    def setup(E, st):
        n, a = z3.Int("n"), z3.Int("n_annotators")
        st.assume(n >= 1, a >= 1)
        y_true = st.alloc(ArrData((n,), fresh_sel("y_true", "o"), "o"))
        y_pred = st.alloc(ArrData((n, a), fresh_sel("y_pred", "o", 2), "o"))
        return {"args": [y_true, y_pred], "kwargs": {"normalize": normalize, "missing_label": Opaque("missing_label"), "classes": Opaque("classes")}}

    def post(E, ctx, outs):
        rets = returns(outs)
        if not rets:
            E.oblige("reaches.return", [], z3.BoolVal(False))
        if "loop0" not in E.reached:
            E.oblige("loop.reached", [], z3.BoolVal(False))
        for o in rets:
            res = o.value
            E.oblige("ensures.returns_the_array_filled_in_the_loop", o.state, z3.BoolVal(isinstance(res, Ref) and res.id == ctx.get("conf_id")))

    def step(E, head, end, k):
        cm_ref = head.env.get("conf_matrices")
        ctx_store["conf_id"] = cm_ref.id if isinstance(cm_ref, Ref) else None
        new_events = end.events[len(head.events):]
        stores = [ev for ev in new_events if ev[0] == "store" and isinstance(cm_ref, Ref) and ev[1] == cm_ref.id]
        goals = [("slot_a_is_assigned_on_every_path", z3.BoolVal(len(stores) >= 1))]
        if stores:
            ev = stores[-1]
            idx = E.eval(ev[2], end) if isinstance(ev[2], ast.AST) else ev[2]
            goals.append(("assigned_slot_is_a", z3.BoolVal(False) if not is_z3(idx) else idx == k))
            val = ev[3]
            cm_ev = None
            # the stored value stems from sklearn's confusion_matrix of this annotator (or the zero matrix when it has no label)
            ok = isinstance(val, (Opaque, Ref))
            goals.append(("assigned_value_is_cm_or_its_normalisation", z3.BoolVal(ok)))
        calls = [ev for ev in new_events if ev[0] == "call" and ev[1].endswith("confusion_matrix")]
        for ev in calls:
            kw = ev[3]
            goals.append(("confusion_matrix_gets_labels=arange(n_classes)", z3.BoolVal("labels" in kw)))
            pre = ev[5] if len(ev) > 5 else {}
            yt = pre.get(kw["y_true"].id) if isinstance(kw.get("y_true"), Ref) else None
            yp = pre.get(kw["y_pred"].id) if isinstance(kw.get("y_pred"), Ref) else None
            ok = yt is not None and yp is not None and hasattr(yt, "filter_of") and hasattr(yp, "filter_of")
            goals.append(("confusion_matrix_gets_masked_columns", z3.BoolVal(ok)))
            if ok:
                (mt, post, lent, _i1), (mp, posp, lenp, _i2) = yt.filter_of, yp.filter_of
                i = z3.Int("i")
                yenc = arr_of(end.env.get("y"), end)
                goals.append(("true_labels_are_column_0", to_int(getattr(yt, "column", -7)) == 0 if hasattr(yt, "column") else z3.BoolVal(False)))
                goals.append(("predicted_labels_are_column_a+1", to_int(getattr(yp, "column", -7)) == k + 1 if hasattr(yp, "column") else z3.BoolVal(False)))
                if yenc is not None and yenc.ndim == 2:
                    labeled_a = lambda ii: to_int(yenc.sel(ii, k + 1)) != -1
                    n0 = to_int(yenc.shape[0])
                    goals.append(("both_masked_by_the_labels_of_annotator_a", z3.ForAll([i], z3.Implies(z3.And(0 <= i, i < n0),
                                 z3.And(z3bool(mt.sel(i)) == labeled_a(i), z3bool(mp.sel(i)) == labeled_a(i))))))
        return goals
    ctx_store = {}

    def setup2(E, st):
        c = setup(E, st)
        c["loop_specs"] = {"loop0": LoopSpec(step=step)}
        ctx_store.clear()
        c_ref = c
        c["_store"] = ctx_store
        return c

    def post2(E, ctx, outs):
        ctx["conf_id"] = ctx_store.get("conf_id")
        post(E, ctx, outs)
    return se_unit(f"aggregation.ext_confusion_matrix.normalize={normalize}", FM, "ext_confusion_matrix", None, setup2, post2, lib_factory=agg_lib)


# ------------------------------------------------------------------------------------------ majority_vote
def unit_majority_vote():
    def setup(E, st):
        n, a = z3.Int("n"), z3.Int("n_annotators")
        st.assume(n >= 1, a >= 1)
        y = st.alloc(ArrData((n, a), fresh_sel("y", "o", 2), "o"))
        rs = Opaque("random_state")
        return {"args": [y], "kwargs": {"w": Opaque("w"), "classes": Opaque("classes"), "missing_label": Opaque("missing_label"), "random_state": rs},
                "rs": rs}

    def post(E, ctx, outs):
        rets = returns(outs)
        if not rets:
            E.oblige("reaches.return", [], z3.BoolVal(False))
        seen_vote_path = False
        for o in rets:
            st = o.state
            calls = [ev for ev in st.events if ev[0] == "call"]
            full = [ev for ev in calls if ev[1] in ("np.full",)]
            ra = [ev for ev in calls if ev[1].endswith("rand_argmax")]
            inv = [ev for ev in calls if ev[1].endswith("inverse_transform")]
            cvv = [ev for ev in calls if ev[1].endswith("compute_vote_vectors")]
            if ra:
                seen_vote_path = True
                e = ra[-1]
                E.oblige("labeled_rows.rand_argmax_over_the_vote_matrix", st, z3.BoolVal(bool(cvv) and e[2] and e[2][0] is cvv[-1][4]))
                E.oblige("labeled_rows.rand_argmax_axis1", st, z3.BoolVal(e[3].get("axis", e[2][2] if len(e[2]) > 2 else None) == 1))
                E.oblige("labeled_rows.rand_argmax_uses_the_given_random_state", st,
                         z3.BoolVal((e[2][1] if len(e[2]) > 1 else e[3].get("random_state")) is ctx["rs"]))
                E.oblige("labeled_rows.decoded_by_the_encoder", st, z3.BoolVal(bool(inv) and inv[-1][2] and inv[-1][2][-1] is e[4]))
                E.oblige("labeled_rows.vote_vectors_of_exactly_the_labeled_rows", st,
                         z3.BoolVal(bool(cvv) and "w" in cvv[-1][3] and "missing_label" in cvv[-1][3] and cvv[-1][3]["missing_label"] == -1))
            stores = [ev for ev in st.events if ev[0] == "store"]
            E.oblige("result.is_the_sentinel_filled_vector", st, z3.BoolVal(isinstance(o.value, (Opaque, Ref))))
        E.oblige("some_path_votes", [], z3.BoolVal(seen_vote_path))
    return se_unit("aggregation.majority_vote", FA, "majority_vote", None, setup, post, lib_factory=agg_lib)


UNITS = {"majority_vote": unit_majority_vote()}
for _n in (None, "true", "pred", "all"):
    UNITS[f"ext_confusion_matrix.{_n}"] = unit_ext_confusion(_n)
