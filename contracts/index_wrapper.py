"""Contracts for IndexClassifierWrapper (skactiveml/pool/utils.py) — C19, the bookkeeping half.

Abstract view of a wrapper that emulates partial_fit by refitting (use_partial_fit == False):
    view(self)      = the sequence of triples (idx_[t], y_[t], sample_weight_[t]),  t < len(idx_)
    base_view(self) = the same over base_idx_, base_y_, base_sample_weight_
    fitted_on(clf_) = the arguments of the LAST call clf_.fit(...)
Representation invariant after every public operation:  fitted_on(clf_) == (X[idx_], y_, sample_weight_)      (*)

fit(idx, y, sample_weight, set_base_clf)   [unit fit.*]
    ensures exactly one call clf_.fit(X[idx], y', w') where y' = y (or self.y[idx] if None), w' = sample_weight (or self.sample_weight[idx]);
            view' == (idx, y', w');  set_base_clf => base_view' == view' (copies) and base_clf_ = deepcopy(clf_) taken after the fit;
            not set_base_clf => base_* untouched
partial_fit(idx, y, sample_weight, use_base_clf, set_base_clf)   [unit partial_fit.*; verified against the CONTRACT of fit above]
    ensures view' == keep(start) ++ (idx, y', w')  where start = base_view if use_base_clf else view, and keep drops — from all three
            arrays at the same positions, order preserved — the entries whose index occurs in idx (enforce_unique_samples) or
            nothing; (*) holds for the new view; use_base_clf => the refitted classifier is a clone of base_clf_;
            base_* change only through set_base_clf
native partial_fit (use_partial_fit == True)   [unit partial_fit.native.*]
    ensures exactly one call clf_.partial_fit(X[idx], y', sample_weight=w'), on a deep copy of base_clf_ if use_base_clf

precomputed-kernel speed-up   [units precompute.*, speedup.*]
    cache invariant: every entry of pwc_K_ is NaN or KER(i, j), the kernel of samples i and j under the wrapped classifier's metric
    precompute(idx_fit, idx_pred, fit_params, pred_params) preserves it, caches exactly the requested pairs, leaves the others alone
    predict / predict_proba / predict_freq: raise, or call the precomputed clone once with P[b, a] = KER(idx_[a], idx[b]) (no NaN)

What is trusted: a scikit-learn `fit` discards every earlier fit (so (*) means 'equals a fresh copy trained on view'), clone/deepcopy.
"""
import ast
import z3

from pyvc.se import (State, ArrData, ListData, ObjData, Opaque, Ref, fresh, fresh_fn, fresh_sel, to_int, to_real, I, R, B, USort, z3bool,
                     Unsupported, is_z3)
from pyvc.unit import se_unit, returns, raises
from pyvc.lib import as_array, arr_of
from .pool_base import pool_lib

FU = "skactiveml/pool/utils.py"
CLS = "IndexClassifierWrapper"


def same_elems(a, b, n=None):
    """elementwise equality of two 1-D arrays (as a z3 formula), lengths included"""
    if a is None or b is None:
        return z3.BoolVal(a is None and b is None)
    t = z3.Int("t_eq")
    la, lb = to_int(a.shape[0]), to_int(b.shape[0])
    return z3.And(la == lb, z3.ForAll([t], z3.Implies(z3.And(0 <= t, t < la), eq_val(a.sel(t), b.sel(t)))))


def eq_val(x, y):
    if isinstance(x, Opaque) and isinstance(y, Opaque):
        return x.sym == y.sym
    if isinstance(x, Opaque) or isinstance(y, Opaque):
        return z3.BoolVal(False)
    if (is_z3(x) and z3.is_int(x)) or isinstance(x, int):
        return to_int(x) == to_int(y)
    nx, vx = to_real(x)
    ny, vy = to_real(y)
    return z3.And(nx == ny, z3.Implies(z3.Not(nx), vx == vy))


def index_lib(fit_contract=False):
    L = pool_lib()

    @L.fn("check_type", "check_consistent_length")
    def _noop(E, st, args, kw, node):
        return None

    @L.fn("check_array")
    def _check_array(E, st, args, kw, node):
        """check_array: the validated array has the contents of its argument"""
        return args[0]

    @L.fn("check_indices")
    def _check_indices(E, st, args, kw, node):
        """check_indices(idx, A, dim=0, unique='check_unique' | False) (proved for unique=True in pool_base.check_indices): the same
        indices, all within range; with 'check_unique' they are pairwise distinct (else it raises)"""
        a = as_array(args[0], st)
        A = as_array(args[1], st)
        un = kw.get("unique", True)
        if a is None or a.ndim != 1 or un is True:
            raise Unsupported("check_indices contract: 1-D, unique in ('check_unique', False)")
        t, u = z3.Ints("ci_t ci_u")
        n = to_int(a.shape[0])
        st.assume(z3.ForAll([t], z3.Implies(z3.And(0 <= t, t < n), z3.And(0 <= to_int(a.sel(t)), to_int(a.sel(t)) < to_int(A.shape[0])))))
        if un == "check_unique":
            st.assume(z3.ForAll([t, u], z3.Implies(z3.And(0 <= t, t < u, u < n), to_int(a.sel(t)) != to_int(a.sel(u)))))
        return args[0]

    @L.fn("clone")
    def _clone(E, st, args, kw, node):
        """sklearn.base.clone: a fresh, unfitted estimator with the parameters of the argument"""
        r = st.alloc(ObjData("__estimator__", {"__open__": True, "__clone_of__": args[0]}))
        st.events.append(("call", "clone", args, kw, r, {}))
        return r

    @L.fn("deepcopy", "copy.deepcopy")
    def _deepcopy(E, st, args, kw, node):
        """deepcopy of an estimator: a fresh object in the same fitted state (recorded, so that 'copied after the fit' can be checked)"""
        v = args[0]
        if isinstance(v, Ref) and isinstance(st.get(v), ObjData):
            r = st.alloc(ObjData(st.get(v).cls, dict(st.get(v).fields, __copy_of__=v)))
            st.events.append(("call", "deepcopy", args, kw, r, {}))
            return r
        raise Unsupported("deepcopy of a non-object")

    def est_fit(name):
        def h(E, st, recv, args, kw, node):
            """scikit-learn fit / partial_fit: trusted not to modify X, y, sample_weight"""
            st.events.append(("call", "__estimator__." + name, [recv] + list(args), kw, Opaque(name),
                              {a.id: st.heap.get(a.id) for a in list(args) + list(kw.values()) if isinstance(a, Ref)}))
            return recv
        return h
    L.contracts["__estimator__.fit"] = est_fit("fit")
    L.contracts["__estimator__.partial_fit"] = est_fit("partial_fit")

    def is_fitted(E, st, recv, args, kw, node):
        return Opaque("is_fitted")
    L.contracts[f"{CLS}.is_fitted"] = is_fitted
    if fit_contract:
        L.contracts[f"{CLS}.fit"] = fit_contract_handler
    return L


def fit_contract_handler(E, st, recv, args, kw, node):
    """callee contract of IndexClassifierWrapper.fit (use_partial_fit False), as proved by the units fit.*: see module docstring"""
    a = dict(zip(["idx", "y", "sample_weight", "set_base_clf"], args))
    a.update(kw)
    od = st.get(recv)
    f = dict(od.fields)
    idx, y, sw = a["idx"], a.get("y"), a.get("sample_weight")
    if y is None or not isinstance(idx, Ref):
        raise Unsupported("fit contract: explicit y")
    clf = f.get("clf_")
    if clf is None:
        raise Unsupported("fit contract: clf_ exists")
    X = st.get(f["X"])
    ia = st.get(idx)
    Xg = st.alloc(ArrData((ia.shape[0], X.shape[1]), lambda i, j: X.sel(to_int(ia.sel(i)), j), X.kind))
    st.events.append(("call", "__estimator__.fit", [clf, Xg, y, sw], {}, Opaque("fit"), {r.id: st.heap.get(r.id) for r in (Xg, y, sw) if isinstance(r, Ref)}))
    f["idx_"], f["y_"], f["sample_weight_"] = idx, y, sw
    sb = a.get("set_base_clf", False)
    if sb is True:
        bc = st.alloc(ObjData("__estimator__", {"__open__": True, "__copy_of__": clf}))
        st.events.append(("call", "deepcopy", [clf], {}, bc, {}))
        f["base_clf_"] = bc
        for k in ("idx_", "y_", "sample_weight_"):
            v = f[k]
            f["base_" + k] = None if v is None else st.alloc(ArrData(st.get(v).shape, st.get(v).sel, st.get(v).kind))
    elif sb is not False:
        raise Unsupported("fit contract: concrete set_base_clf")
    st.put(recv, ObjData(od.cls, f))
    return recv


def wrapper_world(E, st, unique, own_weights, fitted=True, with_base=True, native=False):
    N, d = z3.Int("N"), z3.Int("d")
    st.assume(N >= 1, d >= 1)
    X = st.alloc(ArrData((N, d), fresh_sel("X", "o", 2), "o"))
    y = st.alloc(ArrData((N,), fresh_sel("y", "o"), "o"))
    sw = st.alloc(ArrData((N,), fresh_sel("w", "f"), "f")) if own_weights else None
    clf = st.alloc(ObjData("__estimator__", {"__open__": True}))
    fields = {"X": X, "y": y, "sample_weight": sw, "clf": clf, "missing_label_": Opaque("missing_label"),
              "enforce_unique_samples": "check_unique" if unique else False, "use_partial_fit": native, "use_speed_up": False}
    ctx = {"N": N, "X": st.get(X), "y": st.get(y), "w": st.get(sw) if sw else None}
    if fitted:
        Lc = z3.Int("L")
        st.assume(Lc >= 0)
        fields["clf_"] = st.alloc(ObjData("__estimator__", {"__open__": True}))
        if not native:
            fields["idx_"] = st.alloc(ArrData((Lc,), fresh_sel("idx_", "i"), "i"))
            fields["y_"] = st.alloc(ArrData((Lc,), fresh_sel("y_", "o"), "o"))
            fields["sample_weight_"] = st.alloc(ArrData((Lc,), fresh_sel("w_", "f"), "f")) if own_weights else None
        ctx["L"] = Lc
    if with_base:
        LB = z3.Int("LB")
        st.assume(LB >= 0)
        fields["base_clf_"] = st.alloc(ObjData("__estimator__", {"__open__": True}))
        if not native:
            fields["base_idx_"] = st.alloc(ArrData((LB,), fresh_sel("bidx", "i"), "i"))
            fields["base_y_"] = st.alloc(ArrData((LB,), fresh_sel("by", "o"), "o"))
            fields["base_sample_weight_"] = st.alloc(ArrData((LB,), fresh_sel("bw", "f"), "f")) if own_weights else None
        ctx["LB"] = LB
    selfo = st.alloc(ObjData(CLS, fields))
    ctx["self"] = selfo
    ctx["pre"] = {k: (st.get(v) if isinstance(v, Ref) and isinstance(st.get(v), ArrData) else v) for k, v in fields.items()}
    ctx["pre_refs"] = dict(fields)
    # representation invariant: stored indices refer to rows of X; non-NaN weights
    tq = z3.Int("wf_t")
    for nm in ("idx_", "base_idx_"):
        a_ = ctx["pre"].get(nm)
        if isinstance(a_, ArrData):
            st.assume(z3.ForAll([tq], z3.Implies(z3.And(0 <= tq, tq < to_int(a_.shape[0])), z3.And(0 <= to_int(a_.sel(tq)), to_int(a_.sel(tq)) < N))))
    for nm in ("sample_weight", "sample_weight_", "base_sample_weight_"):
        a_ = ctx["pre"].get(nm)
        if isinstance(a_, ArrData):
            st.assume(z3.ForAll([tq], z3.Implies(z3.And(0 <= tq, tq < to_int(a_.shape[0])), z3.Not(to_real(a_.sel(tq))[0]))))     # weights are numbers
    ctx["flags"] = {"unique": bool(unique), "native": bool(native)}
    return ctx


def concretizer(ctx, op, **flags):
    """counter-model -> concrete wrapper state + arguments (replayed by bounded/cex.py family 'index_wrapper')"""
    def conc(ev):
        from pyvc import cex
        pre = ctx["pre"]
        N = cex.ival(ev, ctx["N"])
        if N > cex.MAX_N:
            raise cex.TooBig(N)
        own_y = [cex.label(ev, ctx["y"].sel(z3.IntVal(i))) for i in range(N)]
        own_w = None if ctx["w"] is None else [cex.rval(ev, ctx["w"].sel(z3.IntVal(i))) for i in range(N)]
        get = lambda nm: None if not isinstance(pre.get(nm), ArrData) else cex.arr(ev, pre[nm])
        case = {"family": "index_wrapper", "sig": "counter-model", "op": op, "N": N, "own_y": own_y, "own_w": own_w,
                "state": {nm: get(nm) for nm in ("idx_", "y_", "sample_weight_", "base_idx_", "base_y_", "base_sample_weight_")},
                "add_idx": cex.arr(ev, ctx["a_idx"]), "add_y": None if ctx["a_y"] is None else cex.arr(ev, ctx["a_y"]),
                "add_w": None if ctx["a_w"] is None else cex.arr(ev, ctx["a_w"])}
        case.update(ctx["flags"])
        case.update(flags)
        return case
    return conc


def new_args(st, ctx, own_weights, y_given=True):
    k = z3.Int("k")
    st.assume(k >= 1)              # check_array rejects an empty index array (that path raises)
    idx = st.alloc(ArrData((k,), fresh_sel("add_idx", "i"), "i"))
    y = st.alloc(ArrData((k,), fresh_sel("add_y", "o"), "o")) if y_given else None
    w = st.alloc(ArrData((k,), fresh_sel("add_w", "f"), "f")) if own_weights == "given" else None
    if w is not None:
        tq = z3.Int("nw_t")
        st.assume(z3.ForAll([tq], z3.Implies(z3.And(0 <= tq, tq < k), z3.Not(to_real(st.get(w).sel(tq))[0]))))     # check_array rejects NaN weights
    ctx.update(k=k, a_idx=st.get(idx), a_y=st.get(y) if y else None, a_w=st.get(w) if w else None)
    return idx, y, w


def fit_events(st, name="fit"):
    return [ev for ev in st.events if ev[0] == "call" and ev[1].split(".")[-1] == name and ev[1] != f"{CLS}.{name}"]


def expected_new(ctx, weights_mode):
    """the (idx, y, w) triple the operation adds, as element functions"""
    k = ctx["k"]
    ai = ctx["a_idx"]
    yf = (lambda t: ctx["a_y"].sel(t)) if ctx["a_y"] is not None else (lambda t: ctx["y"].sel(to_int(ai.sel(t))))
    if weights_mode == "given":
        wf = lambda t: ctx["a_w"].sel(t)
    elif weights_mode == "own":
        wf = lambda t: ctx["w"].sel(to_int(ai.sel(t)))
    else:
        wf = None
    return (lambda t: ai.sel(t)), yf, wf


def check_fit_call(E, st, ctx, ev, idxf, yf, wf, n, tag):
    """the call clf.fit(X[idx], y, w): argument contents"""
    args = ev[2]
    pre = ev[5] if len(ev) > 5 else {}
    pos = [a for a in args[1:]]
    kw = ev[3]
    Xa = pos[0] if pos else kw.get("X")
    ya = pos[1] if len(pos) > 1 else kw.get("y")
    wa = pos[2] if len(pos) > 2 else kw.get("sample_weight")
    get = lambda r: (pre.get(r.id) or st.get(r)) if isinstance(r, Ref) else None
    Xd, yd, wd = get(Xa), get(ya), get(wa)
    i, j = z3.Ints("fi fj")
    ok_shape = Xd is not None and Xd.ndim == 2 and yd is not None and yd.ndim == 1
    E.oblige(f"{tag}.fit_arguments_are_arrays", st, z3.BoolVal(bool(ok_shape)))
    if not ok_shape:
        return
    X = ctx["X"]
    E.oblige(f"{tag}.fitted_on_X[idx]", st, z3.And(to_int(Xd.shape[0]) == n, to_int(Xd.shape[1]) == to_int(X.shape[1]),
             z3.ForAll([i, j], z3.Implies(z3.And(0 <= i, i < n, 0 <= j, j < to_int(X.shape[1])),
                                          Xd.sel(i, j).sym == X.sel(to_int(idxf(i)), j).sym))))
    E.oblige(f"{tag}.fitted_on_the_labels_of_the_view", st, z3.And(to_int(yd.shape[0]) == n,
             z3.ForAll([i], z3.Implies(z3.And(0 <= i, i < n), eq_val(yd.sel(i), yf(i))))))
    if wf is None:
        E.oblige(f"{tag}.fitted_without_weights", st, z3.BoolVal(wa is None))
    else:
        E.oblige(f"{tag}.fitted_with_weights", st, z3.BoolVal(wd is not None and wd.ndim == 1))
        if wd is not None and wd.ndim == 1:
            E.oblige(f"{tag}.fitted_on_the_weights_of_the_view", st, z3.And(to_int(wd.shape[0]) == n,
                     z3.ForAll([i], z3.Implies(z3.And(0 <= i, i < n), eq_val(wd.sel(i), wf(i))))))


def check_view(E, st, ctx, fields, prefix, idxf, yf, wf, n, tag):
    i = z3.Int("vi")
    for name, f in (("idx_", idxf), ("y_", yf), ("sample_weight_", wf)):
        v = fields.get(prefix + name)
        if f is None:
            E.oblige(f"{tag}.{prefix}{name}_is_None", st, z3.BoolVal(v is None))
            continue
        d = st.get(v) if isinstance(v, Ref) else None
        E.oblige(f"{tag}.{prefix}{name}_is_an_array", st, z3.BoolVal(d is not None and isinstance(d, ArrData) and d.ndim == 1))
        if d is None or not isinstance(d, ArrData) or d.ndim != 1:
            continue
        E.oblige(f"{tag}.{prefix}{name}_holds_the_view", st, z3.And(to_int(d.shape[0]) == n,
                 z3.ForAll([i], z3.Implies(z3.And(0 <= i, i < n), eq_val(d.sel(i), f(i))))))


def check_unchanged(E, st, ctx, fields, names, tag):
    for nm in names:
        pre_ref = ctx["pre_refs"].get(nm)
        now = fields.get(nm)
        same = (pre_ref is None and now is None) or (isinstance(pre_ref, Ref) and isinstance(now, Ref) and now.id == pre_ref.id)
        if same and isinstance(pre_ref, Ref) and isinstance(ctx["pre"].get(nm), ArrData):
            same = st.get(now) is ctx["pre"][nm]          # not mutated in place either
        E.oblige(f"{tag}.{nm}_untouched", st, z3.BoolVal(bool(same)))


# ------------------------------------------------------------------------------------------ fit
def unit_fit(weights_mode, y_given, set_base, unique=False):
    own = weights_mode in ("own", "given")

    def setup(E, st):
        ctx = wrapper_world(E, st, unique, own_weights=(weights_mode != "none"))
        idx, y, w = new_args(st, ctx, weights_mode, y_given)
        ctx["args"] = [ctx["self"], idx]
        ctx["kwargs"] = {"y": y, "sample_weight": w, "set_base_clf": set_base}
        E.default_concretize = concretizer(ctx, "fit", set_base=bool(set_base))
        return ctx

    def post(E, ctx, outs):
        rets = returns(outs)
        if not rets:
            E.oblige("reaches.return", [], z3.BoolVal(False))
        idxf, yf, wf = expected_new(ctx, weights_mode)
        k = ctx["k"]
        for o in rets:
            st = o.state
            f = st.get(ctx["self"]).fields
            fits = fit_events(st)
            E.oblige("C19.fit.exactly_one_fit_of_the_wrapped_classifier", st, z3.BoolVal(len(fits) == 1))
            if len(fits) != 1:
                continue
            ev = fits[0]
            E.oblige("C19.fit.the_fitted_object_is_clf_", st, z3.BoolVal(isinstance(ev[2][0], Ref) and isinstance(f.get("clf_"), Ref) and ev[2][0].id == f["clf_"].id))
            check_fit_call(E, st, ctx, ev, idxf, yf, wf, k, "C19.fit")
            check_view(E, st, ctx, f, "", idxf, yf, wf, k, "C19.fit")
            if set_base:
                check_view(E, st, ctx, f, "base_", idxf, yf, wf, k, "C19.fit")
                bc = f.get("base_clf_")
                copies = [e_ for e_ in st.events if e_[0] == "call" and e_[1] in ("deepcopy", "copy.deepcopy")]
                order = [e_ for e_ in st.events if e_ is ev or e_ in copies]
                E.oblige("C19.fit.base_clf_is_a_copy_taken_after_the_fit", st, z3.BoolVal(
                    isinstance(bc, Ref) and bc.id != f["clf_"].id and bc.id != ctx["pre_refs"]["base_clf_"].id and
                    any(e_[4] is bc or (isinstance(e_[4], Ref) and e_[4].id == bc.id) for e_ in copies) and order and order[0] is ev))
            else:
                check_unchanged(E, st, ctx, f, ["base_idx_", "base_y_", "base_sample_weight_", "base_clf_"], "C19.fit")
            check_unchanged(E, st, ctx, f, ["X", "y", "sample_weight", "clf"], "C19.fit")
    nm = f"index_wrapper.fit.w_{weights_mode}.y_{'given' if y_given else 'own'}.{'set_base' if set_base else 'keep_base'}{'.unique' if unique else ''}"
    return se_unit(nm, FU, f"{CLS}.fit", CLS, setup, post, lib_factory=index_lib, inline={"_copy_sw", "_get_sw", "_concat_sw"})


UNITS = {}
for wm in ("none", "own", "given"):
    for yg in (True, False):
        for sb in (False, True):
            u = unit_fit(wm, yg, sb)
            UNITS[f"fit.{wm}.{yg}.{sb}"] = u
UNITS["fit.given.True.True.unique"] = unit_fit("given", True, True, unique=True)


# ------------------------------------------------------------------------------------------ partial_fit (refit emulation)
def unit_partial_fit(weights_mode, y_given, use_base, set_base, unique):
    def setup(E, st):
        ctx = wrapper_world(E, st, unique, own_weights=(weights_mode != "none"))
        idx, y, w = new_args(st, ctx, weights_mode, y_given)
        ctx["args"] = [ctx["self"], idx]
        ctx["kwargs"] = {"y": y, "sample_weight": w, "use_base_clf": use_base, "set_base_clf": set_base}
        E.default_concretize = concretizer(ctx, "partial_fit", set_base=bool(set_base), use_base=bool(use_base))
        return ctx

    def post(E, ctx, outs):
        rets = returns(outs)
        if not rets:
            E.oblige("reaches.return", [], z3.BoolVal(False))
        nidx, ny, nw = expected_new(ctx, weights_mode)
        k = ctx["k"]
        pre = ctx["pre"]
        pfx = "base_" if use_base else ""
        s_idx, s_y, s_w = pre[pfx + "idx_"], pre[pfx + "y_"], pre[pfx + "sample_weight_"]
        Ls = to_int(s_idx.shape[0])
        ai = ctx["a_idx"]
        p, q, t, u = z3.Ints("pp qq tt uu")
        dropped = lambda pp: z3.Exists([q], z3.And(0 <= q, q < k, to_int(ai.sel(q)) == to_int(s_idx.sel(pp))))
        for o in rets:
            st = o.state
            f = st.get(ctx["self"]).fields
            fits = fit_events(st)
            E.oblige("C19.partial_fit.exactly_one_refit", st, z3.BoolVal(len(fits) == 1))
            if len(fits) != 1:
                continue
            ev = fits[0]
            nd = st.get(f["idx_"]) if isinstance(f.get("idx_"), Ref) else None
            if nd is None or nd.ndim != 1:
                E.oblige("C19.partial_fit.idx__is_an_array", st, False)
                continue
            # witness for 'keep': the position function of the kept prefix
            if unique:
                parts = getattr(nd, "concat_of", None)
                fo = getattr(parts[0], "filter_of", None) if parts else None
                E.oblige("C19.partial_fit.kept_part_is_a_filter_of_the_old_indices", st, z3.BoolVal(fo is not None))
                if fo is None:
                    continue
                _, pos, m, _ = fo
                m = to_int(m)
                E.oblige("C19.partial_fit.keep.positions_ascending_in_range", st, z3.And(0 <= m, m <= Ls,
                         z3.ForAll([t, u], z3.Implies(z3.And(0 <= t, t < u, u < m), z3.And(0 <= pos(t), pos(t) < pos(u), pos(u) < Ls)))))
                tc = fresh("t", I)
                E.oblige("C19.partial_fit.keep.only_indices_not_added_again", st.pc + [0 <= tc, tc < m], z3.And(0 <= pos(tc), pos(tc) < Ls, z3.Not(dropped(pos(tc)))))
                pc_ = fresh("p", I)
                E.oblige("C19.partial_fit.keep.every_index_not_added_again", st.pc + [0 <= pc_, pc_ < Ls, z3.Not(dropped(pc_))],
                         z3.Exists([t], z3.And(0 <= t, t < m, pos(t) == pc_)))
            else:
                m = Ls
                pos = lambda tt_: tt_
            n_new = m + k
            idxf = lambda i: _ite_v(i < m, s_idx.sel(pos(i)), nidx(i - m))
            yf = lambda i: _ite_v(i < m, s_y.sel(pos(i)), ny(i - m))
            wf = (lambda i: _ite_v(i < m, s_w.sel(pos(i)), nw(i - m))) if nw is not None else None
            check_view(E, st, ctx, f, "", idxf, yf, wf, n_new, "C19.partial_fit")
            check_fit_call(E, st, ctx, ev, idxf, yf, wf, n_new, "C19.partial_fit")
            clf_now = f.get("clf_")
            E.oblige("C19.partial_fit.the_refitted_object_is_clf_", st, z3.BoolVal(isinstance(ev[2][0], Ref) and isinstance(clf_now, Ref) and ev[2][0].id == clf_now.id))
            if use_base:
                cd = st.get(clf_now) if isinstance(clf_now, Ref) else None
                src = cd.fields.get("__clone_of__") if isinstance(cd, ObjData) else None
                E.oblige("C19.partial_fit.restart_from_a_clone_of_the_base_classifier", st,
                         z3.BoolVal(isinstance(src, Ref) and src.id == ctx["pre_refs"]["base_clf_"].id))
            else:
                E.oblige("C19.partial_fit.continues_with_the_current_classifier", st, z3.BoolVal(isinstance(clf_now, Ref) and clf_now.id == ctx["pre_refs"]["clf_"].id))
            if set_base:
                check_view(E, st, ctx, f, "base_", idxf, yf, wf, n_new, "C19.partial_fit")
                bc = f.get("base_clf_")
                bd = st.get(bc) if isinstance(bc, Ref) else None
                E.oblige("C19.partial_fit.base_clf_is_a_copy_of_the_refitted_classifier", st,
                         z3.BoolVal(isinstance(bd, ObjData) and isinstance(bd.fields.get("__copy_of__"), Ref) and bd.fields["__copy_of__"].id == clf_now.id))
            else:
                check_unchanged(E, st, ctx, f, ["base_idx_", "base_y_", "base_sample_weight_", "base_clf_"], "C19.partial_fit")
            check_unchanged(E, st, ctx, f, ["X", "y", "sample_weight", "clf"], "C19.partial_fit")
    nm = (f"index_wrapper.partial_fit.w_{weights_mode}.y_{'given' if y_given else 'own'}.{'from_base' if use_base else 'from_current'}."
          f"{'set_base' if set_base else 'keep_base'}.{'unique' if unique else 'multiset'}")
    return se_unit(nm, FU, f"{CLS}.partial_fit", CLS, setup, post, lib_factory=lambda: index_lib(fit_contract=True),
                   inline={"_copy_sw", "_get_sw", "_concat_sw"})


def _ite_v(c, a, b):
    from pyvc.lib import _ite_val
    return _ite_val(c, a, b)


for wm in ("none", "own", "given"):
    for yg in (True, False):
        for ub in (False, True):
            for sb in (False, True):
                for un in (False, True):
                    UNITS[f"partial_fit.{wm}.{yg}.{ub}.{sb}.{un}"] = unit_partial_fit(wm, yg, ub, sb, un)


# ------------------------------------------------------------------------------------------ partial_fit (native partial_fit of the classifier)
def unit_partial_fit_native(weights_mode, y_given, use_base, set_base):
    def setup(E, st):
        ctx = wrapper_world(E, st, False, own_weights=(weights_mode != "none"), native=True)
        idx, y, w = new_args(st, ctx, weights_mode, y_given)
        ctx["args"] = [ctx["self"], idx]
        ctx["kwargs"] = {"y": y, "sample_weight": w, "use_base_clf": use_base, "set_base_clf": set_base}
        E.default_concretize = concretizer(ctx, "partial_fit", set_base=bool(set_base), use_base=bool(use_base))
        return ctx

    def post(E, ctx, outs):
        rets = returns(outs)
        if not rets:
            E.oblige("reaches.return", [], z3.BoolVal(False))
        nidx, ny, nw = expected_new(ctx, weights_mode)
        k = ctx["k"]
        for o in rets:
            st = o.state
            f = st.get(ctx["self"]).fields
            E.oblige("C19.native.no_refit_from_scratch", st, z3.BoolVal(len(fit_events(st)) == 0))
            pfs = fit_events(st, "partial_fit")
            E.oblige("C19.native.exactly_one_partial_fit", st, z3.BoolVal(len(pfs) == 1))
            if len(pfs) != 1:
                continue
            ev = pfs[0]
            check_fit_call(E, st, ctx, ev, nidx, ny, nw, k, "C19.native")
            clf_now = f.get("clf_")
            E.oblige("C19.native.the_updated_object_is_clf_", st, z3.BoolVal(isinstance(ev[2][0], Ref) and isinstance(clf_now, Ref) and ev[2][0].id == clf_now.id))
            cd = st.get(clf_now) if isinstance(clf_now, Ref) else None
            if use_base:
                src = cd.fields.get("__copy_of__") if isinstance(cd, ObjData) else None
                E.oblige("C19.native.restart_from_a_copy_of_the_base_classifier", st,
                         z3.BoolVal(isinstance(src, Ref) and src.id == ctx["pre_refs"]["base_clf_"].id and clf_now.id != src.id))
            else:
                E.oblige("C19.native.continues_with_the_current_classifier", st, z3.BoolVal(isinstance(clf_now, Ref) and clf_now.id == ctx["pre_refs"]["clf_"].id))
            bc = f.get("base_clf_")
            if set_base:
                bd = st.get(bc) if isinstance(bc, Ref) else None
                copies = [e_ for e_ in st.events if e_[0] == "call" and e_[1] == "deepcopy" and isinstance(e_[4], Ref) and isinstance(bc, Ref) and e_[4].id == bc.id]
                order = [e_ for e_ in st.events if e_ is ev or e_ in copies]
                E.oblige("C19.native.base_clf_is_a_copy_taken_after_the_update", st,
                         z3.BoolVal(isinstance(bd, ObjData) and isinstance(bd.fields.get("__copy_of__"), Ref) and bd.fields["__copy_of__"].id == clf_now.id
                                    and bc.id != clf_now.id and len(copies) == 1 and order[0] is ev))
            else:
                check_unchanged(E, st, ctx, f, ["base_clf_"], "C19.native")
            check_unchanged(E, st, ctx, f, ["X", "y", "sample_weight", "clf"], "C19.native")
    nm = (f"index_wrapper.partial_fit.native.w_{weights_mode}.y_{'given' if y_given else 'own'}.{'from_base' if use_base else 'from_current'}."
          f"{'set_base' if set_base else 'keep_base'}")
    return se_unit(nm, FU, f"{CLS}.partial_fit", CLS, setup, post, lib_factory=lambda: index_lib(fit_contract=True),
                   inline={"_copy_sw", "_get_sw", "_concat_sw"})


for wm in ("none", "own", "given"):
    for yg in (True, False):
        for ub in (False, True):
            for sb in (False, True):
                UNITS[f"native.{wm}.{yg}.{ub}.{sb}"] = unit_partial_fit_native(wm, yg, ub, sb)


# ------------------------------------------------------------------------------------------ precomputed-kernel speed-up
from pyvc.se import mk_fv
from .pool_base import check_indices_contract, MISSING

KER = z3.Function("KER", I, I, R)      # kernel value between samples i and j of self.X under the wrapped classifier's metric


def k_inv(K, N):
    """cache invariant: every entry of pwc_K_ is NaN (not computed yet) or the kernel value of its pair of samples"""
    i, j = z3.Ints("ki kj")
    nan, val = to_real(K.sel(i, j))
    return z3.ForAll([i, j], z3.Implies(z3.And(0 <= i, i < N, 0 <= j, j < N), z3.Or(nan, val == KER(i, j))))


def speedup_lib():
    L = index_lib()
    generic_ci = L.functions["check_indices"]
    holder = {}
    check_indices_contract(L)          # strictly increasing, same set, in range (proved in pool_base.check_indices)
    sorted_ci = L.functions["check_indices"]

    @L.fn("check_indices")
    def _ci(E, st, args, kw, node):
        if kw.get("unique", True) is True:
            return sorted_ci(E, st, args, kw, node)
        return generic_ci(E, st, args, kw, node)

    @L.fn("pairwise_kernels")
    def _pk(E, st, args, kw, node):
        """sklearn.metrics.pairwise.pairwise_kernels(A, B, metric, **params): entry (s, t) is the kernel of row s of A and row t of B;
        for A = X[ia], B = X[ib] that is KER(ia[s], ib[t]) (finite)"""
        A, Bm = st.get(args[0]), st.get(args[1])
        ga, gb = getattr(A, "gather_of", None), getattr(Bm, "gather_of", None)
        if ga is None or gb is None or ga[0] is not gb[0]:
            raise Unsupported("pairwise_kernels: rows of one data matrix expected")
        ia, ib = ga[1], gb[1]
        r = st.alloc(ArrData((ia.shape[0], ib.shape[0]), lambda s_, t_: mk_fv(z3.BoolVal(False), KER(to_int(ia.sel(s_)), to_int(ib.sel(t_)))), "f"))
        st.events.append(("call", "pairwise_kernels", args, kw, r, {"X": ga[0]}))
        return r

    def pwc_call(name):
        def h(E, st, recv, args, kw, node):
            st.events.append(("call", "ParzenWindowClassifier." + name, [recv] + list(args), kw, Opaque(name),
                              {a.id: st.heap.get(a.id) for a in args if isinstance(a, Ref)}))
            return Opaque(name)
        return h
    for nm in ("predict", "predict_proba", "predict_freq"):
        for c in ("ParzenWindowClassifier", "ClassFrequencyEstimator", "SkactivemlClassifier"):     # whichever class defines the method
            L.contracts[f"{c}.{nm}"] = pwc_call(nm)
    return L


def speedup_world(E, st, fitted=True):
    N, d = z3.Int("N"), z3.Int("d")
    st.assume(N >= 1, d >= 1)
    X = st.alloc(ArrData((N, d), fresh_sel("X", "o", 2), "o"))
    y = st.alloc(ArrData((N,), fresh_sel("y", "o"), "o"))
    K = ArrData((N, N), fresh_sel("K", "f", 2), "f")
    st.assume(k_inv(K, N))
    metric = Opaque("pwc_metric")
    from pyvc.se import DictData
    fields = {"X": X, "y": y, "sample_weight": None, "clf": st.alloc(ObjData("ParzenWindowClassifier", {"__open__": True})),
              "clf_": st.alloc(ObjData("ParzenWindowClassifier", {"__open__": True})),
              "missing_label_": Opaque("missing_label"), "enforce_unique_samples": False, "use_partial_fit": False, "use_speed_up": True,
              "pwc_K_": st.alloc(K), "pwc_metric_": metric, "pwc_metric_dict_": st.alloc(DictData({}, False))}
    ctx = {"N": N, "X": st.get(X), "y": st.get(y), "K": K, "metric": metric}
    if fitted:
        Lc = z3.Int("L")
        st.assume(Lc >= 0)
        ii = ArrData((Lc,), fresh_sel("idx_", "i"), "i")
        t = z3.Int("t_in")
        st.assume(z3.ForAll([t], z3.Implies(z3.And(0 <= t, t < Lc), z3.And(0 <= to_int(ii.sel(t)), to_int(ii.sel(t)) < N))))
        fields["idx_"] = st.alloc(ii)
        ctx.update(L=Lc, idx_=ii)
    ctx["self"] = st.alloc(ObjData(CLS, fields))
    ctx["pre_refs"] = dict(fields)
    ctx["pre"] = {k: (st.get(v) if isinstance(v, Ref) and isinstance(st.get(v), ArrData) else v) for k, v in fields.items()}
    return ctx


def unit_precompute(fit_params, pred_params):
    def setup(E, st):
        ctx = speedup_world(E, st)
        a, b = z3.Int("n_fit"), z3.Int("n_pred")
        st.assume(a >= 0, b >= 0)
        fa = ArrData((a,), fresh_sel("idx_fit", "i"), "i")
        pa = ArrData((b,), fresh_sel("idx_pred", "i"), "i")
        ctx.update(fa=fa, pa=pa, a=a, b=b)
        ctx["args"] = [ctx["self"], st.alloc(fa), st.alloc(pa)]
        ctx["kwargs"] = {"fit_params": fit_params, "pred_params": pred_params}
        return ctx

    def post(E, ctx, outs):
        rets = returns(outs)
        if not rets:
            E.oblige("reaches.return", [], z3.BoolVal(False))
        N, K0 = ctx["N"], ctx["K"]
        ml = ctx["pre_refs"]["missing_label_"]
        yv = ctx["y"]

        def wanted(arr, n, mode):
            def pred(i):
                t = z3.Int("w_t")
                lab = MISSING(yv.sel(i).sym, ml.sym)
                cond = {"all": z3.BoolVal(True), "labeled": z3.Not(lab), "unlabeled": lab}[mode]
                return z3.And(cond, z3.Exists([t], z3.And(0 <= t, t < n, to_int(arr.sel(t)) == i)))
            return pred
        wf, wp = wanted(ctx["fa"], ctx["a"], fit_params), wanted(ctx["pa"], ctx["b"], pred_params)
        for o in rets:
            st = o.state
            f = st.get(ctx["self"]).fields
            K1 = st.get(f["pwc_K_"]) if isinstance(f.get("pwc_K_"), Ref) else None
            ok = isinstance(K1, ArrData) and K1.ndim == 2 and K1.kind == "f"
            E.oblige("C19.precompute.cache_is_a_float_matrix", st, z3.BoolVal(bool(ok)))
            if not ok:
                continue
            E.oblige("C19.precompute.cache_invariant_preserved", st, k_inv(K1, N))
            ic, jc = fresh("i", I), fresh("j", I)
            rng = [0 <= ic, ic < N, 0 <= jc, jc < N]
            nan1, val1 = to_real(K1.sel(ic, jc))
            E.oblige("C19.precompute.requested_pairs_are_cached", st.pc + rng, z3.Implies(z3.And(wf(ic), wp(jc)), z3.And(z3.Not(nan1), val1 == KER(ic, jc))))
            E.oblige("C19.precompute.other_pairs_untouched", st.pc + rng, z3.Implies(z3.Not(z3.And(wf(ic), wp(jc))), eq_val(K1.sel(ic, jc), K0.sel(ic, jc))))
            pk = [e_ for e_ in st.events if e_[0] == "call" and e_[1] == "pairwise_kernels"]
            for e_ in pk:
                margs = list(e_[2][2:]) + [e_[3].get("metric")]
                E.oblige("C19.precompute.kernel_of_the_wrapped_classifier", st, z3.BoolVal(any(m_ is ctx["metric"] for m_ in margs) and e_[5]["X"] is ctx["X"]
                                                                                             and not [k_ for k_ in e_[3] if k_ not in ("metric",)]))
            check_unchanged(E, st, ctx, f, ["X", "y", "clf", "clf_", "idx_"], "C19.precompute")
    return se_unit(f"index_wrapper.precompute.fit_{fit_params}.pred_{pred_params}", FU, f"{CLS}.precompute", CLS, setup, post, lib_factory=speedup_lib)


def unit_speedup_predict(method):
    def setup(E, st):
        ctx = speedup_world(E, st)
        q = z3.Int("n_query")
        st.assume(q >= 0)
        qa = ArrData((q,), fresh_sel("query_idx", "i"), "i")
        t = z3.Int("t_q")
        st.assume(z3.ForAll([t], z3.Implies(z3.And(0 <= t, t < q), z3.And(0 <= to_int(qa.sel(t)), to_int(qa.sel(t)) < ctx["N"]))))
        ctx.update(q=q, qa=qa)
        ctx["args"] = [ctx["self"], st.alloc(qa)]
        return ctx

    def post(E, ctx, outs):
        rets = returns(outs)
        if not rets:
            E.oblige("reaches.return", [], z3.BoolVal(False))
        for o in rets:
            st = o.state
            f = st.get(ctx["self"]).fields
            calls = [e_ for e_ in st.events if e_[0] == "call" and e_[1].startswith("ParzenWindowClassifier.")]
            E.oblige(f"C19.speedup.{method}.one_call_of_the_precomputed_classifier", st,
                     z3.BoolVal(len(calls) == 1 and calls[0][1].endswith("." + method) and calls[0][2][0].id == ctx["pre_refs"]["clf_"].id))
            if len(calls) != 1:
                continue
            P = calls[0][2][1] if len(calls[0][2]) > 1 else None
            Pd = calls[0][5].get(P.id) if isinstance(P, Ref) else None
            ok = isinstance(Pd, ArrData) and Pd.ndim == 2
            E.oblige(f"C19.speedup.{method}.argument_is_a_matrix", st, z3.BoolVal(bool(ok)))
            if not ok:
                continue
            a, b = z3.Ints("sa sb")
            nan, val = to_real(Pd.sel(b, a))
            E.oblige(f"C19.speedup.{method}.rows_are_the_kernels_between_query_and_training_samples", st, z3.And(
                to_int(Pd.shape[0]) == ctx["q"], to_int(Pd.shape[1]) == ctx["L"],
                z3.ForAll([a, b], z3.Implies(z3.And(0 <= a, a < ctx["L"], 0 <= b, b < ctx["q"]),
                                             z3.And(z3.Not(nan), val == KER(to_int(ctx["idx_"].sel(a)), to_int(ctx["qa"].sel(b))))))))
            check_unchanged(E, st, ctx, f, ["X", "y", "clf", "clf_", "idx_", "pwc_K_"], f"C19.speedup.{method}")
    return se_unit(f"index_wrapper.speedup.{method}", FU, f"{CLS}.{method}", CLS, setup, post, lib_factory=speedup_lib)


for fp in ("all", "labeled", "unlabeled"):
    for pp in ("all", "labeled", "unlabeled"):
        UNITS[f"precompute.{fp}.{pp}"] = unit_precompute(fp, pp)
for mth in ("predict", "predict_proba", "predict_freq"):
    UNITS[f"speedup.{mth}"] = unit_speedup_predict(mth)


# ------------------------------------------------------------------------------------------ __init__ (establishes what the other units assume)
def unit_init(fitted, set_base, speedup):
    """IndexClassifierWrapper.__init__: the state the fit / partial_fit / precompute / predict units start from.
      * the caller's classifier is never written to and never stored as the working model: clf_ (if the classifier is fitted already, or for the
        kernel speed-up) is a FRESH object (deepcopy / clone), base_clf_ a fresh copy of that copy; 'precomputed' is set on the clone only
      * set_base_clf=True with an unfitted classifier raises NotFittedError
      * use_partial_fit <=> the classifier has partial_fit and ignore_partial_fit is False; enforce_unique_samples becomes 'check_unique' / False
      * the kernel cache starts as an N x N matrix that is NaN everywhere (so the cache invariant 'NaN or KER(i, j)' holds initially)
      * X, y, sample_weight are the caller's arrays (validated), missing_label_ = missing_label"""
    h = {}

    def lib():
        L = index_lib()
        L.list_shapes = True

        @L.fn("check_missing_label", "check_equal_missing_label", "check_type", "check_consistent_length")
        def _noop(E, st, args, kw, node):
            return None

        @L.fn("np.issubdtype")
        def _isd(E, st, args, kw, node):
            return True          # the sentinel is compatible with the dtype of y (otherwise __init__ raises TypeError)

        @L.fn("clone")
        def _clone(E, st, args, kw, node):
            od = st.get(args[0])
            r = st.alloc(ObjData(od.cls, {k: v for k, v in od.fields.items() if not k.endswith("_") or k.startswith("__")}))
            h.setdefault("clones", []).append(r)
            return r
        return L

    def setup(E, st):
        h.clear()
        N, d = z3.Int("N"), z3.Int("d")
        st.assume(N >= 1, d >= 1)
        X = st.alloc(ArrData((N, d), fresh_sel("X", "o", 2), "o"))
        y = st.alloc(ArrData((N,), fresh_sel("y", "o"), "o"))
        cls = "ParzenWindowClassifier" if speedup else "__estimator__"
        cf = {"__open__": False, "__isinstance__": ("SkactivemlClassifier",) + (("ParzenWindowClassifier",) if speedup else ()),
              "missing_label": Opaque("missing_label"), "metric": Opaque("metric"), "metric_dict": None}
        if fitted:
            cf["classes_"] = Opaque("classes_")
        has_pf = z3.Bool("clf_has_partial_fit")
        cf["__hasattr__partial_fit"] = has_pf
        clf = st.alloc(ObjData(cls, cf))
        selfo = st.alloc(ObjData(CLS, {}))
        ipf, eus = z3.Bool("ignore_partial_fit"), z3.Bool("enforce_unique_samples")
        h.update(N=N, X=X, y=y, clf=clf, self=selfo, clf_fields=dict(cf), has_pf=has_pf, ipf=ipf, eus=eus)
        return {"args": [selfo, clf, X, y], "kwargs": {"sample_weight": None, "set_base_clf": set_base, "ignore_partial_fit": ipf,
                                                        "enforce_unique_samples": eus, "use_speed_up": speedup, "missing_label": Opaque("missing_label")}}

    def post(E, ctx, outs):
        rets, rs = returns(outs), raises(outs)
        if set_base and not fitted:
            E.oblige("C19.init.unfitted_base_is_rejected", [], z3.BoolVal(bool(rs) and not rets and all("NotFittedError" in str(o.value) for o in rs)))
            return
        if not rets:
            E.oblige("reaches.return", [], z3.BoolVal(False))
        N = h["N"]
        for o in rets:
            st = o.state
            f = st.get(h["self"]).fields
            cur = st.get(h["clf"]).fields
            E.oblige("C19.init.callers_classifier_not_written", st, z3.BoolVal(
                not any(ev[0] == "setattr" and ev[1] == h["clf"].id for ev in st.events) and
                all(cur.get(k) is v or (is_z3(v) and is_z3(cur.get(k)) and z3.eq(v, cur.get(k))) or cur.get(k) == v for k, v in h["clf_fields"].items() if not k.startswith("__"))))
            c_ = f.get("clf_")
            if fitted or speedup:
                E.oblige("C19.init.clf__is_a_fresh_object", st, z3.BoolVal(isinstance(c_, Ref) and c_.id != h["clf"].id))
            else:
                E.oblige("C19.init.no_working_model_before_the_first_fit", st, z3.BoolVal(c_ is None))
            if set_base:
                b_ = f.get("base_clf_")
                E.oblige("C19.init.base_clf__is_a_fresh_copy", st, z3.BoolVal(isinstance(b_, Ref) and isinstance(c_, Ref) and b_.id not in (c_.id, h["clf"].id)))
            else:
                E.oblige("C19.init.no_base_model", st, z3.BoolVal(f.get("base_clf_") is None))
            E.oblige("C19.init.data_are_the_callers_arrays", st, z3.BoolVal(
                isinstance(f.get("X"), Ref) and f["X"].id == h["X"].id and isinstance(f.get("y"), Ref) and f["y"].id == h["y"].id and f.get("sample_weight") is None))
            upf = f.get("use_partial_fit")
            E.oblige("C19.init.use_partial_fit_iff_available_and_not_ignored", st,
                     z3.BoolVal(False) if upf is None else z3bool(upf) == z3.And(h["has_pf"], z3.Not(h["ipf"])))
            eu = f.get("enforce_unique_samples")
            E.oblige("C19.init.enforce_unique_samples_is_check_unique_or_False", st, z3.BoolVal(eu in ("check_unique", False)))
            if speedup:
                K = st.get(f["pwc_K_"]) if isinstance(f.get("pwc_K_"), Ref) else None
                ok = isinstance(K, ArrData) and K.ndim == 2
                E.oblige("C19.init.kernel_cache_exists", st, z3.BoolVal(bool(ok)))
                if ok:
                    i, j = z3.Ints("ki kj")
                    E.oblige("C19.init.kernel_cache_is_N_x_N_and_all_NaN", st, z3.And(to_int(K.shape[0]) == N, to_int(K.shape[1]) == N,
                             z3.ForAll([i, j], z3.Implies(z3.And(0 <= i, i < N, 0 <= j, j < N), to_real(K.sel(i, j))[0]))))
                    E.oblige("C19.init.cache_invariant_holds", st, k_inv(K, N))
                cd = st.get(c_) if isinstance(c_, Ref) else None
                E.oblige("C19.init.precomputed_metric_is_set_on_the_clone_only", st, z3.BoolVal(
                    isinstance(cd, ObjData) and cd.fields.get("metric") == "precomputed" and cur.get("metric") is h["clf_fields"]["metric"]))
    tag = f"{'fitted' if fitted else 'unfitted'}.{'set_base' if set_base else 'no_base'}.{'speedup' if speedup else 'plain'}"
    return se_unit(f"index_wrapper.__init__.{tag}", FU, f"{CLS}.__init__", CLS, setup, post, lib_factory=lib)


for _f in (True, False):
    for _b in (True, False):
        for _s in (True, False):
            UNITS[f"__init__.{'fitted' if _f else 'unfitted'}.{'set_base' if _b else 'no_base'}.{'speedup' if _s else 'plain'}"] = unit_init(_f, _b, _s)
