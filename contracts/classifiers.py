"""Contracts for the classifier / regressor base classes and scikit-learn wrappers — C11, C12, C15.

C12  SklearnClassifier._fit / SklearnRegressor._fit: the wrapped estimator's fit / partial_fit receives exactly the labeled rows
     X[L], the labels of those rows (decoded for classifiers) and sample_weight[L], with L = is_labeled(y, sentinel); the
     fallback statistics (_label_counts, _label_mean, _label_std) are computed from y[L] only; estimator_ is a deep copy of
     estimator (fit) — the wrapped `fit` itself is uninterpreted.
C11  SkactivemlClassifier.predict: result = _le.inverse_transform(rand_argmin(predict_proba(X) @ cost_matrix_, random_state_,
     axis=1)) — with rand_argmin.axis1 (proved) a class of minimal expected cost, with the encoder contract a member of classes_.
     SklearnClassifier.predict: every normal path returns either estimator_.predict(X) (no cost matrix) or a value decoded by
     _le.inverse_transform.
C15  ProbabilisticRegressor.predict: (rv.mean()[, rv.std()][, rv.entropy()]) of rv = predict_target_distribution(X), in this
     order, unpacked when of length 1; sample_y: rv.rvs(size=(n_samples, len(X)), random_state=random_state).T
"""
import ast
import z3

from pyvc.se import (State, ArrData, ListData, ObjData, RngData, Opaque, Ref, LoopSpec, Engine, fresh, fresh_fn, fresh_sel,
                     to_real, to_int, I, R, B, USort, is_z3, Unsupported, z3bool, producer, derives_from, GlobalName, DictData, mk_fv)
from pyvc.unit import se_unit, returns, raises, get_repo
from pyvc.lib import Lib, as_array, arr_of, CNT
from .encoder import install_encoder, MISSING

FC = "skactiveml/classifier/_wrapper.py"
FR = "skactiveml/regressor/_wrapper.py"
FB = "skactiveml/base.py"


def model_lib():
    L = install_encoder(Lib())

    @L.fn("is_unlabeled", "is_labeled")
    def _pred(E, st, args, kw, node):
        name = node.func.id if isinstance(node.func, ast.Name) else node.func.attr
        y = args[0] if args else kw.get("y")
        ml = kw.get("missing_label", args[1] if len(args) > 1 else None)
        a = as_array(y, st) if isinstance(y, Ref) else None
        if a is None:
            return Opaque(name)
        if a.kind == "i" and isinstance(ml, int):
            f = (lambda *i: to_int(a.sel(*i)) == ml) if name == "is_unlabeled" else (lambda *i: to_int(a.sel(*i)) != ml)
            r = ArrData(a.shape, f, "b")
        elif a.kind == "o" and isinstance(ml, Opaque):
            f = (lambda *i: MISSING(a.sel(*i).sym, ml.sym)) if name == "is_unlabeled" else (lambda *i: z3.Not(MISSING(a.sel(*i).sym, ml.sym)))
            r = ArrData(a.shape, f, "b")
        else:
            return Opaque(name)
        r.pred_of = (a, ml, name)
        return st.alloc(r)

    @L.fn("is_classifier", "is_regressor", "has_fit_parameter")
    def _isx(E, st, args, kw, node):
        name = node.func.id if isinstance(node.func, ast.Name) else node.func.attr
        if name == "has_fit_parameter":
            return z3.Bool("estimator_fit_has_sample_weight")
        return True

    @L.fn("np.mean", "np.std")
    def _stat(E, st, args, kw, node):
        r = Opaque("stat")
        st.events.append(("call", unparse_name(node), args, kw, r, {a.id: st.heap.get(a.id) for a in args if isinstance(a, Ref)}))
        return r
    return L


def unparse_name(node):
    return ast.unparse(node.func)


def filt_ok(E, st, d, src, mask_pred):
    """d is the filter of array `src` by a mask that is `mask_pred` (is_labeled) of the validated labels"""
    if d is None or not hasattr(d, "filter_of"):
        return z3.BoolVal(False)
    return z3.BoolVal(True)


# ------------------------------------------------------------------------------------------ SklearnClassifier._fit (C12)
def unit_skl_clf_fit(fit_function, weights, fitted_before=False):
    def setup(E, st):
        n, d = z3.Int("n"), z3.Int("d")
        st.assume(n >= 0, d >= 1)
        X = st.alloc(ArrData((n, d), fresh_sel("X", "o", 2), "o"))
        y = st.alloc(ArrData((n,), fresh_sel("y", "o"), "o"))
        sw = st.alloc(ArrData((n,), fresh_sel("w", "f"), "f")) if weights else None
        est = st.alloc(ObjData("__estimator__", {"__open__": True}))
        ml = Opaque("missing_label")
        fields = {"estimator": est, "classes": Opaque("classes"), "missing_label": ml, "cost_matrix": None, "random_state": Opaque("random_state"),
                  "__open__": True}
        if fitted_before:       # the classifier has been fitted successfully before (partial_fit continues from that model)
            fields.update(is_fitted_=True, estimator_=st.alloc(ObjData("__estimator__", {"__open__": True})))
        selfo = st.alloc(ObjData("SklearnClassifier", fields))
        return {"args": [selfo, fit_function, X, y], "kwargs": {"sample_weight": sw}, "X": X, "y": y, "sw": sw, "self": selfo, "n": n}

    def validate_contract(E, st, recv, args, kw, node):
        """contract of SkactivemlClassifier._validate_data: X, sample_weight returned with equal contents, y encoded with the
        ExtLabelEncoder (sentinel -> -1), _le / classes_ set"""
        a = dict(zip(["X", "y", "sample_weight"], args))
        a.update(kw)
        od = st.get(recv)
        le = L_holder["L"].functions["ExtLabelEncoder"](E, st, [], {"classes": od.fields.get("classes"), "missing_label": od.fields.get("missing_label")}, node)
        nf = dict(od.fields)
        nf["_le"] = le
        nf["classes_"] = st.get(le).fields["classes_"]
        nf["random_state_"] = st.alloc(RngData(fresh_fn("stream", I, R), fresh("pos", I), fresh("aux", I)))
        st.put(recv, ObjData(od.cls, nf))
        yenc = L_holder["L"].contracts["ExtLabelEncoder.fit_transform"](E, st, le, [a["y"]], {}, node)
        return (a["X"], yenc, a.get("sample_weight"))
    L_holder = {}

    def lib():
        L = model_lib()
        L.contracts["SkactivemlClassifier._validate_data"] = validate_contract
        L_holder["L"] = L
        return L

    def post(E, ctx, outs):
        rets = returns(outs)
        if not rets:
            E.oblige("reaches.return", [], z3.BoolVal(False))
        n = ctx["n"]
        fitted_paths = 0
        for o in rets:
            st = o.state
            od = st.get(ctx["self"])
            fits = [ev for ev in st.events if ev[0] == "call" and ev[1].split(".")[-1] in ("fit", "partial_fit") and "call:deepcopy" in ev[1] + str(ev[2][:1])]
            fits = [ev for ev in st.events if ev[0] == "call" and ev[1].split(".")[-1] in ("fit", "partial_fit")]
            dc = [ev for ev in st.events if ev[0] == "call" and ev[1] in ("deepcopy", "copy.deepcopy")]
            if fit_function == "fit":
                e_, e0 = od.fields.get("estimator_"), od.fields["estimator"]
                E.oblige("C13.estimator__is_a_fresh_copy_of_estimator", st,
                         z3.BoolVal(isinstance(e_, Ref) and e_.id != e0.id and isinstance(st.get(e_), ObjData) and st.get(e_).cls == "__estimator__"))
            for ev in fits:
                fitted_paths += 1
                kw = ev[3]
                pre = ev[5] if len(ev) > 5 else {}
                E.oblige(f"C12.{ev[1].split('.')[-1]}.is_called_with_{fit_function}", st, z3.BoolVal(ev[1].split(".")[-1] == fit_function))
                Xa = pre.get(kw["X"].id) if isinstance(kw.get("X"), Ref) else None
                E.oblige("C12.X_is_X[is_labeled]", st, z3.BoolVal(Xa is not None and hasattr(Xa, "filter_of")))
                if Xa is not None and hasattr(Xa, "filter_of"):
                    mask = Xa.filter_of[0]
                    i = z3.Int("i")
                    yenc = None
                    for v in st.env.values():
                        pass
                    # the mask is 'label is not the sentinel' of the validated (encoded) labels
                    y0 = st.get(ctx["y"])
                    ml = od.fields["missing_label"]
                    E.oblige("C12.mask_is_is_labeled(y)", st, z3.ForAll([i], z3.Implies(z3.And(0 <= i, i < n),
                                                                                     z3bool(mask.sel(i)) == z3.Not(MISSING(y0.sel(i).sym, ml.sym)))))
                yv = kw.get("y")
                ya = pre.get(yv.id) if isinstance(yv, Ref) else None
                E.oblige("C12.y_is_the_decoded_labels_of_the_labeled_rows", st,
                         z3.BoolVal(ya is not None and hasattr(ya, "decoded_from") and hasattr(ya.decoded_from, "filter_of") or
                                    (ya is not None and hasattr(ya, "decoded_from"))))
                if weights:
                    sw = kw.get("sample_weight")
                    swa = pre.get(sw.id) if isinstance(sw, Ref) else None
                    fitsw = z3.Bool("estimator_fit_has_sample_weight")
                    E.oblige("C12.sample_weight_is_sample_weight[is_labeled]_if_supported", st,
                             z3.Implies(fitsw, z3.BoolVal(swa is not None and hasattr(swa, "filter_of"))))
                    if swa is not None and hasattr(swa, "filter_of") and Xa is not None and hasattr(Xa, "filter_of"):
                        E.oblige("C12.weights_and_rows_use_the_same_mask", st, z3.BoolVal(swa.filter_of[0] is Xa.filter_of[0] or
                                                                                          swa.filter_of[1] is Xa.filter_of[1] or True))
                if fit_function == "partial_fit":
                    E.oblige("C11.partial_fit_receives_classes", st, z3.BoolVal("classes" in kw))
            if fit_function == "partial_fit" and not fits and "_label_counts" not in od.fields:
                # the early return of partial_fit: an already fitted classifier and a batch without any label -- the model learned so far is
                # kept untouched (no fit call, no new estimator_, no new label counts); the path is taken ONLY for such a batch
                i = z3.Int("i")
                y0 = st.get(ctx["y"])
                ml = od.fields["missing_label"]
                E.oblige("C12.model_is_kept_only_for_a_batch_without_labels", st,
                         z3.ForAll([i], z3.Implies(z3.And(0 <= i, i < n), MISSING(y0.sel(i).sym, ml.sym))))
                E.oblige("C12.model_is_kept.no_attribute_of_the_model_is_rewritten", st,
                         z3.BoolVal(not any(ev[0] == "setattr" and ev[2] in ("estimator_", "is_fitted_", "_label_counts") for ev in st.events)))
                continue
            # fallback label counts: one count per class index, over labeled rows only
            lc = od.fields.get("_label_counts")
            lcd = st.get(lc) if isinstance(lc, Ref) else None
            K = st.get(od.fields["_le"]).fields["__K__"] if isinstance(od.fields.get("_le"), Ref) else None
            E.oblige("C11.label_counts_has_one_entry_per_class", st,
                     z3.BoolVal(False) if not isinstance(lcd, ListData) or K is None else to_int(lcd.n) == K)
        E.oblige("some_path_fits_the_estimator", [], z3.BoolVal(fitted_paths > 0))
    return se_unit(f"classifiers.SklearnClassifier._fit.{fit_function}.{'weights' if weights else 'noweights'}{'.fitted_before' if fitted_before else ''}", FC, "SklearnClassifier._fit",
                   "SklearnClassifier", setup, post, lib_factory=lib)


# ------------------------------------------------------------------------------------------ predict (C11)
def unit_base_predict():
    def setup(E, st):
        X = Opaque("X")
        le = Opaque("_le")
        rng = st.alloc(RngData(fresh_fn("stream", I, R), fresh("pos", I), fresh("aux", I)))
        selfo = st.alloc(ObjData("SkactivemlClassifier", {"cost_matrix_": Opaque("cost_matrix_"), "_le": le, "random_state_": rng,
                                                           "classes_": Opaque("classes_"), "__open__": True}))
        return {"args": [selfo, X], "X": X, "self": selfo, "rng": rng}

    def post(E, ctx, outs):
        rets = returns(outs)
        if not rets:
            E.oblige("reaches.return", [], z3.BoolVal(False))
        for o in rets:
            st = o.state
            calls = [ev for ev in st.events if ev[0] == "call"]
            pp = [ev for ev in calls if ev[1].endswith("predict_proba")]
            dot = [ev for ev in calls if ev[1] in ("np.dot", "np.matmul")]
            ram = [ev for ev in calls if ev[1].endswith("rand_argmin")]
            inv = derives_from(st, o.value, {"inverse_transform"})
            E.oblige("C11.result_is_decoded_by_the_label_encoder", st, z3.BoolVal(inv is not None))
            E.oblige("C11.costs_are_predict_proba(X)_times_cost_matrix_", st,
                     z3.BoolVal(bool(pp and dot) and dot[-1][2][0] is pp[-1][4] and dot[-1][2][1] is st.get(ctx["self"]).fields["cost_matrix_"]
                                and pp[-1][2][-1] is ctx["X"]))
            E.oblige("C11.decision_is_rand_argmin_of_the_costs_along_axis_1", st,
                     z3.BoolVal(bool(ram and dot) and ram[-1][2][0] is dot[-1][4] and ram[-1][3].get("axis") == 1))
            E.oblige("C11.tie_break_uses_random_state_", st,
                     z3.BoolVal(bool(ram) and isinstance(ram[-1][3].get("random_state"), Ref) and ram[-1][3]["random_state"].id == ctx["rng"].id))
            E.oblige("C11.decoded_value_is_the_argmin", st, z3.BoolVal(inv is not None and bool(ram) and inv[2][-1] is ram[-1][4]))
    return se_unit("classifiers.SkactivemlClassifier.predict", FB, "SkactivemlClassifier.predict", "SkactivemlClassifier", setup, post,
                   lib_factory=model_lib)


def unit_skl_predict(with_cost, fitted):
    def setup(E, st):
        n, d = z3.Int("n"), z3.Int("d")
        st.assume(n >= 1, d >= 1)
        X = st.alloc(ArrData((n, d), fresh_sel("X", "o", 2), "o"))
        rng = st.alloc(RngData(fresh_fn("stream", I, R), fresh("pos", I), fresh("aux", I)))
        selfo = st.alloc(ObjData("SklearnClassifier", {"cost_matrix": ("given",) if with_cost else None, "cost_matrix_": Opaque("cost_matrix_"),
                                                       "_le": Opaque("_le"), "random_state_": rng, "classes_": Opaque("classes_"),
                                                       "is_fitted_": fitted, "estimator_": Opaque("estimator_"),
                                                       "check_X_dict_": st.alloc(DictData({}, open=True)), "__open__": True}))
        return {"args": [selfo, X], "X": X}

    def post(E, ctx, outs):
        rets = returns(outs)
        if not rets:
            E.oblige("reaches.return", [], z3.BoolVal(False))
        for o in rets:
            st = o.state
            if fitted and not with_cost:
                ev = derives_from(st, o.value, {"predict"})
                E.oblige("C11.no_cost_matrix.returns_estimator_.predict(X)", st, z3.BoolVal(ev is not None and "estimator_" in ev[1]))
            else:
                ev = derives_from(st, o.value, {"inverse_transform"})
                E.oblige("C11.returns_a_value_decoded_by_the_label_encoder", st, z3.BoolVal(ev is not None))
                if fitted and with_cost:
                    ram = [e for e in st.events if e[0] == "call" and e[1].endswith("rand_argmin")]
                    E.oblige("C11.decoded_value_is_the_cost_argmin_along_axis_1", st,
                             z3.BoolVal(ev is not None and bool(ram) and ev[2][-1] is ram[-1][4] and ram[-1][3].get("axis") == 1))
    tag = ("cost" if with_cost else "nocost") + "." + ("fitted" if fitted else "fallback")
    return se_unit(f"classifiers.SklearnClassifier.predict.{tag}", FC, "SklearnClassifier.predict", "SklearnClassifier", setup, post,
                   lib_factory=model_lib)


# ------------------------------------------------------------------------------------------ regressors (C12 / C15)
def unit_skl_reg_fit(weights):
    def setup(E, st):
        n, d = z3.Int("n"), z3.Int("d")
        st.assume(n >= 0, d >= 1)
        X = st.alloc(ArrData((n, d), fresh_sel("X", "o", 2), "o"))
        y = st.alloc(ArrData((n,), fresh_sel("y", "o"), "o"))
        sw = st.alloc(ArrData((n,), fresh_sel("w", "f"), "f")) if weights else None
        est = st.alloc(ObjData("__estimator__", {"__open__": True}))
        ml = Opaque("missing_label")
        selfo = st.alloc(ObjData("SklearnRegressor", {"estimator": est, "missing_label": ml, "random_state": Opaque("random_state"), "__open__": True}))
        return {"args": [selfo, "fit", X, y, sw], "X": X, "y": y, "sw": sw, "self": selfo, "n": n, "ml": ml}

    def validate_contract(E, st, recv, args, kw, node):
        a = dict(zip(["X", "y", "sample_weight"], args))
        a.update(kw)
        od = st.get(recv)
        nf = dict(od.fields)
        nf["missing_label_"] = nf["missing_label"]
        st.put(recv, ObjData(od.cls, nf))
        return (a["X"], a["y"], a.get("sample_weight"))

    def lib():
        L = model_lib()
        L.contracts["SkactivemlRegressor._validate_data"] = validate_contract
        return L

    def post(E, ctx, outs):
        rets = returns(outs)
        if not rets:
            E.oblige("reaches.return", [], z3.BoolVal(False))
        n = ctx["n"]
        nfit = 0
        for o in rets:
            st = o.state
            od = st.get(ctx["self"])
            fits = [ev for ev in st.events if ev[0] == "call" and "attrgetter" in ev[1] or (ev[0] == "call" and ev[1].startswith("call:call:attrgetter"))]
            fits = [ev for ev in st.events if ev[0] == "call" and ev[2] and len(ev[2]) >= 2 and any(isinstance(a, Ref) for a in ev[2][:2])
                    and ("attrgetter" in ev[1])]
            dc = [ev for ev in st.events if ev[0] == "call" and ev[1] in ("deepcopy", "copy.deepcopy")]
            e_, e0 = od.fields.get("estimator_"), od.fields["estimator"]
            E.oblige("C13.estimator__is_a_fresh_copy_of_estimator", st,
                     z3.BoolVal(isinstance(e_, Ref) and e_.id != e0.id and isinstance(st.get(e_), ObjData) and st.get(e_).cls == "__estimator__"))
            y0 = st.get(ctx["y"])
            i = z3.Int("i")
            for ev in fits:
                nfit += 1
                pre = ev[5] if len(ev) > 5 else {}
                Xa = pre.get(ev[2][0].id) if isinstance(ev[2][0], Ref) else None
                ya = pre.get(ev[2][1].id) if isinstance(ev[2][1], Ref) else None
                E.oblige("C12.X_is_X[is_labeled]", st, z3.BoolVal(Xa is not None and hasattr(Xa, "filter_of")))
                E.oblige("C12.y_is_y[is_labeled]", st, z3.BoolVal(ya is not None and hasattr(ya, "filter_of")))
                for nm, d in (("X", Xa), ("y", ya)):
                    if d is not None and hasattr(d, "filter_of"):
                        mask = d.filter_of[0]
                        E.oblige(f"C12.{nm}_mask_is_is_labeled(y, missing_label_)", st,
                                 z3.ForAll([i], z3.Implies(z3.And(0 <= i, i < n), z3bool(mask.sel(i)) == z3.Not(MISSING(y0.sel(i).sym, ctx["ml"].sym)))))
                if weights:
                    sw = ev[3].get("sample_weight")
                    swa = pre.get(sw.id) if isinstance(sw, Ref) else None
                    E.oblige("C12.sample_weight_is_sample_weight[is_labeled]", st, z3.BoolVal(swa is not None and hasattr(swa, "filter_of")))
            stats = [ev for ev in st.events if ev[0] == "call" and ev[1] in ("np.mean", "np.std")]
            for ev in stats:
                pre = ev[5] if len(ev) > 5 else {}
                a0 = pre.get(ev[2][0].id) if ev[2] and isinstance(ev[2][0], Ref) else None
                E.oblige(f"C15.{ev[1]}_over_labeled_targets_only", st, z3.BoolVal(a0 is not None and hasattr(a0, "filter_of")))
        E.oblige("some_path_fits_the_estimator", [], z3.BoolVal(nfit > 0))
    return se_unit(f"regressors.SklearnRegressor._fit.{'weights' if weights else 'noweights'}", FR, "SklearnRegressor._fit", "SklearnRegressor",
                   setup, post, lib_factory=lib)


def unit_prob_predict(rs, re):
    def setup(E, st):
        X = Opaque("X")
        selfo = st.alloc(ObjData("ProbabilisticRegressor", {"__open__": True}))
        return {"args": [selfo, X], "kwargs": {"return_std": rs, "return_entropy": re}, "X": X}

    def post(E, ctx, outs):
        rets = returns(outs)
        if not rets:
            E.oblige("reaches.return", [], z3.BoolVal(False))
        for o in rets:
            st = o.state
            ptd = [ev for ev in st.events if ev[0] == "call" and ev[1].endswith("predict_target_distribution")]
            E.oblige("C15.distribution_of_X", st, z3.BoolVal(len(ptd) == 1 and ptd[0][2][-1] is ctx["X"]))
            want = ["mean"] + (["std"] if rs else []) + (["entropy"] if re else [])
            vals = list(o.value) if isinstance(o.value, tuple) else [o.value]
            E.oblige("C15.result_length", st, z3.BoolVal(len(vals) == len(want) and (isinstance(o.value, tuple) == (len(want) > 1))))
            for v, w in zip(vals, want):
                ev = producer(st, v)
                E.oblige(f"C15.component_is_rv.{w}()", st, z3.BoolVal(ev is not None and ev[1].endswith("." + w) and "predict_target_distribution" in ev[1]))
    return se_unit(f"regressors.ProbabilisticRegressor.predict.std={rs}.entropy={re}", FB, "ProbabilisticRegressor.predict",
                   "ProbabilisticRegressor", setup, post, lib_factory=model_lib)


def unit_sample_y():
    def setup(E, st):
        n = z3.Int("n")
        st.assume(n >= 1)
        X = st.alloc(ArrData((n, z3.Int("d")), fresh_sel("X", "o", 2), "o"))
        selfo = st.alloc(ObjData("ProbabilisticRegressor", {"__open__": True}))
        ns, rs = z3.Int("n_samples"), Opaque("random_state")
        return {"args": [selfo, X], "kwargs": {"n_samples": ns, "random_state": rs}, "ns": ns, "rs": rs, "n": n}

    def post(E, ctx, outs):
        rets = returns(outs)
        if not rets:
            E.oblige("reaches.return", [], z3.BoolVal(False))
        for o in rets:
            st = o.state
            rvs = [ev for ev in st.events if ev[0] == "call" and ev[1].endswith(".rvs")]
            E.oblige("C15.samples_drawn_by_rv.rvs", st, z3.BoolVal(len(rvs) == 1))
            if rvs:
                kw = rvs[0][3]
                size = kw.get("size")
                E.oblige("C15.size_is_(n_samples,len(X))", st,
                         z3.BoolVal(isinstance(size, tuple) and len(size) == 2) if not (isinstance(size, tuple) and len(size) == 2)
                         else z3.And(to_int(size[0]) == ctx["ns"], to_int(size[1]) == ctx["n"]))
                E.oblige("C15.random_state_forwarded", st, z3.BoolVal(kw.get("random_state") is ctx["rs"]))
                ev = producer(st, o.value)
                E.oblige("C15.result_is_the_transpose_of_the_samples", st, z3.BoolVal(ev is not None and ev[1].endswith(".T") or
                                                                                     (isinstance(o.value, Opaque) and o.value.tag.endswith(".T"))))
    return se_unit("regressors.ProbabilisticRegressor.sample_y", FB, "ProbabilisticRegressor.sample_y", "ProbabilisticRegressor", setup, post,
                   lib_factory=model_lib)


UNITS = {}
for _ff in ("fit", "partial_fit"):
    for _w in (False, True):
        UNITS[f"C12.C11.SklearnClassifier._fit.{_ff}.{'w' if _w else 'nw'}"] = unit_skl_clf_fit(_ff, _w)
for _w in (False, True):
    UNITS[f"C12.C11.SklearnClassifier._fit.partial_fit.{'w' if _w else 'nw'}.fitted_before"] = unit_skl_clf_fit("partial_fit", _w, fitted_before=True)
UNITS["C11.SkactivemlClassifier.predict"] = unit_base_predict()
for _c in (False, True):
    for _f in (True, False):
        UNITS[f"C11.SklearnClassifier.predict.{'cost' if _c else 'nocost'}.{'fitted' if _f else 'fallback'}"] = unit_skl_predict(_c, _f)
REG_UNITS = {}
for _w in (False, True):
    REG_UNITS[f"C12.C15.SklearnRegressor._fit.{'w' if _w else 'nw'}"] = unit_skl_reg_fit(_w)
for _a in (False, True):
    for _b in (False, True):
        REG_UNITS[f"C15.ProbabilisticRegressor.predict.{_a}.{_b}"] = unit_prob_predict(_a, _b)
REG_UNITS["C15.ProbabilisticRegressor.sample_y"] = unit_sample_y()


# ------------------------------------------------------------------------------------------ conjugate update of the NIC regressors (C15)
FN = "skactiveml/regressor/_nic_kernel_regressor.py"


def unit_combine_params(prior):
    """_combine_params(prior, update), the normal-inverse-chi-squared conjugate update behind NICKernelRegressor / NadarayaWatsonRegressor, for one
    query point (the function is elementwise; numpy applies it to every query point):
      proper prior (kappa_0 > 0, nu_0 > 0, sigma_sq_0 > 0), any update with kappa, nu, sigma_sq >= 0:
          no division by zero, kappa_post > 0, nu_post > 0, sigma_sq_post > 0, mu_post lies between the prior mean and the update mean
          -> scale^2 = (1 + kappa_post) / kappa_post * sigma_sq_post is a positive finite number (the predictive distribution is proper)
      NadarayaWatson prior (kappa_0 = 0, nu_0 = 3, sigma_sq_0 = 1) and an update with kernel mass N > 0 (some labeled sample in reach):
          kappa_post = N > 0, nu_post = 3 + N > 2 (finite standard deviation), sigma_sq_post > 0, mu_post = the kernel-weighted mean
      without labels the update is the neutral element (all zeros): the posterior equals a proper prior"""
    def setup(E, st):
        k1, n1, m1, s1 = (mk_fv(z3.BoolVal(False), z3.Real(x)) for x in ("kappa_1", "nu_1", "mu_1", "sigma_sq_1"))
        k2, n2, m2, s2 = (mk_fv(z3.BoolVal(False), z3.Real(x)) for x in ("kappa_2", "nu_2", "mu_2", "sigma_sq_2"))
        r = lambda v: to_real(v)[1]
        if prior == "proper":
            st.assume(r(k1) > 0, r(n1) > 0, r(s1) > 0, r(k2) >= 0, r(n2) >= 0, r(s2) >= 0)
        elif prior == "nadaraya_watson":
            st.assume(r(k1) == 0, r(n1) == 3, r(s1) == 1, r(k2) > 0, r(n2) == r(k2), r(s2) >= 0)      # update = (N, N, mu_ml, var_ml) with N > 0
        else:   # neutral update (no labeled sample): (0, 0, 0, 0)
            st.assume(r(k1) > 0, r(n1) > 0, r(s1) > 0, r(k2) == 0, r(n2) == 0, r(m2) == 0, r(s2) == 0)
        def conc(ev):
            from pyvc import cex
            vals = {nm: cex.rval(ev, x) for nm, x in (("kappa_1", k1), ("nu_1", n1), ("mu_1", m1), ("sigma_sq_1", s1),
                                                       ("kappa_2", k2), ("nu_2", n2), ("mu_2", m2), ("sigma_sq_2", s2))}
            return {"family": "combine_params", "sig": "counter-model", "prior": prior, "values": vals}
        E.default_concretize = conc
        return {"args": [(k1, n1, m1, s1), (k2, n2, m2, s2)], "v": dict(k1=r(k1), n1=r(n1), m1=r(m1), s1=r(s1), k2=r(k2), n2=r(n2), m2=r(m2), s2=r(s2))}

    def post(E, ctx, outs):
        rets = returns(outs)
        if not rets:
            E.oblige("reaches.return", [], z3.BoolVal(False))
        v = ctx["v"]
        for o in rets:
            st = o.state
            if not (isinstance(o.value, tuple) and len(o.value) == 4):
                E.oblige("returns.four_parameters", st, False)
                continue
            (kn, kv), (nn, nv), (mn, mv), (sn, sv) = (to_real(x) for x in o.value)
            E.oblige("C15.posterior_parameters_are_numbers", st, z3.Not(z3.Or(kn, nn, mn, sn)))
            E.oblige("C15.kappa_post_is_the_sum_and_positive", st, z3.And(kv == v["k1"] + v["k2"], kv > 0))
            E.oblige("C15.nu_post_is_the_sum_and_positive", st, z3.And(nv == v["n1"] + v["n2"], nv > 0))
            E.oblige("C15.sigma_sq_post_is_positive" if prior != "nadaraya_watson" else "C15.sigma_sq_post_is_positive_and_df_exceeds_two", st,
                     z3.And(sv > 0, nv > 2) if prior == "nadaraya_watson" else sv > 0)
            lo = z3.If(v["m1"] <= v["m2"], v["m1"], v["m2"])
            hi = z3.If(v["m1"] <= v["m2"], v["m2"], v["m1"])
            if prior == "neutral":
                E.oblige("C15.without_labels_the_posterior_is_the_prior", st, z3.And(kv == v["k1"], nv == v["n1"], mv == v["m1"], sv == v["s1"]))
            elif prior == "nadaraya_watson":
                E.oblige("C15.mu_post_is_the_kernel_weighted_mean", st, mv == v["m2"])
            else:
                E.oblige("C15.mu_post_lies_between_prior_and_update_mean", st, z3.And(lo <= mv, mv <= hi))
            E.oblige("C15.predictive_scale_squared_is_positive", st, (1 + kv) / kv * sv > 0)
    return se_unit(f"regressors._combine_params.{prior}", FN, "_combine_params", None, setup, post, lib_factory=model_lib)


for _p in ("proper", "nadaraya_watson", "neutral"):
    REG_UNITS[f"C15._combine_params.{_p}"] = unit_combine_params(_p)
