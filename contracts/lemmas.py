"""Lemmas about the spec function CNT (number of true entries of a boolean array prefix), proved by induction.

CNT is used as an *uninterpreted* function in the verification conditions; only instances of the lemmas below are added
as hypotheses (pyvc/lib.py: cnt_lemma_instances, cnt_point_update). Here each lemma is proved for the recursive definition
    cnt(A, n) = 0 if n <= 0 else cnt(A, n-1) + [A[n-1]]
by induction on n: one base and one step obligation per lemma (the step assumes the lemma for n-1).
"""
import z3

from pyvc.solve import solve_one

IS, BS = z3.IntSort(), z3.BoolSort()


def unit_cnt(tier):
    A = z3.Array("A", IS, BS)
    n, i, j = z3.Ints("n i j")
    cnt = z3.RecFunction("cnt", z3.ArraySort(IS, BS), IS, IS)
    z3.RecAddDefinition(cnt, [A, n], z3.If(n <= 0, 0, cnt(A, n - 1) + z3.If(A[n - 1], 1, 0)))
    lemmas = {
        "bounds": lambda A, n: z3.And(cnt(A, n) >= 0, z3.Implies(n >= 0, cnt(A, n) <= n)),
        "frame": lambda A, n: z3.Implies(i >= n, cnt(z3.Store(A, i, False), n) == cnt(A, n)),
        "point_update": lambda A, n: z3.Implies(z3.And(0 <= i, i < n, A[i]), cnt(z3.Store(A, i, False), n) == cnt(A, n) - 1),
        "positive_has_witness": lambda A, n: z3.Implies(cnt(A, n) > 0, z3.Exists([j], z3.And(0 <= j, j < n, A[j]))),
        "witness_gives_positive": lambda A, n: z3.Implies(z3.Exists([j], z3.And(0 <= j, j < n, A[j])), cnt(A, n) > 0),
        "all_true_gives_n": lambda A, n: z3.Implies(z3.And(n >= 0, z3.ForAll([j], z3.Implies(z3.And(0 <= j, j < n), A[j]))), cnt(A, n) == n),
        "n_gives_all_true": lambda A, n: z3.Implies(z3.And(n >= 0, cnt(A, n) == n), z3.ForAll([j], z3.Implies(z3.And(0 <= j, j < n), A[j]))),
    }
    obs = []
    for name, L in lemmas.items():
        hyp_extra = []
        if name == "point_update":
            hyp_extra = [lemmas["frame"](A, n - 1)]
        if name in ("n_gives_all_true", "witness_gives_positive"):
            hyp_extra = [lemmas["bounds"](A, n - 1)]
        for part, pc in (("base", [n <= 0]), ("step", [n > 0, L(A, n - 1)] + hyp_extra)):
            r = solve_one({"name": f"cnt.{name}.{part}", "pc": pc, "goal": L(A, n), "meta": {}}, timeout_ms=20000)
            r["goal_text"] = str(L(A, n))[:200]
            obs.append(r)
    return {"unit": "lemmas.cnt", "target": "spec function CNT (pyvc/lib.py)", "kind": "lemma", "obligations": obs, "abstracted": [],
            "dropped": [], "lib": [], "paths": len(obs)}


UNITS = {"cnt": unit_cnt}
