"""Lemmas about the spec function CNT (number of true entries of a boolean array prefix), proved by induction.

CNT is used as an *uninterpreted* function in the verification conditions; only instances of the lemmas below are added
as hypotheses (pyvc/lib.py: cnt_lemma_instances, cnt_point_update). Here each lemma is proved for the recursive definition
    cnt(A, n) = 0 if n <= 0 else cnt(A, n-1) + [A[n-1]]
by induction on n: one base and one step obligation per lemma (the step assumes the lemma for n-1).
"""
import z3

from pyvc.solve import solve_one

IS, BS = z3.IntSort(), z3.BoolSort()


def unit_cnt(tier):
    A = z3.Array("A", IS, BS)
    n, i, j = z3.Ints("n i j")
    cnt = z3.RecFunction("cnt", z3.ArraySort(IS, BS), IS, IS)
    z3.RecAddDefinition(cnt, [A, n], z3.If(n <= 0, 0, cnt(A, n - 1) + z3.If(A[n - 1], 1, 0)))
    lemmas = {
        "bounds": lambda A, n: z3.And(cnt(A, n) >= 0, z3.Implies(n >= 0, cnt(A, n) <= n)),
        "frame": lambda A, n: z3.Implies(i >= n, cnt(z3.Store(A, i, False), n) == cnt(A, n)),
        "point_update": lambda A, n: z3.Implies(z3.And(0 <= i, i < n, A[i]), cnt(z3.Store(A, i, False), n) == cnt(A, n) - 1),
        "positive_has_witness": lambda A, n: z3.Implies(cnt(A, n) > 0, z3.Exists([j], z3.And(0 <= j, j < n, A[j]))),
        "witness_gives_positive": lambda A, n: z3.Implies(z3.Exists([j], z3.And(0 <= j, j < n, A[j])), cnt(A, n) > 0),
        "all_true_gives_n": lambda A, n: z3.Implies(z3.And(n >= 0, z3.ForAll([j], z3.Implies(z3.And(0 <= j, j < n), A[j]))), cnt(A, n) == n),
        "n_gives_all_true": lambda A, n: z3.Implies(z3.And(n >= 0, cnt(A, n) == n), z3.ForAll([j], z3.Implies(z3.And(0 <= j, j < n), A[j]))),
    }
    obs = []
    for name, L in lemmas.items():
        hyp_extra = []
        if name == "point_update":
            hyp_extra = [lemmas["frame"](A, n - 1)]
        if name in ("n_gives_all_true", "witness_gives_positive"):
            hyp_extra = [lemmas["bounds"](A, n - 1)]
        for part, pc in (("base", [n <= 0]), ("step", [n > 0, L(A, n - 1)] + hyp_extra)):
            r = solve_one({"name": f"cnt.{name}.{part}", "pc": pc, "goal": L(A, n), "meta": {}}, timeout_ms=20000)
            r["goal_text"] = str(L(A, n))[:200]
            obs.append(r)
    return {"unit": "lemmas.cnt", "target": "spec function CNT (pyvc/lib.py)", "kind": "lemma", "obligations": obs, "abstracted": [],
            "dropped": [], "lib": [], "paths": len(obs)}


def unit_searchsorted(tier):
    """searchsorted_hit (instances are added by the np.searchsorted contract in pyvc/lib.py for a strictly increasing S):
    from  0 <= r <= n,  r > 0 => S[r-1] < v,  r < n => v <= S[r]  and strict monotonicity of S:  S[p] == v (0 <= p < n)  =>  r == p"""
    S = z3.Function("S", IS, IS)
    n, r, v, p, t, u = z3.Ints("n r v p t u")
    mono = z3.ForAll([t, u], z3.Implies(z3.And(0 <= t, t < u, u < n), S(t) < S(u)))
    clause = z3.And(0 <= r, r <= n, z3.Implies(r > 0, S(r - 1) < v), z3.Implies(r < n, v <= S(r)))
    hit = [0 <= p, p < n, S(p) == v]
    obs = []
    for name, extra, goal in (("not_left_of_the_hit", [], r <= p), ("not_right_of_the_hit", [], r >= p)):
        # split r < p / r > p so that the needed monotonicity instance is obvious to the solver
        pc = [mono, clause] + hit
        res = solve_one({"name": f"searchsorted_hit.{name}", "pc": pc, "goal": goal, "meta": {}}, timeout_ms=20000)
        res["goal_text"] = str(goal)
        obs.append(res)
    return {"unit": "lemmas.searchsorted", "target": "np.searchsorted contract (pyvc/lib.py)", "kind": "lemma", "obligations": obs, "abstracted": [],
            "dropped": [], "lib": [], "paths": len(obs)}


UNITS = {"cnt": unit_cnt, "searchsorted": unit_searchsorted}
