"""Lemmas about the spec function CNT (number of true entries of a boolean array prefix), proved by induction.

CNT is used as an *uninterpreted* function in the verification conditions; only instances of the lemmas below are added
as hypotheses (pyvc/lib.py: cnt_lemma_instances, cnt_point_update). Here each lemma is proved for the recursive definition
    cnt(A, n) = 0 if n <= 0 else cnt(A, n-1) + [A[n-1]]
by induction on n: one base and one step obligation per lemma (the step assumes the lemma for n-1).
"""
import z3

from pyvc.solve import solve_one

IS, BS = z3.IntSort(), z3.BoolSort()


def unit_cnt(tier):
    A = z3.Array("A", IS, BS)
    n, i, j = z3.Ints("n i j")
    cnt = z3.RecFunction("cnt", z3.ArraySort(IS, BS), IS, IS)
    z3.RecAddDefinition(cnt, [A, n], z3.If(n <= 0, 0, cnt(A, n - 1) + z3.If(A[n - 1], 1, 0)))
    lemmas = {
        "bounds": lambda A, n: z3.And(cnt(A, n) >= 0, z3.Implies(n >= 0, cnt(A, n) <= n)),
        "frame": lambda A, n: z3.Implies(i >= n, cnt(z3.Store(A, i, False), n) == cnt(A, n)),
        "point_update": lambda A, n: z3.Implies(z3.And(0 <= i, i < n, A[i]), cnt(z3.Store(A, i, False), n) == cnt(A, n) - 1),
        "positive_has_witness": lambda A, n: z3.Implies(cnt(A, n) > 0, z3.Exists([j], z3.And(0 <= j, j < n, A[j]))),
        "witness_gives_positive": lambda A, n: z3.Implies(z3.Exists([j], z3.And(0 <= j, j < n, A[j])), cnt(A, n) > 0),
        "all_true_gives_n": lambda A, n: z3.Implies(z3.And(n >= 0, z3.ForAll([j], z3.Implies(z3.And(0 <= j, j < n), A[j]))), cnt(A, n) == n),
        "n_gives_all_true": lambda A, n: z3.Implies(z3.And(n >= 0, cnt(A, n) == n), z3.ForAll([j], z3.Implies(z3.And(0 <= j, j < n), A[j]))),
    }
    obs = []
    for name, L in lemmas.items():
        hyp_extra = []
        if name == "point_update":
            hyp_extra = [lemmas["frame"](A, n - 1)]
        if name in ("n_gives_all_true", "witness_gives_positive"):
            hyp_extra = [lemmas["bounds"](A, n - 1)]
        for part, pc in (("base", [n <= 0]), ("step", [n > 0, L(A, n - 1)] + hyp_extra)):
            r = solve_one({"name": f"cnt.{name}.{part}", "pc": pc, "goal": L(A, n), "meta": {}}, timeout_ms=20000)
            r["goal_text"] = str(L(A, n))[:200]
            obs.append(r)
    return {"unit": "lemmas.cnt", "target": "spec function CNT (pyvc/lib.py)", "kind": "lemma", "obligations": obs, "abstracted": [],
            "dropped": [], "lib": [], "paths": len(obs)}


def unit_searchsorted(tier):
    """searchsorted_hit (instances are added by the np.searchsorted contract in pyvc/lib.py for a strictly increasing S):
    from  0 <= r <= n,  r > 0 => S[r-1] < v,  r < n => v <= S[r]  and strict monotonicity of S:  S[p] == v (0 <= p < n)  =>  r == p"""
    S = z3.Function("S", IS, IS)
    n, r, v, p, t, u = z3.Ints("n r v p t u")
    mono = z3.ForAll([t, u], z3.Implies(z3.And(0 <= t, t < u, u < n), S(t) < S(u)))
    clause = z3.And(0 <= r, r <= n, z3.Implies(r > 0, S(r - 1) < v), z3.Implies(r < n, v <= S(r)))
    hit = [0 <= p, p < n, S(p) == v]
    obs = []
    for name, extra, goal in (("not_left_of_the_hit", [], r <= p), ("not_right_of_the_hit", [], r >= p)):
        # split r < p / r > p so that the needed monotonicity instance is obvious to the solver
        pc = [mono, clause] + hit
        res = solve_one({"name": f"searchsorted_hit.{name}", "pc": pc, "goal": goal, "meta": {}}, timeout_ms=20000)
        res["goal_text"] = str(goal)
        obs.append(res)
    return {"unit": "lemmas.searchsorted", "target": "np.searchsorted contract (pyvc/lib.py)", "kind": "lemma", "obligations": obs, "abstracted": [],
            "dropped": [], "lib": [], "paths": len(obs)}


def unit_complement(tier):
    """complement_count (instances are added by the boolean-filter contract in pyvc/lib.py when the mask is 'everything except k scattered
    positions'): a mask over range(n) that is False exactly at k pairwise distinct in-range positions p(0..k-1) has n - k True entries.
    Mechanised with a ghost sequence M(0) = all of range(n), M(t+1) = Store(M(t), p(t), False):
      C1 (by induction on t)  M(t)[j]  <=>  0 <= j < n and p(u) != j for all u < t
      C2 (by induction on t)  cnt(M(t), n) = n - t          (step: cnt.point_update, with M(t)[p(t)] from C1 and distinctness)
      C3 (by induction on n)  masks that agree on range(n) have the same cnt
      compose                 X agrees with M(k) on range(n) (C1)  =>  cnt(X, n) = cnt(M(k), n) = n - k"""
    A, Bm = z3.Array("A", IS, BS), z3.Array("B", IS, BS)
    n, k, t, u, j = z3.Ints("n k t u j")
    cnt = z3.RecFunction("cnt", z3.ArraySort(IS, BS), IS, IS)
    z3.RecAddDefinition(cnt, [A, n], z3.If(n <= 0, 0, cnt(A, n - 1) + z3.If(A[n - 1], 1, 0)))
    p = z3.Function("p", IS, IS)
    M = z3.Function("M", IS, z3.ArraySort(IS, BS))
    inr = lambda x: z3.And(0 <= x, x < n)
    H0 = z3.ForAll([j], M(0)[j] == inr(j))
    Hs = z3.ForAll([t], z3.Implies(z3.And(0 <= t, t < k), M(t + 1) == z3.Store(M(t), p(t), False)))
    Hd = z3.And(z3.ForAll([t, u], z3.Implies(z3.And(0 <= t, t < u, u < k), p(t) != p(u))),
                z3.ForAll([t], z3.Implies(z3.And(0 <= t, t < k), inr(p(t)))))
    T = z3.Int("T")
    notpicked = lambda tt, jj: z3.ForAll([u], z3.Implies(z3.And(0 <= u, u < tt), p(u) != jj))
    C1 = lambda tt: z3.ForAll([j], M(tt)[j] == z3.And(inr(j), notpicked(tt, j)))
    C2 = lambda tt: cnt(M(tt), n) == n - tt
    point_update = lambda Arr, i: z3.Implies(z3.And(0 <= i, i < n, Arr[i]), cnt(z3.Store(Arr, i, False), n) == cnt(Arr, n) - 1)       # lemmas.cnt
    all_true = lambda Arr: z3.Implies(z3.And(n >= 0, z3.ForAll([j], z3.Implies(inr(j), Arr[j]))), cnt(Arr, n) == n)                     # lemmas.cnt
    agree = lambda m: z3.ForAll([j], z3.Implies(z3.And(0 <= j, j < m), A[j] == Bm[j]))
    X = z3.Array("X", IS, BS)
    obs = []
    for name, pc, goal in (
            ("C1.base", [H0], C1(z3.IntVal(0))),
            ("C1.step", [n >= 0, k >= 0, Hs, 0 <= T, T < k, C1(T)], C1(T + 1)),
            ("C2.base", [n >= 0, H0, all_true(M(0))], C2(z3.IntVal(0))),
            ("C2.step", [n >= 0, k >= 0, Hs, Hd, 0 <= T, T < k, C1(T), C2(T), point_update(M(T), p(T))], C2(T + 1)),
            ("C3.base", [n <= 0, agree(n)], cnt(A, n) == cnt(Bm, n)),
            ("C3.step", [n > 0, agree(n), z3.Implies(agree(n - 1), cnt(A, n - 1) == cnt(Bm, n - 1))], cnt(A, n) == cnt(Bm, n)),
            ("compose", [n >= 0, k >= 0, C1(k), C2(k), z3.ForAll([j], z3.Implies(inr(j), X[j] == notpicked(k, j))),
                         z3.Implies(z3.ForAll([j], z3.Implies(inr(j), X[j] == M(k)[j])), cnt(X, n) == cnt(M(k), n))], cnt(X, n) == n - k)):
        r = solve_one({"name": "complement_count." + name, "pc": pc, "goal": goal, "meta": {}}, timeout_ms=20000)
        r["goal_text"] = str(goal)[:200]
        obs.append(r)
    return {"unit": "lemmas.complement_count", "target": "boolean-filter contract (pyvc/lib.py): count of the complement of k distinct positions", "kind": "lemma",
            "obligations": obs, "abstracted": [], "dropped": [], "lib": [], "paths": len(obs)}


def unit_scatter(tier):
    """scatter_count (the 'scatter-of-ones lemma' used by the np.sum / count contracts): a mask over range(n) that is True exactly at k pairwise
    distinct in-range positions has k True entries. Same scheme as complement_count with N(0) = nothing, N(t+1) = Store(N(t), p(t), True);
    the step needs cnt.point_set (setting a False entry raises the count by one), proved here by induction on n like cnt.point_update."""
    A, Bm = z3.Array("A", IS, BS), z3.Array("B", IS, BS)
    n, k, t, u, j, i = z3.Ints("n k t u j i")
    cnt = z3.RecFunction("cnt", z3.ArraySort(IS, BS), IS, IS)
    z3.RecAddDefinition(cnt, [A, n], z3.If(n <= 0, 0, cnt(A, n - 1) + z3.If(A[n - 1], 1, 0)))
    p = z3.Function("p", IS, IS)
    Nn = z3.Function("N", IS, z3.ArraySort(IS, BS))
    inr = lambda x: z3.And(0 <= x, x < n)
    frame_set = lambda Arr, m: z3.Implies(i >= m, cnt(z3.Store(Arr, i, True), m) == cnt(Arr, m))
    point_set = lambda Arr, m: z3.Implies(z3.And(0 <= i, i < m, z3.Not(Arr[i])), cnt(z3.Store(Arr, i, True), m) == cnt(Arr, m) + 1)
    H0 = z3.ForAll([j], z3.Not(Nn(0)[j]))
    Hs = z3.ForAll([t], z3.Implies(z3.And(0 <= t, t < k), Nn(t + 1) == z3.Store(Nn(t), p(t), True)))
    Hd = z3.And(z3.ForAll([t, u], z3.Implies(z3.And(0 <= t, t < u, u < k), p(t) != p(u))),
                z3.ForAll([t], z3.Implies(z3.And(0 <= t, t < k), inr(p(t)))))
    T = z3.Int("T")
    picked = lambda tt, jj: z3.Exists([u], z3.And(0 <= u, u < tt, p(u) == jj))
    C1 = lambda tt: z3.ForAll([j], Nn(tt)[j] == picked(tt, j))
    C2 = lambda tt: cnt(Nn(tt), n) == tt
    none_true = lambda Arr: z3.Implies(z3.ForAll([j], z3.Implies(inr(j), z3.Not(Arr[j]))), cnt(Arr, n) == 0)
    agree = lambda m: z3.ForAll([j], z3.Implies(z3.And(0 <= j, j < m), A[j] == Bm[j]))
    X = z3.Array("X", IS, BS)
    ps_inst = z3.Implies(z3.And(inr(p(T)), z3.Not(Nn(T)[p(T)])), cnt(z3.Store(Nn(T), p(T), True), n) == cnt(Nn(T), n) + 1)
    obs = []
    for name, pc, goal in (
            ("frame_set.base", [n <= 0], frame_set(A, n)),
            ("frame_set.step", [n > 0, frame_set(A, n - 1)], frame_set(A, n)),
            ("point_set.base", [n <= 0], point_set(A, n)),
            ("point_set.step", [n > 0, point_set(A, n - 1), frame_set(A, n - 1)], point_set(A, n)),
            ("none_true.base", [n <= 0], none_true(A)),
            ("none_true.step", [n > 0, z3.Implies(z3.ForAll([j], z3.Implies(z3.And(0 <= j, j < n - 1), z3.Not(A[j]))), cnt(A, n - 1) == 0)], none_true(A)),
            ("C1.base", [H0], C1(z3.IntVal(0))),
            ("C1.step", [n >= 0, k >= 0, Hs, 0 <= T, T < k, C1(T)], C1(T + 1)),
            ("C2.base", [n >= 0, H0, none_true(Nn(0))], C2(z3.IntVal(0))),
            ("C2.step", [n >= 0, k >= 0, Hs, Hd, 0 <= T, T < k, C1(T), C2(T), ps_inst], C2(T + 1)),
            ("compose", [n >= 0, k >= 0, C1(k), C2(k), z3.ForAll([j], z3.Implies(inr(j), X[j] == picked(k, j))),
                         z3.Implies(z3.ForAll([j], z3.Implies(inr(j), X[j] == Nn(k)[j])), cnt(X, n) == cnt(Nn(k), n))], cnt(X, n) == k)):
        r = solve_one({"name": "scatter_count." + name, "pc": pc, "goal": goal, "meta": {}}, timeout_ms=20000)
        r["goal_text"] = str(goal)[:200]
        obs.append(r)
    return {"unit": "lemmas.scatter_count", "target": "np.sum / count contracts (pyvc/lib.py): k distinct positions set in an all-False mask give count k", "kind": "lemma",
            "obligations": obs, "abstracted": [], "dropped": [], "lib": [], "paths": len(obs)}


UNITS = {"cnt": unit_cnt, "searchsorted": unit_searchsorted, "complement_count": unit_complement, "scatter_count": unit_scatter}
