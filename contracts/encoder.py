"""Assumed contract of skactiveml.utils.ExtLabelEncoder used when verifying its callers (C11, C12, C17).
(The encoder itself is checked by the bounded-exhaustive enumeration of C16: numpy dtype promotion is not expressible in SMT.)

  le = ExtLabelEncoder(classes, missing_label)      K = len(le.classes_) >= 0
  le.fit_transform(y) / le.transform(y)             same shape, integer codes with -1 <= code < K; code = -1 exactly for the sentinel
  le.inverse_transform(c)                            same shape; the class of rank c, the sentinel for -1
"""
import z3

from pyvc.se import ArrData, ListData, ObjData, Opaque, Ref, fresh, fresh_fn, fresh_sel, to_int, I, B, USort, Unsupported
from pyvc.lib import as_array

MISSING = z3.Function("MISSING", USort, USort, B)


def install_encoder(L):
    def ctor(E, st, args, kw, node):
        E.abstracted.add("contract:ExtLabelEncoder")
        K = fresh("n_classes", I)
        st.assume(K >= 0)
        code = fresh_fn("code", USort, I)
        decode = fresh_fn("decode", I, USort)
        u = z3.Const("eu", USort)
        ml = kw.get("missing_label", args[1] if len(args) > 1 else Opaque("nan"))
        mls = ml.sym if isinstance(ml, Opaque) else z3.Const("const_sentinel_" + str(ml), USort)
        st.assume(z3.ForAll([u], z3.And(code(u) >= -1, code(u) < K, (code(u) == -1) == MISSING(u, mls))))
        obj = ObjData("ExtLabelEncoder", {"classes": kw.get("classes", args[0] if args else None), "missing_label": ml,
                                           "classes_": st.alloc(ListData(K, fresh_sel("class", "o"), "o")), "_dtype": Opaque("dtype")})
        obj.fields.update({"__code__": code, "__decode__": decode, "__K__": K})
        return st.alloc(obj)

    def enc(E, st, recv, args, kw, node):
        od = st.get(recv)
        y = args[0] if args else kw.get("y")
        a = as_array(y, st) if isinstance(y, Ref) else None
        if a is None:
            r = Opaque("encoded")
            st.events.append(("call", "ExtLabelEncoder.transform", [y], {}, r))
            return r
        if a.kind != "o":
            raise Unsupported("encoder contract: labels must be opaque values")
        res = ArrData(a.shape, lambda *i, a=a, od=od: od.fields["__code__"](a.sel(*i).sym), "i")
        res.encoded_from = a
        return st.alloc(res)

    def fit(E, st, recv, args, kw, node):
        return recv

    def inv(E, st, recv, args, kw, node):
        od = st.get(recv)
        y = args[0] if args else kw.get("y")
        a = as_array(y, st) if isinstance(y, Ref) else None
        if a is None or a.kind != "i":
            r = Opaque("decoded")
            st.events.append(("call", "ExtLabelEncoder.inverse_transform", [y], {}, r))
            return r
        res = ArrData(a.shape, lambda *i, a=a, od=od: Opaque("label", od.fields["__decode__"](to_int(a.sel(*i)))), "o")
        res.decoded_from = a
        return st.alloc(res)
    L.functions["ExtLabelEncoder"] = ctor
    L.contracts["ExtLabelEncoder.fit_transform"] = enc
    L.contracts["ExtLabelEncoder.transform"] = enc
    L.contracts["ExtLabelEncoder.fit"] = fit
    L.contracts["ExtLabelEncoder.inverse_transform"] = inv
    return L
