"""C04 — budget managers never spend more labels than the budget allows."""
from .common import *

TRUSTED = [
    "pyvc symbolic executor + z3 4.x/5.x (nlsat for the nonlinear real obligations, via a sound real relaxation when the mixed query is unstable)",
    "library contracts: np.zeros/np.array/np.where, scatter store a[idx]=1, list.append, check_scalar, RandomState stream model",
    "ghost counters G (labels granted) / N (instances processed) are specification-only",
    "granted_ok precondition of update (a granted instance had budget left) is discharged for query's own results by the C10 step-equivalence obligations",
]


def run(tier, seed, write_baseline=False, only=None):
    chk = Check("C04", tier, seed)
    groups = [units_of("contracts.stream_budget", only), units_of("contracts.stream_baselines", only)]
    run_all(chk, groups, tier)
    if write_baseline:
        globals()["write_baseline"](chk)
    chk.add_bounded(run_bounded("bounded/stream_budget.py", "C04", tier, seed))
    return chk.finish(checker_cmd=f"python3-vt check.py C04 --tier {tier}", trusted_base=TRUSTED,
                      assumptions=["BalancedIncrementalQuantileFilter has no bound in the property statement and is not covered",
                                   "the bound for strategies that call a manager per candidate without committing (density strategies) is a C10 matter"],
                      explanation="object invariant + loop invariants proved on the real query_by_utility/update/_validate_data bodies of 6 managers and 2 baselines; induction over rounds gives every prefix and every chunking")


def replay(path):
    return generic_replay(path)
