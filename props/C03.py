"""C03 — stream query is a pure simulation."""
from .common import *

TRUSTED = [
    "pyvc symbolic executor + z3; heap model with object identities (aliasing = same reference), RandomState = (stream, position, aux counter)",
    "L1 restore-pattern analysis (pyvc/frame.py) over the real AST for the strategies whose query runs numerical code",
    "library contracts: copy()/deepcopy() give a fresh object with equal contents; get_state/set_state restore position and aux counter",
]


def run(tier, seed, write_baseline=False, only=None):
    chk = Check("C03", tier, seed)
    groups = [units_of("contracts.stream_budget", only, pred=lambda n: "update" not in n),
              units_of("contracts.stream_baselines", only, pred=lambda n: "update" not in n),
              units_of("contracts.stream_strategies", only, pred=lambda n: "C03" in n or "delegation" in n)]
    run_all(chk, groups, tier)
    if write_baseline:
        globals()["write_baseline"](chk)
    chk.add_bounded(run_bounded("bounded/stream_budget.py", "C03", tier, seed))
    return chk.finish(checker_cmd=f"python3-vt check.py C03 --tier {tier}", trusted_base=TRUSTED,
                      assumptions=["the validation prologue may (re)create fitted attributes; the frame is stated relative to the state after validation, and validation is proved idempotent",
                                   "n_features_in_ is rewritten by every validation (update validates a dummy [[0]]); no behaviour reads it"],
                      explanation="frame postconditions (every field of self incl. RNG position unchanged at return) proved on the real query_by_utility/query bodies; restore patterns of the density strategies checked on the AST; histories compared at run time")


def replay(path):
    return generic_replay(path)
