"""C10 — stream update commits exactly what query simulated."""
from .common import *

TRUSTED = [
    "pyvc symbolic executor + z3 (real relaxation for nonlinear obligations)",
    "library contracts: np.zeros, scatter store a[idx]=1, np.sum over a 0/1 scatter = number of distinct in-range indices (lemma), "
    "np.where(mask)[0] = ascending positions of True, len(np.where(mask)[0]) = count by unfolding (lemma), RandomState stream model",
    "step equivalence: one iteration of the real query loop and one iteration of the real update loop are executed from the same symbolic "
    "state; chunking invariance then follows by induction over the stream (fold lemma), which is argued in DESIGN.md, not mechanised",
]


def run(tier, seed, write_baseline=False, only=None):
    chk = Check("C10", tier, seed)
    groups = [units_of("contracts.stream_budget", only, pred=lambda n: "_validate_data" not in n),
              units_of("contracts.stream_baselines", only, pred=lambda n: "_validate_data" not in n),
              units_of("contracts.stream_strategies", only, pred=lambda n: "C10" in n or "delegation" in n)]
    run_all(chk, groups, tier)
    if write_baseline:
        globals()["write_baseline"](chk)
    chk.add_bounded(run_bounded("bounded/stream_budget.py", "C10", tier, seed))
    return chk.finish(checker_cmd=f"python3-vt check.py C10 --tier {tier}", trusted_base=TRUSTED,
                      assumptions=["chunking invariance is claimed (and compared in the bounded stand-in) only for the classes the property names; "
                                   "managers that draw normal variates and the density strategies are checked for result shape and 'update accepts' only",
                                   "BalancedIncrementalQuantileFilter: np.quantile is uninterpreted; its window contents are compared in the bounded stand-in"],
                      explanation="result-shape postconditions, 'update never raises on a query result' and per-iteration equivalence of update and query_by_utility proved on the real bodies; chunking compared at run time")


def replay(path):
    return generic_replay(path)
