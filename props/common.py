"""shared plumbing of the per-property check modules"""
import json
import os
import subprocess
import sys

from pyvc.driver import Check, run_units, run_bounded, ROOT, VENV_PY, REPO


def units_of(modname, only=None, pred=None):
    import importlib
    m = importlib.import_module(modname)
    names = [n for n in m.UNITS if (only is None or only in n) and (pred is None or pred(n))]
    return modname, names


def run_all(chk, groups, tier):
    """groups: list of (module, [unit names]); all units of all modules share one process pool"""
    import multiprocessing as mp
    from pyvc.driver import _run_unit
    args = [(m, n, tier) for m, names in groups for n in names]
    if not args:
        return
    if os.environ.get("VERIF_SERIAL") or len(args) == 1:
        res = [_run_unit(x) for x in args]
    else:
        with mp.get_context("fork").Pool(min(16, len(args))) as pool:
            res = pool.map(_run_unit, args, chunksize=1)
    # second chance for obligations that came back `unknown` while all cores were busy: re-run (at most four) such units one after the other
    # with a three times larger budget; a verdict other than `unknown` replaces the first one, nothing else changes
    flaky = [i for i, r in enumerate(res) if not r.get("unsupported") and not r.get("crash")
             and 1 <= sum(o.get("status") == "unknown" for o in r.get("obligations", [])) <= 3]          # many unknowns: a changed function, not load
    if 1 <= len(flaky) <= 4 and not os.environ.get("VERIF_NO_RETRY"):
        os.environ["VERIF_LONG"] = "1"
        try:
            for i in flaky:
                for attempt in range(2):        # two serial attempts: z3 is sensitive to timing once a timeout has been hit
                    r2 = _run_unit(args[i])
                    n1 = sum(o.get("status") == "unknown" for o in res[i].get("obligations", []))
                    n2 = sum(o.get("status") == "unknown" for o in r2.get("obligations", [])) if not (r2.get("unsupported") or r2.get("crash")) else n1 + 1
                    if n2 < n1:
                        r2["retried_alone"] = True
                        res[i] = r2
                    if n2 == 0:
                        break
        finally:
            os.environ.pop("VERIF_LONG", None)
    chk.add_units(res)


def write_baseline(chk):
    p = os.path.join(ROOT, "baseline", "abstraction.json")
    base = json.load(open(p)) if os.path.exists(p) else {}
    for u in chk.unit_results:
        if "abstracted" in u:
            base[u["unit"]] = sorted(set(u["abstracted"]) | {"lib:" + x for x in u.get("lib", [])})
    json.dump(base, open(p, "w"), indent=1, sort_keys=True)
    pl = os.path.join(ROOT, "baseline", "loops.json")
    loops = json.load(open(pl)) if os.path.exists(pl) else {}
    for u in chk.unit_results:
        if u.get("loop_headers"):
            loops[u["unit"]] = u["loop_headers"]
    json.dump(loops, open(pl, "w"), indent=1, sort_keys=True)
    from pyvc.driver import tree_hashes
    json.dump(tree_hashes(), open(os.path.join(ROOT, "baseline", "tree.json"), "w"), indent=1, sort_keys=True)
    from pyvc.repo import Repo
    os.environ["VERIF_NO_ALPHA"] = "1"
    try:
        json.dump(Repo().alpha_table(), open(os.path.join(ROOT, "baseline", "locals.json"), "w"), indent=0, sort_keys=True)
    finally:
        os.environ.pop("VERIF_NO_ALPHA", None)


def generic_replay(path):
    """re-run a recorded failing input against the real code (bounded/replay.py) or show the failed obligation"""
    d = json.load(open(path))
    rp = d.get("replay")
    if not rp:
        print(json.dumps(d, indent=1)[:4000])
        print("no concrete input recorded for this obligation (no-failing-input-found); "
              "re-run the check to re-generate the obligation from the current tree")
        return 1
    env = dict(os.environ)
    env["PYTHONPATH"] = REPO + os.pathsep + ROOT
    p = subprocess.run([VENV_PY, os.path.join(ROOT, "bounded", "replay.py"), path], cwd=REPO, env=env)
    return p.returncode
