"""Which units and bounded stand-ins decide which property (the registry behind check.py)."""
from .common import Check, run_all, run_bounded, units_of, write_baseline as _wb, generic_replay

L2_BASE = "pyvc symbolic executor (pyvc/se.py) + z3 4.x/5.x; cvc5 / real-relaxation (QF_NRA, nlsat) for z3's unknowns"
L1_BASE = "pyvc/frame.py flow-sensitive alias/effect analysis of the real AST with bottom-up summaries (alias and copy tables are trusted)"


def has(*subs):
    return lambda n: any(s in n for s in subs)


def hasnot(*subs):
    return lambda n: not any(s in n for s in subs)


PROPS = {
    "C01": dict(
        units=[("contracts.selection", has("simple_batch", "rand_argmax")), ("contracts.lemmas", None),
               ("contracts.pool_base", None), ("contracts.pool_epilogue", has("C01", "epilogue")), ("contracts.pool_loops", has("C01")),
               ("contracts.pool_falcun", has("C01"), "thorough")],
        bounded=[("bounded/pool.py", "C01")],
        trusted=[L2_BASE, "library contracts of pyvc/lib.py used by the selection code (nanmax, argmax, choice, scatter/gather, np.sum as CNT)",
                 "[A-score] the score expression of a strategy yields len(X_cand) non-NaN numbers (checked at run time by the bounded stand-in)"],
        assumptions=["index candidates are non-negative (check_indices checks the upper bound only)",
                     "bounded stand-in: labeled samples are offered as index candidates to the strategies that score sample-wise and to the strategies with a "
                     "recorded finding about them (CoreSet, Quire, Badge, TypiClust, RegressionTreeBasedAL); the other strategies see unlabeled index candidates only",
                     "strategies with their own sequential selection loops are covered by the bounded stand-in only (listed in the evidence)"],
        explanation="simple_batch/rand_argmax proved for all arrays; the epilogue of every simple-epilogue strategy proved to hand simple_batch an "
                    "array that is NaN exactly off the candidates together with the clipped batch size; every exported strategy swept at run time"),
    "C02": dict(
        units=[("contracts.selection", has("simple_batch", "rand_argmax")), ("contracts.lemmas", None),
               ("contracts.pool_epilogue", has("C02", "epilogue")), ("contracts.pool_loops", has("C02")),
               ("contracts.pool_falcun", has("C02"), "thorough")],
        bounded=[("bounded/pool.py", "C02")],
        trusted=[L2_BASE, "[A-score] as in C01"],
        assumptions=["row structure is stated recursively: M(0) = non-NaN mask of the input, M(i+1) = M(i) minus pick i; row i is NaN exactly off M(i)"],
        explanation="utility-row postconditions of simple_batch proved (NaN pattern, values, chosen entry maximal / positive); "
                    "simple-epilogue strategies return these rows unchanged; all strategies swept at run time"),
    "C03": dict(
        units=[("contracts.stream_budget", hasnot("update")), ("contracts.stream_baselines", hasnot("update")),
               ("contracts.stream_strategies", has("C03", "delegation", "BalancedIncrementalQuantileFilter.query")),
               ("contracts.frames", has("R", "F1.stream"))],
        bounded=[("bounded/stream_budget.py", "C03")],
        trusted=[L2_BASE, L1_BASE, "copy()/deepcopy() give a fresh object with equal contents; get_state/set_state restore position and aux counter"],
        assumptions=["the frame is stated relative to the state after the validation prologue; validation is proved idempotent",
                     "n_features_in_ is rewritten by every validation (update validates a dummy [[0]]); no behaviour reads it"],
        explanation="frame postconditions (every field of self incl. the RNG position unchanged at return) proved on the real query_by_utility/query "
                    "bodies; restore patterns of all 13 distinct stream query bodies checked on the AST; histories compared at run time"),
    "C04": dict(
        units=[("contracts.stream_budget", None), ("contracts.stream_baselines", None)],
        bounded=[("bounded/stream_budget.py", "C04")],
        trusted=[L2_BASE, "ghost counters G (labels granted) / N (instances processed) are specification-only",
                 "granted_ok precondition of update is discharged for query's own results by the C10 step-equivalence obligations",
                 "lemma: np.sum over ones scattered into zeros at pairwise distinct in-range positions = their number; len(np.where(m)[0]) = count by unfolding"],
        assumptions=["BalancedIncrementalQuantileFilter has no bound in the statement and is not covered",
                     "strategies that call a manager per candidate without committing (density strategies) are a C10 matter"],
        explanation="object invariant + loop invariants proved on the real query_by_utility/update/_validate_data bodies of 6 managers and 2 baselines; "
                    "induction over rounds gives every prefix and every chunking"),
    "C05": dict(
        units=[("contracts.frames", has("F1.pool", "F2"))],
        bounded=[("bounded/pool.py", "C05"), ("bounded/wrappers.py", "C05")],
        trusted=[L1_BASE],
        assumptions=["third-party estimators do not modify the arrays they are given", "match_signature wrappers are transparent"],
        explanation="parameter frame (F1), argument frame (F2) and model frame (F2') proved for every method / query of every pool strategy class found in the package"),
    "C06": dict(
        units=[("contracts.frames", has("F3", "F1.pool", "F1.stream"))],
        bounded=[("bounded/pool.py", "C06"), ("bounded/stream_budget.py", "C06"), ("bounded/models.py", "C06"), ("bounded/wrappers.py", "C06")],
        trusted=[L1_BASE, "list of stochastic scikit-learn classes (contracts/frames.py STOCHASTIC_SKLEARN)"],
        assumptions=["no other source of nondeterminism (hash ordering, threads, BLAS reductions)",
                     "classifiers follow the scikit-learn convention random_state_ = check_random_state(random_state): with a RandomState instance "
                     "their tie-breaks advance the caller's generator; this is not counted as a violation"],
        explanation="RNG provenance: no global generator, random_state forwarded at every stochastic call site, default clustering seeded, "
                    "the caller's generator never drawn from by a query strategy; twin / repeat / global-seed runs at run time"),
    "C07": dict(
        units=[("contracts.multiannot", None)],
        bounded=[("bounded/wrappers.py", "C07")],
        trusted=[L2_BASE],
        assumptions=["wrapped strategies must accept arbitrary index sets in the modes that offer labeled samples as candidates"],
        explanation="base-class contracts of the multi-annotator validation (batch clipped to the candidate pairs, availability matrix aligned with the "
                    "sorted candidates) and transformation (boolean availability mask, true exactly at the available pairs); wrapper and IEThresh "
                    "swept over the five candidate x annotator modes, integer / array-valued requests and structured availability patterns with a "
                    "termination timer"),
    "C08": dict(
        units=[("contracts.pool_base", has("representation")), ("contracts.frames", has("F8"))],
        bounded=[("bounded/pool.py", "C08")],
        trusted=[L2_BASE],
        assumptions=["restriction / permutation invariance is claimed for the strategies classified sample-wise in DESIGN.md Appendix A"],
        explanation="base-class representation lemma (None vs unlabeled indices give equal validated tuples); paired queries at run time"),
    "C09": dict(
        units=[("contracts.frames", has("F4")), ("contracts.labels", None)],
        bounded=[("bounded/pool.py", "C09"), ("bounded/models.py", "C09")],
        trusted=[L1_BASE],
        assumptions=["two fits of a scikit-learn estimator on order-preservingly re-encoded labels agree (outside any contract here)"],
        explanation="every label-predicate call site passes the configured sentinel; encoder contracts; paired encodings at run time"),
    "C10": dict(
        units=[("contracts.stream_budget", hasnot("_validate_data")), ("contracts.stream_baselines", hasnot("_validate_data")),
               ("contracts.stream_strategies", has("C10", "delegation", "BalancedIncrementalQuantileFilter"))],
        bounded=[("bounded/stream_budget.py", "C10")],
        trusted=[L2_BASE, "step equivalence: one iteration of the real query loop and one iteration of the real update loop are executed from the same "
                          "symbolic state; chunking invariance then follows by induction over the stream (fold lemma, argued in DESIGN.md, not mechanised)"],
        assumptions=["chunking invariance is claimed only for the classes the property names",
                     "np.quantile is uninterpreted for BalancedIncrementalQuantileFilter"],
        explanation="result-shape postconditions, 'update never raises on a query result' and per-iteration equivalence of update and query_by_utility "
                    "proved on the real bodies; chunkings compared at run time"),
    "C11": dict(
        units=[("contracts.classifiers", has("C11")), ("contracts.probabilities", has("C11")), ("contracts.classifier_validate", None)],
        obligations_of={"contracts.classifier_validate": hasnot("C13.")},
        bounded=[("bounded/models.py", "C11")],
        trusted=[L2_BASE],
        assumptions=["kernel values / mixture responsibilities are non-negative", "AnnotatorLogisticRegression and the mixture model are numerical optimisers: bounded only"],
        explanation="normalisation and decision contracts of the classifier base classes; all classifiers swept over training-set patterns, class orders and cost matrices"),
    "C12": dict(
        units=[("contracts.classifiers", has("C12")), ("contracts.frames", has("F4", "F2m")), ("contracts.aggregation", has("compute_vote"))],
        bounded=[("bounded/models.py", "C12")],
        trusted=[L2_BASE],
        assumptions=["the wrapped estimator's fit is a function of its arguments (and permutation invariant)"],
        explanation="fit contracts: the wrapped estimator is fitted on the labeled rows only; paired fits with / without / moved unlabeled rows and weights"),
    "C13": dict(
        units=[("contracts.frames", has("F1.")), ("contracts.classifier_validate", None), ("contracts.sliding_window", None)],
        obligations_of={"contracts.classifier_validate": hasnot("C11.")},
        bounded=[("bounded/stream_budget.py", "C13"), ("bounded/models.py", "C13")],
        trusted=[L1_BASE],
        assumptions=["history-freedom of fit is compared at run time (refit vs fresh clone); only the parameter frame is proved"],
        explanation="parameter frame F1 (incl. deep aliases and caller-owned dicts) proved for every method of every estimator class"),
    "C14": dict(
        units=[("contracts.clients", None)],
        bounded=[("bounded/pool.py", "C14")],
        trusted=[L2_BASE],
        assumptions=["the client lemma transfers to a strategy exactly as far as its C01 contract is proved"],
        explanation="client lemma over the contract of query (C01 postcondition): exhaustion after ceil(u/b) rounds; full loops for all strategies at run time"),
    "C15": dict(
        units=[("contracts.regressors", None)],
        bounded=[("bounded/models.py", "C15")],
        trusted=[L2_BASE],
        assumptions=["real arithmetic: kernel weights cannot underflow"],
        explanation="predict / sample_y contracts of ProbabilisticRegressor and the conjugate update; all regressors swept over training sets, priors and query points"),
    "C16": dict(
        units=[("contracts.labels", None), ("contracts.label_encoder", None)],
        bounded=[("bounded/labels.py", "C16")],
        trusted=[L2_BASE],
        assumptions=["numpy dtype promotion / casting is enumerated, not proved"],
        explanation="predicate contracts, ExtLabelEncoder.transform / inverse_transform against the LabelEncoder contract and their round-trip lemma; "
                    "exhaustive finite enumeration dtype x sentinel x shape x pattern x container"),
    "C17": dict(
        units=[("contracts.aggregation", None), ("contracts.selection", has("rand_argmax.axis1"))],
        bounded=[("bounded/labels.py", "C17")],
        trusted=[L2_BASE],
        assumptions=["np.bincount and sklearn confusion_matrix count what they say"],
        explanation="random label matrices against a triple-loop counting oracle, all encodings and normalisations"),
    "C18": dict(
        units=[("contracts.selection", None), ("contracts.lemmas", None)],
        bounded=[("bounded/selection.py", "C18")],
        trusted=[L2_BASE, "library contracts: nanmax/nanmin (attained, bound), argmax (first extremal position), choice(replace=False) "
                          "(distinct positions of positive probability), nansum of a non-negative array"],
        assumptions=["uniform draws lie in the OPEN interval (0,1): with a draw of exactly 0.0 at every maximal position rand_argmax can return a "
                     "non-maximal index (probability 2^-53 per entry)",
                     "that some seed realises a given order of draws (tie fairness) is an assumption about the generator",
                     "proportional mode: domain restricted to non-negative utilities", "+-inf are not modelled (real arithmetic)"],
        explanation="rand_argmax/rand_argmin proved from their bodies (1-D and axis=1); simple_batch proved against the contract of rand_argmax with "
                    "loop invariants and counting lemmas; reachability of every tied optimum; arrays of any dimensionality swept at run time"),
    "C19": dict(
        units=[("contracts.index_wrapper", None)],
        bounded=[("bounded/wrappers.py", "C19")],
        trusted=[L2_BASE],
        assumptions=["native partial_fit of scikit-learn estimators is trusted"],
        explanation="view / base-view / kernel-cache contracts of IndexClassifierWrapper proved for every flag combination (fit, partial_fit against the contract "
                    "of fit, native partial_fit, precompute, predict*); random operation sequences compared with an independently retrained copy; "
                    "counter-models of the view obligations are replayed on a concrete wrapper with a recording stub classifier"),
    "C20": dict(
        units=[("contracts.pool_wrappers", None)],
        bounded=[("bounded/wrappers.py", "C20")],
        trusted=[L2_BASE],
        assumptions=["the parallel wrapper requires an inner strategy that scores candidate rows independently and deterministically"],
        explanation="index algebra of SubSamplingWrapper.query proved against assumed callee contracts (draw size, reduced set, re-translation of indices "
                    "and utilities, with and without utilities); wrapped vs unwrapped queries for every compatible inner strategy, both "
                    "exclude_non_subsample settings, int / float max_candidates, jobs 1..3"),
}


def run(prop, tier, seed, write_baseline=False, only=None):
    import importlib
    import os
    spec = PROPS[prop]
    chk = Check(prop, tier, seed)
    groups = []
    missing = []
    for entry in spec["units"]:
        mod, pred = entry[0], entry[1]
        if len(entry) > 2 and entry[2] == "thorough" and tier != "thorough":
            continue          # slow unit groups (minutes of solver time) belong to the thorough tier only
        try:
            importlib.import_module(mod)
        except ModuleNotFoundError:
            missing.append(mod)
            continue
        groups.append(units_of(mod, only, pred))
    run_all(chk, groups, tier)
    # a unit may carry obligations of several properties (one symbolic execution of a function, postconditions taken from different
    # property statements): a check reports only the obligations that state its own property
    for mod, keep in spec.get("obligations_of", {}).items():
        pre = mod.split(".")[-1] + "."
        for u in chk.unit_results:
            if u.get("unit", "").startswith(pre) and u.get("obligations"):
                u["obligations"] = [o for o in u["obligations"] if keep(o["name"])]
                u["allow_empty"] = True
    if write_baseline:
        _wb(chk)
    from pyvc.driver import ROOT
    for script, p in spec["bounded"]:
        if os.path.exists(os.path.join(ROOT, script)):
            chk.add_bounded(run_bounded(script, p, tier, seed))
    n_units = sum(len(n) for _, n in groups)
    import json
    claimed = json.load(open(os.path.join(ROOT, "props", "levels.json"))).get(prop, {}).get("category")
    # the evidence level is the level claimed in MANIFEST.json; a proof-level claim is downgraded by the driver itself
    # (to "other") whenever an obligation is not discharged on this run
    level = claimed if (claimed and claimed != "proof") else (None if n_units else "exploration")
    return chk.finish(checker_cmd=f"python3-vt check.py {prop} --tier {tier}", trusted_base=spec["trusted"],
                      assumptions=spec["assumptions"], explanation=spec["explanation"], level_override=level)
